#!/venv/bin/python
"""Write meta.json for the round-12 seeds from an evaluation log (tools/try_patch.py output per seed).

usage: tools/make_seed_meta2.py <log>      log lines: '## C01-A --- C01 exit 1|    [RULE] ...|ALARMS: [...]|'
"""
from __future__ import annotations

import json
from pathlib import Path
import re
import sys

DESC = {
    "C01-K": ("the hold-back branch of the outgoing set handler parks a re-built Message(...) without the ack field: the command written at the wake has ack 0", "a set with ack=1 to a sleeping node (2.x)"),
    "C01-L": ("payload = fields.Str(validate=validate_payload) with str.isprintable(): validators run on load only; tab, no-break space, zero-width joiner, BOM are refused on decode", "a payload with a non-printable (not only control) character"),
    "C02-K": ("the error text of CommandField for child 255 names the command with protocol.Command(command).name: ValueError for a command outside 0-4 escapes load", "child 255 and a command integer outside 0-4"),
    "C02-L": ("Gateway memoises MessageSchema.load with lru_cache: an accepted line returns the same mutable Message object on every delivery", "the same line twice and a consumer that edits the yielded message"),
    "C03-K": ("InvalidMessageError formats the offending message with a precision spec: object.__format__ raises TypeError for Message objects (the handlers pass a Message)", "a handler-level invalid payload (battery, heartbeat, version)"),
    "C03-L": ("id requests hand out the lowest free id when 254 is taken, with next() over a generator without default and a capacity guard that counts node 0: StopIteration inside a coroutine becomes RuntimeError", "ids 1..254 registered, node 0 not, then an id request"),
    "C04-K": ("a debug log in the child presentation evaluates gateway.protocol.Presentation(type).name: ValueError for a child type unknown to the active protocol aborts before add_child", "a child presented with a type outside the protocol's Presentation enum"),
    "C04-L": ("listen() memoises the incoming handler per command for the life of the generator: after the version report the 1.4 internal handler keeps being used", "an internal message before the version report, then a heartbeat"),
    "C05-K": ("the version wrapper swallows UnsupportedMessageError while no version is known (`except UnsupportedMessageError: if version is not None: raise`)", "an unsupported type before the first version report"),
    "C05-L": ("handle_internal memoises handler names in a class attribute of the 1.4 handler class: shared by all versions and gateways, a hit skips the type gate", "a type accepted under a newer protocol, then received under an older one"),
    "C06-K": ("I_VERSION added to the exemption tuple in the wrapper's finally: an unparsable version reply leaves the version unknown and is not followed by a query", "version unknown and a version message with a payload AwesomeVersion cannot compare"),
    "C06-L": ("node / child checks hoisted into a decorator stacked outside the version wrapper: the rejection is raised before the wrapper's try/finally is entered", "version unknown and a set / req from an unknown node or child"),
    "C07-K": ("the 2.0 heartbeat handler returns early for repeater nodes (type 18) before marking sleeping / flushing: parked commands of such a node are never written", "a repeater whose sleeping flag was restored from the persistence file"),
    "C07-L": ("the 2.2 heartbeat handler falls back to the 2.0 behaviour (mark sleeping, flush) for nodes whose library is older than 2.2", "protocol 2.2, a node that presented library 2.0 / 2.1, a heartbeat response"),
    "C08-K": ("Gateway.send retries once after reconnecting on TransportFailedError: a failed write during a release is absorbed when the retry succeeds", "a failing write followed by a successful one"),
    "C08-L": ("a per-node pending flag is consumed (`pending_nodes.remove` / except KeyError: return) before the release loop: after a failed flush the left-over commands are never looked at again", "a write fault that leaves a command unwritten, no new command afterwards"),
    "C09-K": ("an else branch delivers the replacement at once (`await send(set_messages[key]); pop(key)`) without identity check: a further send during that second write is popped unsent", "two sends for the key in two write windows of one flush"),
    "C09-L": ("the encoded line is cached next to the parked message and looked up live by key when the flush writes: the new string goes out under the old entry, the identity guard fails, the value is written twice", "two parked keys, a send for the later key during the first write"),
    "C10-K": ("in the wrapper's except clause the buffered (marker) send is moved before the unbuffered write", "a write fault on the presentation request"),
    "C10-L": ("the flush also releases internal_messages of the woken node: the outstanding-request marker is written and removed at a wake", "a known node with an outstanding request wakes"),
    "C11-K": ("a failed reply un-registers the placeholder (`except TransportError: del gateway.nodes[next_id]; raise`): the bytes may have gone out before drain() failed", "a transport fault on the id response, then another request"),
    "C11-L": ("a shared _reply helper addresses replies to child 255: id requests may arrive from any child", "an id request whose child id is not 255"),
    "C12-K": ("__aexit__ resets the whole MessageBuffer in its finally ('do not throttle presentation requests after a reconnect'): held set commands are dropped", "send to a sleeping node, leave and re-enter the context, the node wakes"),
    "C12-L": ("outgoing handle_req delegates to handle_set so req is held for sleeping nodes: the buffer key has no command, a set and a req for the same child / type overwrite each other", "a set and a req for the same (node, child, type) to a sleeping node"),
    "C13-K": ("the legacy null fallbacks test truthiness instead of `is None`: a legacy type 0 becomes 18", "a pymysensors file with a node of type 0"),
    "C13-L": ("NodeSchema.protocol_version gets a validator (AwesomeVersion(value).valid): presentations store any payload, so save writes files that load refuses", "a node presented with an empty / non-version library string"),
    "C14-K": ("load narrows except ValueError to JSONDecodeError + UnicodeDecodeError: json.loads raises a plain ValueError above the 4300-digit limit", "an integer literal with more than 4300 digits"),
    "C14-L": ("a validator on protocol_version compares AwesomeVersion objects: AwesomeVersionCompareException is not a ValidationError and escapes schema.load", "a record whose protocol_version is not a version"),
    "C15-K": ("save retries after PermissionError by making the live file writable (chmod in the executor): a read-only file, safe at every crash point before, is now truncated in place", "a read-only persistence file and a crash in the retried save"),
    "C15-L": ("the document is written in 64 KiB blocks: prefixes of the JSON exist on disk between blocks", "a registry whose JSON exceeds 64 KiB, a crash between two blocks"),
    "C16-K": ("the except clause of __aenter__ first disconnects under suppress(TransportError): MQTTClient._disconnect raises RuntimeError when not connected, which skips persistence.stop()", "MQTT transport, failing connect, persistence configured"),
    "C16-L": ("the saver runs `await asyncio.shield(self.save())`: the in-flight save survives the cancellation and interleaves with the final save", "leaving the context while the saver is inside a file operation"),
    "C17-K": ("the LimitOverrunError handler drops consumed + 1 bytes: when no terminator is buffered yet, readexactly waits inside the handler and IncompleteReadError / OSError escape unmapped", "more than 64 KiB without newline, then end of stream"),
    "C17-L": ("write awaits drain() only when the transport's write buffer is non-empty: on a lost connection the buffer is empty, drain is skipped and every write reports success", "the peer resets the connection, then write()"),
    "C18-K": ("read() puts a TransportFailedError item back into the queue so later reads fail too: the error is delivered more than once and out of order", "a broker failure followed by further reads"),
    "C18-L": ("the receive queue gets maxsize=1000 while the hooks keep put_nowait: QueueFull kills the receive task", "more than 1000 items queued"),
    "C19-K": ("the 2.0 heartbeat handler falls back to round(float(payload)) in its except clause; the 2.2 override stays strict", "a heartbeat payload '12.0' / '1e3'"),
    "C19-L": ("the shared handle_set validates the value type against the active protocol's VALID_MESSAGE_TYPES: that table is not monotone from 1.4 to 1.5", "a set of type 22 on an S_HEATER child"),
}


def main() -> int:
    log = Path(sys.argv[1]).read_text()
    root = Path(__file__).resolve().parent.parent / "seeded"
    for m in re.finditer(r"^## (C\d\d-[KL]) (.*)$", log, re.M):
        sid, rest = m.group(1), m.group(2)
        prop = sid[:3]
        alarms = {}
        cur = None
        for part in rest.split("|"):
            part = part.strip()
            mm = re.match(r"--- (C\d\d) exit (\d)", part)
            if mm:
                cur = mm.group(1)
                alarms[cur] = {"exit": int(mm.group(2)), "rules": []}
                continue
            mm = re.match(r"\[([A-Z0-9-]+)\]", part)
            if mm and cur and mm.group(1) not in alarms[cur]["rules"]:
                alarms[cur]["rules"].append(mm.group(1))
        d = root / sid
        change, needs = DESC[sid]
        demo = next((p.name for p in d.glob("demo_*.py")), None)
        meta = {
            "id": f"seed12-{sid.lower()}",
            "breaks_property": prop,
            "round": 12,
            "source": "independent sub-agent given only the property text and a scratch worktree of /repo (two changes per property, changes off the happy path (except / finally / else clauses, early returns, clean-up, defaults, retries, log statements) or additive changes (a cache / memo, a fast path, batching, a retry, an extra validation, an optional parameter, deduplication) that break the property as a side effect; seven or more candidates considered, the two least obvious delivered)",
            "change": change,
            "needs_to_manifest": needs,
            "confirmed": {"unedited_test_suite_with_change": "273 passed", "demo_with_change_exit": 1, "demo_without_change_exit": 0, "how": "confirm script in the scratch worktree (same steps as tools/confirm_seed4.sh): suite with the change; demo with the change; git apply -R; demo; git apply"},
            "checks_run": "tools/try_patch.py <patch>: scratch copy of /repo/src with the patch applied, all 19 quick checks (and tools/eval_seed.py on /repo for the first pass)",
            "alarms": sorted(alarms),
            "alarm_detail": alarms,
            "caught_by_rules_of_target_property": alarms.get(prop, {}).get("rules", []) if alarms.get(prop, {}).get("exit") == 1 else [],
            "demo": f"{demo} (run with PYTHONPATH=<tree>/src; exit 1 = property violated)",
        }
        (d / "meta.json").write_text(json.dumps(meta, indent=1) + "\n")
        print(sid, meta["alarms"], meta["caught_by_rules_of_target_property"] or "NOT CAUGHT BY TARGET")
    return 0


if __name__ == "__main__":
    sys.exit(main())
