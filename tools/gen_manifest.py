#!/venv/bin/python
"""Regenerate MANIFEST.json from the table below (claimed = a rules module exists)."""
import json
import os

HERE = os.path.dirname(os.path.dirname(os.path.abspath(__file__)))
props = [json.loads(l) for l in open(os.path.join(HERE, "properties.jsonl"))]

TABLE = {
    "C01": ("structural premises of the round trip: bounded left split (DELIM-1), one field order (ORDER-1), same delimiter + single newline + rstrip-only (DELIM-2), constructor normalisation (NORM-1), stateless codec (STATELESS-1), identity encoding of every field (ENC-ID-1), field declarations without load-only restrictions (DECL-1), the line handed to the transport is the encoding made in that call (ENC-FRESH-1), the message handed to the handlers is the decode of the line just read (FRESH-DECODE-1); every obligation is discharged on the source or refuted at a named construct. Value equality for all payload strings is not decided.", "marshmallow Int/Str (de)serialisers, int(str(i)) == i; Meta.fields order preserved by marshmallow 3.26 (OrderedSet)", "AST rules over the resolved schema/constructor + constant folding", "4 C01"),
    "C02": ("declarations equal the statement's numbers (DECL-1), cross-field rule evaluated abstractly over a finite partition of (child, command, type, canonical/non-canonical spelling) for all five versions against the accept/reject table of the statement (XFIELD-1), exception-escape analysis of MessageSchema.load (EEA-LOAD), literal decoding (LITERAL-1), every line decoded by MessageSchema.load in the step that dispatches it (FRESH-DECODE-1).", "which numerals Python's int() accepts is read as 'integer'; marshmallow built-in fields raise ValidationError only", "abstract evaluation over a finite partition + exception-escape analysis", "4 C02"),
    "C03": ("interprocedural exception-escape analysis of Gateway.listen under all five version contexts (dispatch tables, decorator chains, transports expanded to the built-ins): every (exception, raise site) pair that can escape is enumerated and must derive from AIOMySensorsError; HIER-1 class hierarchy; STATE-1 validate-then-commit for the protocol state.", "external summary table (sa/summaries.py); A1-A7", "exception-escape dataflow over the resolved call graph (ast + mypy facts)", "4 C03"),
    "C04": ("symbolic provenance of every registry write against the table of the statement (PROV-REG), guard-before-mutation with the right id in the error (GUARD-MUT), every path of a reporting handler records or delegates (MUST-REG), who-may-write (WHO-REG), listen loop shape and handler return values (LISTEN-1), the handler getter has no way around the handler table (DISPATCH-TOTAL), the reporting handlers refuse a message only for the reasons the statement names (REJECT-SET), Node / Child store constructor arguments as given (CTOR-ID), handler classes and the helpers of their modules keep no state / memo (HANDLER-STATE-1).", "Node/Child constructors beyond provenance; arrival order is the transport's", "symbolic provenance terms + CFG dominance", "4 C04"),
    "C05": ("version table (TABLE-V), selection shape (SELECT-1), no selection by the spelling of the report (SELECT-SPELL), totality of the comparison for trailing sections (CMP-TOTAL), validate-then-commit and three-copies agreement (STATE-1, COPIES-1), type gate on the active module (GATE-1), learning sites as a path rule under the assumption child 255 / node 0 (LEARN-1), who-may-assign the version (WHO-VERSION).", "AwesomeVersion's ordering of arbitrary strings beyond the trailing-section fact (summary read from its source)", "table folding + shape recognisers + CFG", "4 C05"),
    "C06": ("reply table by symbolic provenance (REPLY-TABLE), unbuffered sends with None propagation (UNBUF-1), wrapper exactly once + finally (WRAP-EXACT), truth table of the wrapper condition over every internal type number (WRAP-COND), may-write effect per handler-table cell (WRITERS-1), dispatch on every path load -> yield (DISPATCH-1), no way around the handler table (DISPATCH-TOTAL), stateless handler classes (HANDLER-STATE-1), the version-known flag is set only by an accepted report (STATE-1).", "clock value; other formulations of the time payload are exit 2", "symbolic provenance + effect analysis over the handler table", "4 C06"),
    "C07": ("event rules on the CFG: park-or-write exactly one (PARK-1), flush reachable from exactly the wake cells per version (WAKE-1), node filter (FLUSH-NODE), send-then-remove once, unbuffered (FLUSH-ONCE), parked commands leave the buffer only by being written (WRITE-THEN-FORGET, loss-only), the buffer object is never replaced (BUFFER-ONCE), the flush always looks at the buffer (FLUSH-TOTAL).", "delivery at the transport is C17/C18", "event abstraction on the CFG + handler-table reachability", "4 C07"),
    "C08": ("WRITE-THEN-FORGET: removal dominated by the normal completion of the send of the same entry, no clear, no handler swallowing the transport error between write and listen (a handler re-raises only if every path through it raises), the flush always iterates the buffer (FLUSH-TOTAL).", "A1", "CFG dominance + exception-escape analysis", "4 C08"),
    "C09": ("ATOM-1: every removal/store whose key was obtained before an await is re-validated against the current content after the await; ITER-1: no iteration over the live dict spans an await; MUT-1: parked entries are never modified in place; SLEEP-1 / FLUSH-ASLEEP: the node stays marked sleeping while its flush runs (no store other than True into .sleeping in the flush or a wake handler); ATOM-2: the removal guard compares with the object that was sent. Necessary structural condition plus the invariant argument; real schedules are not executed.", "A1, A2", "await-straddling read-modify-write detection on the CFG", "4 C09"),
    "C10": ("EPISODE-1 (request term, guard on the marker, marker armed only after a successful write, re-raise), REARM-1 (presentation clears the marker key, component-wise key comparison), COVER-1 (every 2.x cell that may raise Missing* is wrapped; none in 1.x), WHO-MARKER (markers removed only by the presentation handlers, stored only by the outgoing internal handler).", "A1", "event rules on the CFG + key-term comparison + exception-escape analysis", "4 C10"),
    "C11": ("FRESH-1 (max+1 / 1 when empty, or first free id of a constant range), RANGE-1 (interval evaluation of the raise condition against MAX_NODE_ID), ORDER-ID (store dominates send, no await between read and store), reply term, identity encoding of the reply (ENC-ID-1), the registry never shrinks (ID-KEEP-1).", "A1", "shape recogniser + interval evaluation + CFG", "4 C11"),
    "C12": ("EXHAUST-OUT (a handler for every Command member on both sides, all versions), DRAIN-1 (every buffer collection stored on a send path has a drain), OUTCOME-1 (every path of every outgoing handler parks or writes exactly once), KEY-1 (one command per keyed buffer), BUFFER-ONCE, DISPATCH-TOTAL (outgoing), WRITE-THEN-FORGET in loss-only mode, NOT-A-MESSAGE, EEA-SEND (escapes of Gateway.send derive from AIOMySensorsError).", "A3: attribute values of a Message have their annotated types", "handler-table exhaustiveness + effect analysis + exception-escape analysis", "4 C12"),
    "C13": ("SCHEMA-BIJ (schema fields = constructor parameters = stored attributes = the statement's list, int-keyed dicts declared), VALID-SYM (every load-side validator holds for every value a writer can store), LEGACY-1 (the pre_load hooks evaluated abstractly over every assignment of absent/null/falsy/truthy to the legacy keys against the specified translation), ENC-SYM (save and load agree on the text encoding), SAVE-TOTAL (every call of save writes the registry as it is then), INPLACE-3 (the text save writes is always encodable).", "marshmallow/JSON serialisers; value equality after the round trip is not decided", "schema/constructor bijection + writer/validator symmetry", "4 C13"),
    "C14": ("exception-escape analysis of Persistence.load with taint from json.loads through Schema.load into the pre_load hooks and nested schemas (EEA-PLOAD), handler order (HANDLER-ORDER), empty-file default (EMPTY-1), LOAD-GUARD (a failed load at context entry is not followed by a stop/save whose own failure replaces the read error); repository validators of schema fields are analysed as part of Schema.load; ENTER-ESC (escapes of Gateway.__aenter__ are library errors); TEMPLATE-1 (custom error templates use only placeholders marshmallow supplies - table parsed from the installed marshmallow sources).", "summary table; A5", "exception-escape analysis + taint", "4 C14"),
    "C15": ("INPLACE-1: the live persistence path is never opened for writing; it may only be the destination of an atomic replace whose source was written and closed before. INPLACE-2: nothing but the write of a precomputed text runs while a file is open for writing. LOAD-GUARD: a failed load is never followed by a save (directly or through a registered callback). INPLACE-3: the text written into the truncated file is always encodable. SAVE-SERIAL: no save runs as an independent or shielded task (two writers never interleave on the file). OPEN-FLAGS: an opener on a persistence open keeps the flags of the mode.", "POSIX rename atomicity; process death is the fault model", "who-may-open rule on resolved open() sites", "4 C15"),
    "C16": ("ENTER-ORDER, LIFE-1 cancel-then-await, LIFE-2 release on failed entry, LIFE-3 finally-discipline on exit, STOP-1, CADENCE-1, TASKS-1 (no unregistered task / shield), SAVE-TOTAL (save writes on every path), DISC-1 (stream attributes assigned only by connect), CONN-LEAK-1 (a failing transport connect leaves no task behind), SAVER-ESC (nothing but a write error or cancellation ends the saver task), ORDERED-IO (worker-thread file operations share one single-worker executor, so an operation abandoned by cancellation cannot run after the final save) - CFG path rules on __aenter__/__aexit__/start/stop/save/connect, helpers inlined.", "elapsed wall-clock time is not decided", "CFG path rules (must-pass-through, every-exit)", "4 C16"),
    "C17": ("EEA-STREAM (escapes of connect/read/write are TransportErrors, none from disconnect), CONN-GUARD (None guard dominates every use), GUARD-STABLE (no method resets a stream attribute that a suspended read dereferences again), FRAME-1 (single readuntil(b'\\n') consumer, decode unmodified, single write+drain producer), FACTORY-1, ABSORB-1 (every stream operation of disconnect inside except OSError), OVERRIDE-1 (TCP/serial inherit the stream operations), RESYNC-1/2 (an over-long line is dropped and skipped), CLOSE-GRACEFUL (no abort() / SO_LINGER: bytes handed to the stream are not discarded by the transport), INIT-ATTRS (the stream attributes exist before connect).", "line framing for every chunking is delegated to asyncio.StreamReader.readuntil (trusted)", "exception-escape analysis + CFG dominance + single-consumer rule", "4 C17"),
    "C18": ("TOPIC-MAP (symbolic string terms of both mapping functions, pass-through to publish, subscription list = Command values), FIFO-1, TASK-ESC, EEA-MQTT, LIFE-1 at disconnect.", "aiomqtt / broker semantics (summaries)", "symbolic string terms + exception-escape analysis + lifecycle rule", "4 C18"),
    "C19": ("MONO-1 (enum tables grow monotonically, rule constants equal), CHAIN-EQ (resolved handler chains equal for every ordered version pair modulo the differences the statement names), VERDEP-1 (no branch on the version value in handlers), EXCEPT-1 (the heartbeat / pre-sleep exception as stated), HANDLER-STATE-1 (handler classes keep no state shared between versions), REJECT-ORDER (an overriding handler decides the rejections it shares with the overridden definition in the same order).", "the five modules check one another; the MySensors specification is not available", "sibling cross-check of the resolved handler tables", "4 C19"),
}

claimed = []
na = []
for p in props:
    pid = p["id"]
    has = os.path.exists(os.path.join(HERE, "sa", "rules", f"{pid.lower()}.py"))
    text, note, tech, ref = TABLE[pid]
    if has:
        claimed.append(
            {
                "property_id": pid,
                "quick_cmd": f"/venv/bin/python /verif/vcheck.py {pid} --tier quick",
                "thorough_cmd": f"/venv/bin/python /verif/vcheck.py {pid} --tier thorough",
                "evidence_file": f"/verif/evidence/{pid}.json",
                "replay_cmd_template": "/venv/bin/python /verif/vcheck.py --replay {path} " + pid,
                "engine": "sa",
                "level_claimed": {"category": "other", "text": "static analysis, per-construct obligations: " + text, "design_ref": "DESIGN.md section " + ref},
                "level_note": note + "; assumptions A1-A7 as recorded in the evidence file",
                "technique": "static analysis: " + tech,
            }
        )
    else:
        na.append({"property_id": pid, "reason": "check not built yet (work in progress; see DESIGN.md section 4)"})

m = {
    "version": 1,
    "setup_cmd": "mkdir -p /verif/.cache /verif/evidence /verif/reports",
    "hooks": {
        "guard": "AIOMYSENSORS_VERIF",
        "enable": "no hooks: every check is static and reads /repo/src as it stands",
        "baseline_off_cmd": "cd /repo && /venv/bin/python -m pytest -ra -q -p no:cacheprovider --timeout=900",
        "source_commits": [],
        "add_only": True,
    },
    "engines": [
        {
            "name": "sa",
            "path": "/verif/sa",
            "serves_properties": [c["property_id"] for c in claimed],
            "kind_free_text": "repository-specific static analyser: ast source model + mypy typed facts, resolved handler tables per protocol version, statement CFG with exceptional edges, interprocedural exception-escape analysis with taint and guard facts, symbolic provenance terms, event/ordering rules",
        }
    ],
    "checks": claimed,
    "not_applicable": na,
    "notes": "All checks are static (no repository code is executed; mypy type-checks it, ast parses it). Known genuine findings are listed in /verif/known_findings.json (2 open: C12 DRAIN-1, C15 INPLACE-1; 20 fix commits, 21 fixed entries). quick = rules on /repo + one combined canary tree; thorough = + the property's slice of the mutation matrix (174 breaking + 20 preserving variants + 391 independently seeded breaking patches + 9 refactoring-plus-break variants + 273 behaviour-preserving refactorings written by independent sub-agents; the full matrix (tools/run_mutants.py --all) additionally replays 8 seeded defects on which the target check must end as an analysis error, never as a pass, and 20 refactorings outside the modelled shapes on which no check may refute) + prune-off escape comparison.",
}
json.dump(m, open(os.path.join(HERE, "MANIFEST.json"), "w"), indent=1)
print("claimed:", [c["property_id"] for c in claimed])
