#!/venv/bin/python
"""Write meta.json for the round-20 seeds from an evaluation log (tools/try_patch.py output per seed).

usage: tools/make_seed_meta2.py <log>      log lines: '## C01-A --- C01 exit 1|    [RULE] ...|ALARMS: [...]|'
"""
from __future__ import annotations

import json
from pathlib import Path
import re
import sys

DESC = {
    "C01-S": ("to_dict strips every split field instead of right-stripping the line; payload = fields.Str and to_string still assume the payload is kept verbatim: leading blanks of the payload are lost", "a payload that starts with a blank or tab"),
    "C01-T": ("the field-count check becomes zip(strict=True) and the maxsplit argument goes as 'redundant'; to_string still emits payloads with ';', which no longer decode", "a payload containing ';'"),
    "C02-S": ("the field-count guard of to_dict is dropped because every field is required=True; validate_child_id still indexes data['command'] / data['message_type']: KeyError", "a line with 2 to 4 fields"),
    "C02-T": ("CommandField.validate_command decides 'system child' by comparing the raw string with '255' instead of the parsed id; the int() parse of ChildIdField accepts ' 255', '0255', '+255'", "child 255 spelled non-canonically with command set / req"),
    "C03-S": ("a shared payload_to_int helper (round(float(..))) replaces int() in the heartbeat handlers, whose `except ValueError` clauses stay: OverflowError for 'inf'", "protocol 2.x, heartbeat payload 'inf' / '1e999'"),
    "C03-T": ("the field-count guard of to_dict is dropped (required=True reports missing fields); the cross-field validators still index the missing keys: KeyError escapes listen", "a truncated line such as '1;2'"),
    "C04-S": ("the 2.0 heartbeat bookkeeping becomes a shared _update_heartbeat helper that carries `sleeping = True`; the 2.2 handler reuses it", "protocol 2.2, a heartbeat response from a known node"),
    "C04-T": ("MissingChildError grows an optional node_id second parameter; the protocol_14 call sites pass (node_id, child_id): the error names the node id as the child", "a set / req for an unregistered child with node id != child id"),
    "C05-S": ("get_protocol gets a string-prefix fast path over the table keys ('2.2.0-beta' -> 2.2); '2.10' hits the key '2.1' before the numeric comparison runs", "a reported minor version of two digits (2.10, 1.40)"),
    "C05-T": ("handle_presentation re-resolves the gateway version only when the node-0 record changed; handle_i_version changes the version without touching nodes[0], persistence restores node 0 while the version is unknown", "presentation 2.0.0, version reply 2.2.0, presentation 2.0.0 - or a persisted gateway node"),
    "C06-S": ("the protocol_version setter gets a no-op shortcut and stores the value before get_protocol validates it; the version wrapper still tests `protocol_version is None`: a garbled reply ends the queries", "an unparsable version payload"),
    "C06-T": ("the version-query exemption is tested on the typed enum member of the message's command against a set of Internal members; IntEnum members of different enums hash / compare equal, the command test is gone", "version unknown and a presentation / set / req of type 9 or 14"),
    "C07-S": ("the 2.0 heartbeat bookkeeping becomes a shared _update_heartbeat helper that keeps `sleeping = True`; the 2.2 override reuses it: a 2.2 heartbeat marks the node asleep and no wake follows", "protocol 2.2, a heartbeat, then a set command"),
    "C07-T": ("parked set commands move from the gateway-wide MessageBuffer onto the Node object; handle_presentation still replaces the Node on every node presentation and so discards them", "a sleeping node with a parked command presents itself again before its next wake"),
    "C08-S": ("the flush pops the node's entries first and restores the unsent ones in `except TransportFailedError`; transports may raise the base TransportError (StreamTransport.write 'Not connected')", "a flush write failing with a TransportError that is not TransportFailedError"),
    "C08-T": ("'write, then forget' becomes 'write all, then MessageBuffer.discard_set_messages(all)': a fault in the middle leaves the entries already written in the buffer", "two parked commands and a fault on the second write"),
    "C09-S": ("handle_set updates an already parked message in place (ack / payload) and stores a copy otherwise; the flush's identity guard no longer notices a replacement during its write", "a send for the key whose write is suspended"),
    "C09-T": ("the flush marks the node awake while it delivers (and asleep again in a finally); concurrent sends bypass the buffer while the flush goes on writing its stale snapshot", "two parked keys and a send for the not yet flushed key during the first write"),
    "C10-S": ("the marker key is derived in one helper _presentation_request(node_id) that always uses child 255; the presentation handler loses its dependence on message.child_id: any child presentation clears the marker", "a child presentation from the node whose request is outstanding"),
    "C10-T": ("the wake flush also delivers and pops the node's buffered internal messages; the presentation request parked there is the outstanding-request marker", "a known node with a missing child and an outstanding request reports a wake"),
    "C11-S": ("the placeholder node is rolled back when sending the id response raises TransportError; StreamTransport.write hands the bytes over before the failing drain: the id may be on the wire and is issued again", "a write fault at the drain of the id response"),
    "C11-T": ("the id response is built from constants (BROADCAST_ID, SYSTEM_CHILD_ID) instead of echoing the request; validate_child_id lets id requests arrive with any node / child id", "an id request whose node id or child id is not 255"),
    "C12-S": ("MessageBuffer.pop_set_messages(node_id) removes all of a node's held messages; the flush iterates the popped list and awaits one write each: removal now precedes the awaits", "a write fault during the wake flush"),
    "C12-T": ("outgoing req shares handle_set's sleep-buffer path; the buffer key (node, child, type) has no command in it: a set and a req for the same child and type overwrite each other", "a set and a req for the same node / child / type between two wakes"),
    "C13-S": ("NodeSchema gets its own node_id field capped at MAX_NODE_ID (254); MessageSchema still accepts 255 and handle_presentation registers Node(255)", "a node without an id presents itself, then save and load"),
    "C13-T": ("save writes UTF-8 with ensure_ascii=False and encoding='utf-8'; load still opens the file with the locale's default encoding", "a non-ASCII sketch name and a host whose preferred encoding is not UTF-8"),
    "C14-S": ("the except clause of load is narrowed to json.JSONDecodeError and the shape error raised directly; the text-mode read still raises UnicodeDecodeError, json.loads a plain ValueError for huge integers", "a file with non-UTF-8 bytes or an integer literal of more than 4300 digits"),
    "C14-T": ("the two pre_load hooks share a _rename_keys helper that holds the isinstance guard and hands non-dict input back; the NodeSchema hook goes on with `'node_type' in data`: TypeError", "a node record that is null / a number / a bool"),
    "C15-S": ("save rotates the old file to <path>.bak before opening the live file; load still treats a missing file as a fresh install and saves its empty registry", "a crash between the rename and the open"),
    "C15-T": ("serialisation moves into a _serialize helper called at the write site, inside `async with open('w')`: the registry is walked after the truncation", "a crash (or a failing dump) while the nodes are serialised"),
    "C16-S": ("the saver skips the periodic save while `self.nodes != saved`, saved = dict(self.nodes) holding the live Node objects (identity equality); handlers mutate nodes in place", "a changed node and one save interval"),
    "C16-T": ("the connect-failure cleanup of __aenter__ is narrowed from BaseException to TransportError ('callers should handle TransportError'); StreamTransport.connect wraps only OSError", "a connect failing with OverflowError / ValueError (port 70000) or cancelled"),
    "C17-S": ("disconnect swaps reader / writer to None before closing; the skip-line loop of read dereferences self.reader again after its first await: AttributeError on None", "an over-long line, the next read suspended, then a disconnect before it resumes"),
    "C17-T": ("the decode moves into the read loop ahead of the skip-flag reset: an undecodable remainder of a dropped line raises before the flag is cleared, the next good line is dropped", "an over-long line whose remainder is not UTF-8, then a good line"),
    "C18-S": ("the incoming queue gets maxsize=1024; _receive / _receive_error still use put_nowait: QueueFull kills the receive task", "more than 1024 unread broker messages"),
    "C18-T": ("TransportReadError.partial_bytes becomes keyword-only and the stream transport's callers are updated; mqtt._handle_incoming still passes it positionally: TypeError in the receive task", "a broker message whose payload is not UTF-8"),
    "C19-S": ("handle_set validates the value type against gateway.protocol.VALID_MESSAGE_TYPES[child_type]; the per-version tables, never consumed before, shrink between 1.4 and 1.5+", "an S_HEATER child with V_HEATER_SW (22) or an S_CUSTOM child with V_TEMP"),
    "C19-T": ("the 2.0 handle_presentation override carries sleeping / heartbeat / battery_level over a re-presentation; the 1.4 handler still builds a fresh Node: the registries of 1.x and 2.x drift", "node presents, battery report, the same node presents again"),
}


def main() -> int:
    log = Path(sys.argv[1]).read_text()
    root = Path(__file__).resolve().parent.parent / "seeded"
    for m in re.finditer(r"^## (C\d\d-[ST]) (.*)$", log, re.M):
        sid, rest = m.group(1), m.group(2)
        prop = sid[:3]
        alarms = {}
        cur = None
        for part in rest.split("|"):
            part = part.strip()
            mm = re.match(r"--- (C\d\d) exit (\d)", part)
            if mm:
                cur = mm.group(1)
                alarms[cur] = {"exit": int(mm.group(2)), "rules": []}
                continue
            mm = re.match(r"\[([A-Z0-9-]+)\]", part)
            if mm and cur and mm.group(1) not in alarms[cur]["rules"]:
                alarms[cur]["rules"].append(mm.group(1))
        d = root / sid
        change, needs = DESC[sid]
        demo = next((p.name for p in d.glob("demo_*.py")), None)
        meta = {
            "id": f"seed20-{sid.lower()}",
            "breaks_property": prop,
            "round": 20,
            "source": "independent sub-agent given only the property text and a scratch worktree of /repo (two changes per property; angle: two cooperating sites that each look fine alone - one relaxes / renames / re-orders something, the other still relies on the old assumption; asynchronous properties through a specific interleaving or fault point, pure ones through a boundary value)",
            "change": change,
            "needs_to_manifest": needs,
            "confirmed": {"unedited_test_suite_with_change": "273 passed", "demo_with_change_exit": 1, "demo_without_change_exit": 0, "how": "confirm script in the scratch worktree (same steps as tools/confirm_seed4.sh): suite with the change; demo with the change; git apply -R; demo; git apply"},
            "checks_run": "tools/try_patch.py <patch>: scratch copy of /repo/src with the patch applied, all 19 quick checks (and tools/eval_seed.py on /repo for the first pass)",
            "alarms": sorted(alarms),
            "alarm_detail": alarms,
            "caught_by_rules_of_target_property": alarms.get(prop, {}).get("rules", []) if alarms.get(prop, {}).get("exit") == 1 else [],
            "target_verdict": "violation" if alarms.get(prop, {}).get("exit") == 1 else "analysis-error" if alarms.get(prop, {}).get("exit") == 2 else "MISSED",
            "demo": f"{demo} (run with PYTHONPATH=<tree>/src; exit 1 = property violated)",
        }
        (d / "meta.json").write_text(json.dumps(meta, indent=1) + "\n")
        print(sid, meta["alarms"], meta["caught_by_rules_of_target_property"] or "NOT CAUGHT BY TARGET")
    return 0


if __name__ == "__main__":
    sys.exit(main())
