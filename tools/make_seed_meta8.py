#!/venv/bin/python
"""Write meta.json for the round-8 seeds from an evaluation log (tools/try_patch.py output per seed).

usage: tools/make_seed_meta2.py <log>      log lines: '## C01-A --- C01 exit 1|    [RULE] ...|ALARMS: [...]|'
"""
from __future__ import annotations

import json
from pathlib import Path
import re
import sys

DESC = {
    "C01-G": ("payload = fields.Str(validate=Length(max=25)) (the radio payload limit): validators run on load only, so a longer payload encodes but no longer decodes", "a payload longer than 25 characters (gateway log lines, V_POSITION)"),
    "C01-H": ("Message.payload becomes a property whose setter coerces numbers / booleans and strips the text: leading blanks of a payload are lost on construction, decode and assignment", "a payload with leading whitespace"),
    "C02-G": ("CommandField compares the raw child id text with '255' instead of the parsed value: '0255' / '+255' get the non-system command set", "child id 255 spelled non-canonically with command set / req"),
    "C02-H": ("payload field gets validate=Length(max=25): well-formed lines with longer payloads are rejected", "a payload longer than 25 characters"),
    "C03-G": ("InvalidMessageError truncates the offending message with an f-string precision spec: object.__format__ raises TypeError for a Message object (the handlers pass a Message, the decoder a str)", "a handler-level invalid message (bad battery level, version, heartbeat payload)"),
    "C03-H": ("StreamTransport.read decodes with errors='surrogateescape': a value with a raw byte is stored and later echoed, and the strict encode in write() raises UnicodeEncodeError from listen", "a set with a non-UTF-8 byte, then a req for that value (TCP / serial)"),
    "C04-G": ("a functools.cache'd helper computes the handler method name from the enum member, shared by handle_internal and handle_stream: Internal(0) == Stream(0) == 0 share one cache entry", "a stream message whose type number collides with an internal type that was looked up first (or vice versa)"),
    "C04-H": ("Node.__init__ stores protocol_version or DEFAULT_PROTOCOL_VERSION: a node presented with an empty library version is recorded as '1.4'", "a node presentation with an empty payload"),
    "C05-G": ("get_protocol compares a precomputed list of AwesomeVersion keys with `key <= reported`: AwesomeVersion.__le__ is string-equal-or-less, so 2.2 <= 2.2.0 is False", "a reported version numerically equal to a table key but spelled x.y.0"),
    "C05-H": ("Gateway.protocol becomes a property derived from the stored version; the setter stores first and resolves lazily: a rejected report leaves the version stored and every later access raises", "a version report AwesomeVersion cannot compare, or the empty payload"),
    "C06-G": ("the version-query exemption becomes a module-level set of Internal members tested without the command guard: IntEnum members equal plain ints, so any command with type 9 or 14 is exempt", "version unknown and a set / req / presentation with message type 9 or 14"),
    "C06-H": ("the req reply is guarded by truthiness (walrus) instead of `is not None`: a stored empty string counts as nothing stored", "a child whose stored value is '' is asked for it"),
    "C07-G": ("class-body alias handle_i_post_sleep_notification = handle_i_pre_sleep_notification in the 2.2 handler: a non-wake message releases the parked commands", "protocol 2.2, commands parked, then internal type 33 from that node"),
    "C07-H": ("Node.heartbeat becomes a property whose setter marks the node sleeping (the 2.0 handler drops its own assignment): the 2.2 heartbeat handler now marks always-on nodes as sleeping", "protocol 2.2, a non-sleeping node that answers heartbeat requests"),
    "C08-G": ("MessageBuffer.release() is a generator that forgets each entry in a finally around its yield: when the send raises, closing the generator pops the entry whose write just failed", "a transport write failure during a release"),
    "C08-H": ("the flush releases through asyncio.gather over a nested release() coroutine: sibling writes keep running detached after the first failure and are still parked when the next wake snapshots", "a failing write, a slower sibling write and an immediate second wake"),
    "C09-G": ("the 2.2 pre-sleep handler marks the node awake while it is served (sleeping = False, restored in finally): a concurrent send is written directly, then the stale snapshot entry", "protocol 2.2, two parked commands, a send for the later key during the first write"),
    "C09-H": ("the flush writes the entry currently stored under the key but keeps the removal guard on the snapshot object: a replaced entry is written, stays parked and is written again", "a send for a not-yet-flushed key during the write of an earlier one"),
    "C10-G": ("a 2.2 override of _handle_sleep_buffer also releases internal_messages of the woken node: the outstanding-request marker is written again and removed", "protocol 2.2, a known node with a missing child sends a pre-sleep notification inside an open episode"),
    "C10-H": ("the presentation handler builds the marker key with SYSTEM_CHILD_ID instead of message.child_id: any child presentation clears the marker", "a child presentation while a request to that node is outstanding"),
    "C11-G": ("MAX_NODE_ID is computed at import time as range(GATEWAY_ID + 1, BROADCAST_ID - 1)[-1] = 253: id 254 is never handed out", "highest registered id exactly 253"),
    "C11-H": ("next_id = next(reversed(gateway.nodes), 0) + 1: the key inserted last is taken for the highest key", "presentations of new ids in descending order, then id requests"),
    "C12-G": ("class-body alias handle_req = OutgoingMessageHandler15.handle_set in the 2.0 outgoing handler: req messages share the sleep buffer and its (node, child, type) key with set messages", "a set and a req for the same child / type to a sleeping node between two wakes"),
    "C12-H": ("the protocol_version setter creates a new MessageBuffer when the protocol module changes: everything held is dropped", "a version report between parking and the node's wake"),
    "C13-G": ("json.dumps(..., ensure_ascii=False) with the locale's file encoding: an unencodable character makes save fail after the truncation; load then sees an empty file", "a non-UTF-8 locale or a lone surrogate in a registry string"),
    "C13-H": ("NodeSchema.sketch_name / sketch_version become Str(allow_none=True, load_default='') and the pre_load null translation is removed: an explicit null loads as None, not ''", "a pymysensors file whose node has null sketch fields"),
    "C14-G": ("fields.Str(error_messages={'invalid': '... {input}'}): String raises its 'invalid' error without an input keyword, so str.format raises KeyError inside Schema.load", "a record whose protocol_version is not a string"),
    "C14-H": ("Gateway.__aenter__ resumes gateway.protocol_version from the persisted node 0 through the property setter: AwesomeVersionCompareException for a stored non-version string", "a persisted node 0 whose protocol_version is not a version"),
    "C15-G": ("the write open gets opener=_owner_only, which builds its own flags (O_WRONLY|O_CREAT) and drops O_TRUNC: a shorter new document leaves the tail of the old one", "the new serialised registry is shorter than the old one"),
    "C15-H": ("json.dumps(..., ensure_ascii=False) with the locale's file encoding: UnicodeEncodeError after open('w') truncated the file", "a non-UTF-8 locale and non-ASCII text"),
    "C16-G": ("cancel_save waits with asyncio.wait([task]) and logs task.exception(): Task.exception() raises CancelledError for a task that ended cancelled", "leaving the context while the saver is not parked in its sleep"),
    "C16-H": ("json.dumps(..., ensure_ascii=False): an unencodable registry string kills the saver on its first save and stop() re-raises before the final save", "a registry string the file encoding cannot represent"),
    "C17-G": ("TransportReadError renders the partial bytes as text (bytes.decode in the constructor): UnicodeDecodeError while building the error for undecodable bytes", "a line with non-UTF-8 bytes or a stream ending inside a multi-byte character"),
    "C17-H": ("StreamTransport.__init__ is replaced by class-level declarations where reader / writer are bare annotations: the attributes do not exist before connect", "read / write / disconnect on a transport that was never (or not successfully) connected"),
    "C18-G": ("TransportReadError.partial_bytes becomes keyword-only and the stream call sites are updated, the positional call in mqtt.py is not: TypeError kills the receive task", "one broker message whose payload is not valid UTF-8"),
    "C18-H": ("the receive queue gets maxsize=1000: put_nowait raises QueueFull in the receive hooks and kills the receive task", "more than 1000 items queued before the reader catches up"),
    "C19-G": ("a child presented without description gets the canonical name of its type in the active protocol's Presentation enum: aliases differ between 1.4 and later versions (S_LIGHT / S_BINARY)", "a child presentation with an empty description and type 3 or 18"),
    "C19-H": ("the duplicated heartbeat bookkeeping moves into a helper named handle_i_heartbeat: under 2.0 the canonical name of type 18 is I_HEARTBEAT, so the name-based dispatch picks the helper up", "an incoming internal message of type 18 under protocol 2.0"),
}


def main() -> int:
    log = Path(sys.argv[1]).read_text()
    root = Path(__file__).resolve().parent.parent / "seeded"
    for m in re.finditer(r"^## (C\d\d-[GH]) (.*)$", log, re.M):
        sid, rest = m.group(1), m.group(2)
        prop = sid[:3]
        alarms = {}
        cur = None
        for part in rest.split("|"):
            part = part.strip()
            mm = re.match(r"--- (C\d\d) exit (\d)", part)
            if mm:
                cur = mm.group(1)
                alarms[cur] = {"exit": int(mm.group(2)), "rules": []}
                continue
            mm = re.match(r"\[([A-Z0-9-]+)\]", part)
            if mm and cur and mm.group(1) not in alarms[cur]["rules"]:
                alarms[cur]["rules"].append(mm.group(1))
        d = root / sid
        change, needs = DESC[sid]
        demo = next((p.name for p in d.glob("demo_*.py")), None)
        meta = {
            "id": f"seed8-{sid.lower()}",
            "breaks_property": prop,
            "round": 8,
            "source": "independent sub-agent given only the property text and a scratch worktree of /repo (two changes per property, small changes whose breakage comes from Python's data model or from a declaration (dunder methods, properties, class vs instance attributes, enum aliases, marshmallow field / Meta options, keyword defaults of library calls, import-time constants) or from a file other than the property's anchor files; four candidates considered, the two least obvious delivered)",
            "change": change,
            "needs_to_manifest": needs,
            "confirmed": {"unedited_test_suite_with_change": "273 passed", "demo_with_change_exit": 1, "demo_without_change_exit": 0, "how": "confirm script in the scratch worktree (same steps as tools/confirm_seed4.sh): suite with the change; demo with the change; git apply -R; demo; git apply"},
            "checks_run": "tools/try_patch.py <patch>: scratch copy of /repo/src with the patch applied, all 19 quick checks (and tools/eval_seed.py on /repo for the first pass)",
            "alarms": sorted(alarms),
            "alarm_detail": alarms,
            "caught_by_rules_of_target_property": alarms.get(prop, {}).get("rules", []) if alarms.get(prop, {}).get("exit") == 1 else [],
            "demo": f"{demo} (run with PYTHONPATH=<tree>/src; exit 1 = property violated)",
        }
        (d / "meta.json").write_text(json.dumps(meta, indent=1) + "\n")
        print(sid, meta["alarms"], meta["caught_by_rules_of_target_property"] or "NOT CAUGHT BY TARGET")
    return 0


if __name__ == "__main__":
    sys.exit(main())
