#!/venv/bin/python
"""Run checks on a scratch copy of /repo/src with a patch applied (never touches /repo).

usage: tools/try_patch.py <patch.diff|-> [--props C01,C02] [-v]     ('-' = unpatched copy)
"""
from __future__ import annotations

from concurrent.futures import ThreadPoolExecutor
from pathlib import Path
import shutil
import subprocess
import sys
import tempfile

sys.path.insert(0, str(Path(__file__).resolve().parent.parent))
from sa import selftest  # noqa: E402

PROPS = [f"C{i:02d}" for i in range(1, 20)]


def main() -> int:
    patch = sys.argv[1]
    props = PROPS
    if "--props" in sys.argv:
        props = sys.argv[sys.argv.index("--props") + 1].split(",")
    verbose = "-v" in sys.argv
    tmp = Path(tempfile.mkdtemp(prefix="vsa-try-"))
    try:
        mut = {"id": "try", "edits": [], "patch": None if patch == "-" else str(Path(patch).resolve())}
        ok, why = selftest.make_variant(mut, tmp, Path("/tmp/pristine") if Path("/tmp/pristine/src").is_dir() else selftest.REPO)
        if not ok:
            print("cannot build variant:", why)
            return 2
        subprocess.run([sys.executable, "-c", "import sys; sys.path.insert(0, %r); from sa.model import Program; Program(%r).facts" % (str(selftest.VERIF), str(tmp))], capture_output=True, check=False)
        with ThreadPoolExecutor(max_workers=16) as ex:
            res = list(ex.map(lambda p: (p, *selftest.run_check(p, tmp)), props))
    finally:
        shutil.rmtree(tmp, ignore_errors=True)
    alarms = []
    for p, code, out in res:
        if code != 0:
            alarms.append(f"{p}({code})")
            print(f"--- {p} exit {code}")
            for ln in out.splitlines():
                if ln.strip().startswith("[") or "ANALYSIS-ERROR" in ln:
                    print("   ", ln.strip()[:300])
                elif verbose and ln.startswith("      "):
                    print("       ", ln.strip()[:400])
    print("ALARMS:", alarms or "none")
    return 0


if __name__ == "__main__":
    sys.exit(main())
