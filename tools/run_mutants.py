#!/venv/bin/python
"""Run the mutation catalogue: anchors, (optionally) the repository test-suite on each variant,
and the check matrix (expected properties, or --all for every property).

usage: tools/run_mutants.py [--tests] [--all] [--only ID-substring] [--jobs N]
"""
from __future__ import annotations

import argparse
from concurrent.futures import ThreadPoolExecutor
import json
import os
from pathlib import Path
import shutil
import subprocess
import sys
import tempfile

sys.path.insert(0, str(Path(__file__).resolve().parent.parent))
from sa import selftest  # noqa: E402

PROPS = [f"C{i:02d}" for i in range(1, 20)]


def run_tests(mut: dict, tmp: Path) -> str:
    d = tmp / ("t-" + mut["id"])
    d.mkdir()
    ok, why = selftest.make_variant(mut, d)
    if not ok:
        return "skipped: " + why
    # tests + config next to the variant's src
    for name in ("tests", "pyproject.toml", "setup.py", "README.md"):
        s = Path("/repo") / name
        if s.is_dir():
            shutil.copytree(s, d / name, ignore=shutil.ignore_patterns("__pycache__"))
        elif s.exists():
            shutil.copy(s, d / name)
    env = dict(os.environ)
    env["PYTHONPATH"] = str(d / "src")
    p = subprocess.run([sys.executable, "-m", "pytest", "-q", "-x", "-p", "no:cacheprovider", "--no-cov", "--timeout=300"], cwd=d, env=env, capture_output=True, text=True, timeout=900, check=False)
    tail = (p.stdout.strip().splitlines() or ["?"])[-1]
    shutil.rmtree(d, ignore_errors=True)
    return ("pass: " if p.returncode == 0 else "FAIL: ") + tail[:100]


def main() -> int:
    ap = argparse.ArgumentParser()
    ap.add_argument("--tests", action="store_true")
    ap.add_argument("--all", action="store_true", help="run every property on every variant")
    ap.add_argument("--only", default="")
    ap.add_argument("--jobs", type=int, default=16)
    ap.add_argument("--json", default="")
    ap.add_argument("--props", default="", help="with --all: only these properties (comma separated) - re-run of matrix columns")
    args = ap.parse_args()
    cat = [m for m in selftest.load_catalogue() if args.only in m["id"]]
    ids = [m["id"] for m in cat]
    assert len(ids) == len(set(ids)), "duplicate mutant ids"
    test_res = {}
    if args.tests:
        tmp = Path(tempfile.mkdtemp(prefix="vsa-t-"))
        try:
            with ThreadPoolExecutor(max_workers=args.jobs) as ex:
                for m, r in zip(cat, ex.map(lambda m: run_tests(m, tmp), cat)):
                    test_res[m["id"]] = r
        finally:
            shutil.rmtree(tmp, ignore_errors=True)
    pairs = []
    for m in cat:
        props = PROPS if (args.all or m["kind"] in ("preserve", "unseen")) else m["props"]
        if args.props:
            props = [p_ for p_ in props if p_ in args.props.split(",")]
        for p in props:
            pairs.append((m, p))
    res = selftest.run_matrix(pairs, jobs=args.jobs)
    by = {}
    for r in res:
        by.setdefault(r["mutant"], []).append(r)
    bad = 0
    for m in cat:
        rs = by.get(m["id"], [])
        line = f"{m['id']:36s} {m['kind']:8s}"
        if m["id"] in test_res:
            line += f" tests[{test_res[m['id']][:40]}]"
        exp = set(m["props"])
        caught = sorted(r["property"] for r in rs if r.get("exit") == 1)
        err = sorted(r["property"] for r in rs if r.get("exit") == 2)
        skipped = [r for r in rs if r["status"] == "skipped"]
        if skipped:
            line += f" SKIPPED ({skipped[0]['detail']})"
            bad += 1
        elif m["kind"] == "preserve":
            line += " silent" if not caught and not err else f" FALSE-ALARM {caught} ERR {err}"
            bad += bool(caught or err)
        elif m["kind"] == "unseen":
            line += f" no-refutation ERR {err}" if not caught else f" FALSE-ALARM {caught} ERR {err}"
            bad += bool(caught)
        elif m["kind"] == "undecided":
            passed = sorted(exp - set(caught) - set(err))
            line += f" caught={caught} EXIT2={err}" + (f" PASSED={passed}" if passed else "")
            bad += bool(passed)
        else:
            missed = sorted(exp - set(caught))
            extra = sorted(set(caught) - exp)
            fails = [r for r in rs if r["status"] == "FAIL" and r["property"] in exp]
            line += f" caught={caught}"
            if missed:
                line += f" MISSED={missed}"
            if extra:
                line += f" also={extra}"
            if err:
                line += f" EXIT2={err}"
            if fails:
                line += " :: " + "; ".join(f"{r['property']}: {r['detail'][:120]}" for r in fails)
            bad += bool(missed or fails)
        print(line)
    if args.json:
        json.dump({"results": res, "tests": test_res}, open(args.json, "w"), indent=1)
    print(f"{len(cat)} variants, {len(pairs)} runs, {bad} problem(s)")
    return 1 if bad else 0


if __name__ == "__main__":
    sys.exit(main())
