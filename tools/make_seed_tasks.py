#!/venv/bin/python
"""Create scratch worktrees and task files for a round of independently seeded changes.

usage: tools/make_seed_tasks.py <round-dir, e.g. /tmp/wt8> [--hint "<extra angle text>"]
The task file holds only the text of one property (never anything from /verif) and the protocol to follow.
"""
from __future__ import annotations

import json
from pathlib import Path
import subprocess
import sys

ROOT = Path(sys.argv[1])
HINT = sys.argv[sys.argv.index("--hint") + 1] if "--hint" in sys.argv else ""
ROOT.mkdir(parents=True, exist_ok=True)
props = [json.loads(l) for l in Path("/verif/properties.jsonl").read_text().splitlines() if l.strip()]
for p in props:
    pid = p["id"]
    wt = ROOT / pid.lower()
    if not wt.exists():
        subprocess.run(["git", "-C", "/repo", "worktree", "add", "-q", "--detach", str(wt), "HEAD"], check=True)
    anchors = p.get("anchors", {})
    txt = f"""# Task: two changes to aiomysensors that break one stated property without breaking its test suite

You work ONLY inside the git worktree `{wt}` (a checkout of the library MartinHjelmare/aiomysensors).
Never touch `/repo` or `/verif`, never read anything under `/verif`. Do not use `git stash`, do not commit, do not
switch branches. The Python to use is `/venv/bin/python` (3.12, the package's dependencies are installed).
Run things with `PYTHONPATH={wt}/src` so that your worktree's sources are the ones imported.

## The property ({pid}) - {p['title']}

{p['statement']}

Quantified over: {p['quantifier']['text']}

Why the existing tests cannot settle it: {p['why_tests_cant']}

Where it lives: files {', '.join(anchors.get('files', []))}
Mechanisms: {json.dumps(anchors.get('mechanism', []), indent=1)}
Observed at: {json.dumps(anchors.get('observe_at', []))}

## What to deliver

Two *different* realistic changes, A and B, to the library source under `src/` such that for each of them:

1. the package still imports and the **unedited** test suite still passes:
   `cd {wt} && PYTHONPATH={wt}/src /venv/bin/python -m pytest -q -p no:cacheprovider --no-cov -x`  (273 passed on the clean tree);
2. the property above is **broken** - there is an input / schedule / history inside the property's quantifier for
   which the stated behaviour no longer holds;
3. it looks like something a maintainer could plausibly commit (a clean-up, a small feature, a robustness or
   performance tweak, a fix for something else) - not sabotage, no dead code, no comments that give it away;
4. it needs something specific to manifest (a particular input shape, interleaving, fault or configuration):
   ordinary use and the test suite keep working.

{HINT}

Think of at least four candidates first, then deliver the two that are least obvious to a reviewer (and preferably
use different mechanisms and different files). Keep each change small (at most about 25 changed lines).

For each change write a demonstration script `demo_A.py` / `demo_B.py` (stand-alone, standard library plus the
package, no pytest, finishes within a minute) that exercises only public behaviour of the package and
**exits 1 when the property is violated and 0 when it holds**: it must exit 1 with the change applied, and 0 on
the clean tree (and 0 with only the *other* change applied).

Save each change as a patch against the clean tree: apply change A, run `git diff -- src > patch_A.diff`, undo it
with `git apply -R patch_A.diff`; the same for B. At the end the worktree must be clean except for the four
untracked files `patch_A.diff`, `patch_B.diff`, `demo_A.py`, `demo_B.py`, and both patches must pass
`git apply --check` on the clean tree.

## Report

List the candidates you considered (one line each), then for A and for B: the diff, the mechanism, which clause of
the property it breaks, what it takes to manifest, and the commands you ran with their results (suite with the
change; demo with the change; demo on the clean tree; demo with only the other change).
"""
    (ROOT / f"task_{pid}.md").write_text(txt)
print("tasks written to", ROOT)
