#!/venv/bin/python
"""Write meta.json for the round-6 seeds from an evaluation log (tools/try_patch.py output per seed).

usage: tools/make_seed_meta2.py <log>      log lines: '## C01-A --- C01 exit 1|    [RULE] ...|ALARMS: [...]|'
"""
from __future__ import annotations

import json
from pathlib import Path
import re
import sys

DESC = {
    "C01-E": ("to_string 'sanitises' the payload with \" \".join(values[-1].split()) after building the field texts: runs of blanks collapse, leading blanks and tabs vanish", "a payload with a double space, a leading blank or a tab"),
    "C01-F": ("Gateway.listen decodes through a per-gateway lru_cache of MessageSchema.load (cleared on protocol switch): a repeated line yields the same mutable Message object", "the same line twice on one gateway and the consumer edits the first yielded message"),
    "C02-E": ("the three hand-written integer parsers share parse_int(): str.isdigit() guard, then an unprotected int() - superscripts / circled digits pass isdigit() and make int() raise ValueError", "a child id / command / type field containing a Unicode digit of category No"),
    "C02-F": ("CommandField no longer re-validates the child id and compares the raw field text with '255': padded spellings of 255 get the non-system command set", "child id spelled '0255' / ' 255' with command set or req"),
    "C03-E": ("the 2.2 heartbeat handler compares the node's stored (never validated) library version with AwesomeVersion: AwesomeVersionCompareException escapes listen", "a node presented with an unparsable version, later a heartbeat under 2.2"),
    "C03-F": ("the sleep-buffer flush iterates the live set_messages dict across the awaited send: a concurrent send for a new key makes the next step raise RuntimeError", "an application send for the same sleeping node (new child/type) while a release is suspended"),
    "C04-E": ("handle_presentation (1.4 code, inherited by all versions) refuses types unknown to the lexically bound 1.4 Presentation enum with UnsupportedMessageError", "protocol >= 1.5 and a sensor type >= 26"),
    "C04-F": ("Gateway.listen binds self.protocol (and transport.read / schema.load) once before the loop: a version learnt while the generator lives keeps dispatching to the 1.4 handlers", "one long-lived listen() generator spanning the version report, then a 2.x-only message (heartbeat)"),
    "C05-E": ("the 2.0 presentation override updates a known node in place and returns early: a repeated gateway (node 0) presentation never reaches the version handler", "protocol >= 2.0 active, node 0 known, the gateway presents itself with another release"),
    "C05-F": ("Gateway.__aexit__ resets only _protocol_version to None: the reported version and the active rules disagree afterwards / in the next session", "a Gateway object inspected or re-entered after leaving the context"),
    "C06-E": ("the protocol_version setter stores the value before get_protocol validates it: after one unusable report the version counts as known and no version query is sent any more", "version unknown and a version report AwesomeVersion cannot parse (e.g. the empty payload)"),
    "C06-F": ("the reboot reaction moves into a helper named handle_i_reboot: the name-based internal dispatch now treats a received I_REBOOT as a message to answer with a reboot command", "a received internal message of type I_REBOOT (13)"),
    "C07-E": ("the 2.0 heartbeat handler skips the flush when the node was not yet marked sleeping - but a re-presentation replaces the Node (flag reset) while its commands stay parked", "a command parked, the node re-presents itself, then its next heartbeat"),
    "C07-F": ("the heartbeat validation is shared by 2.0 and 2.2 through a helper that also sets sleeping = True: a 2.2 heartbeat marks an always-on node as sleeping although 2.2 never flushes on heartbeat", "protocol 2.2, a non-sleeping node that sends heartbeat responses"),
    "C08-E": ("Gateway.send(message_buffer=False) pops a buffered command of the same key before writing: the flush's own release removes the entry before the write, so a failed write loses it", "a transport write failure during a flush"),
    "C08-F": ("the flush releases all commands with asyncio.gather and forgets them afterwards: one failure leaves every successfully written command parked", "two or more parked commands and one failing write"),
    "C09-E": ("a newer set command is merged into the already parked Message object (payload / ack refreshed in place): the flush's identity check passes although the value changed during the write", "a send for exactly the key whose write is in flight"),
    "C09-F": ("the flush marks the node awake (sleeping = False, restored in finally) while it releases the buffer: a concurrent send is written directly and the stale snapshot entry after it", "two parked keys and a send for the later one while the first write is suspended"),
    "C10-E": ("the 2.0 presentation handler clears the marker under (node, 255, I_PRESENTATION) for child presentations too, before the failing 1.4 handler runs: every child presentation of an unknown node re-arms the request", "the node presentation is lost and several child presentations arrive"),
    "C10-F": ("a 2.2 override of _handle_sleep_buffer also releases and removes internal_messages of the woken node: the marker is written again and forgotten", "protocol 2.2, a known node with a missing child sends a pre-sleep notification inside an open episode"),
    "C11-E": ("the placeholder is unregistered again when sending the id response raises (except BaseException): an id whose bytes already left is handed out twice", "the response write is interrupted (cancelled drain / connection error) after the line was transmitted"),
    "C11-F": ("when max+1 exceeds 254 the handler reuses gateway.free_node_ids()[0], which enumerates range(255) starting at 0: the gateway's own id is handed out", "254 or 255 registered and node 0 absent"),
    "C12-E": ("a debug log in the 1.4 outgoing handle_set names the type through the 1.4 SetReq enum (inherited by all versions): ValueError for value types >= 40", "protocol 2.x, sleeping destination, buffering on, set type >= 40"),
    "C12-F": ("a 2.0 outgoing handle_req parks requests for sleeping nodes by delegating to handle_set: set and req share the (node, child, type) key and replace each other", "a set and a req for the same child/type to a sleeping node between two wakes"),
    "C13-E": ("the legacy translation uses truthiness (`data.pop('type') or 18`, `data[key] or ''`): a legacy node of type 0 (S_DOOR) becomes a gateway", "a pymysensors-layout file with a node whose type is 0"),
    "C13-F": ("save() coalesces concurrent callers behind a lock: a call made while another save is in flight waits and returns without writing the newer registry", "save() called while the start-up / periodic save is running, with registry changes in between"),
    "C14-E": ("NodeSchema.protocol_version gets a validator comparing with AwesomeVersion: AwesomeVersionCompareException (not a ValidationError) escapes Schema.load", "a stored protocol_version text that is not a version ('', 'abc', '2.x')"),
    "C14-F": ("Gateway.__aenter__ moves load/start inside the try whose handler stops persistence: a failed load runs stop() -> save(), whose own failure (write error) replaces the read error", "a persistence path that fails for reading and for writing (directory, path below a file)"),
    "C15-E": ("the saver awaits asyncio.shield(self.save()): cancelling the saver no longer waits for the save in flight, so the final save of stop() interleaves with it on the same file", "leaving the context while a periodic save is in flight and the registry changed"),
    "C15-F": ("json.dumps(..., ensure_ascii=False) with the locale's encoding: unencodable text raises UnicodeEncodeError after open('w') truncated the file", "a non-UTF-8 locale (or surrogate escapes) and a non-ASCII value"),
    "C16-E": ("cancel_save re-raises CancelledError when the caller's Task.cancelling() is non-zero - which stays 1 while __aexit__ cleans up after a delivered cancellation: the final save is skipped", "the context's own task is cancelled while the saver is not parked in its sleep"),
    "C16-F": ("save() yields to the loop (await asyncio.sleep(0)) inside the iteration over the live registry: a node registered meanwhile makes the saver die with RuntimeError, stop() re-raises it before the final save", "a node-adding message handled while a periodic save is serialising"),
    "C17-E": ("read() takes the over-long-line skip flag into a local on entry: a read cancelled before the rest of the line arrives loses the flag and the tail is delivered as a line", "an over-long line arriving in chunks and a cancelled (timed-out) read in between"),
    "C17-F": ("the TCP factory sets SO_LINGER(1, 0) on the socket: close() resets the connection and the kernel drops the bytes not yet sent although write() returned", "a slow peer and a disconnect while data is still unsent"),
    "C18-E": ("connect() rebinds self._incoming_messages to a fresh queue: a read() already waiting in get() is never served again and unread items are dropped", "the same transport reconnected while a listener is parked in read()"),
    "C18-F": ("TransportReadError renders the partial bytes as text (bytes.decode in the constructor): building the error for an undecodable payload raises UnicodeDecodeError inside the receive task", "one broker message whose payload is not valid UTF-8"),
    "C19-E": ("handle_set (shared 1.4 code) validates the value type against the active protocol's VALID_MESSAGE_TYPES, which is not monotonic across versions", "an S_HEATER child sending type 22 / an S_CUSTOM child sending type 0"),
    "C19-F": ("the 2.0 heartbeat handler checks the payload before the node; the 2.2 override keeps its own copy in the old order: a doubly faulty heartbeat fails differently (and requests a presentation or not)", "a heartbeat with a non-integer payload from an unknown node"),
}


def main() -> int:
    log = Path(sys.argv[1]).read_text()
    root = Path(__file__).resolve().parent.parent / "seeded"
    for m in re.finditer(r"^## (C\d\d-[EF]) (.*)$", log, re.M):
        sid, rest = m.group(1), m.group(2)
        prop = sid[:3]
        alarms = {}
        cur = None
        for part in rest.split("|"):
            part = part.strip()
            mm = re.match(r"--- (C\d\d) exit (\d)", part)
            if mm:
                cur = mm.group(1)
                alarms[cur] = {"exit": int(mm.group(2)), "rules": []}
                continue
            mm = re.match(r"\[([A-Z0-9-]+)\]", part)
            if mm and cur and mm.group(1) not in alarms[cur]["rules"]:
                alarms[cur]["rules"].append(mm.group(1))
        d = root / sid
        change, needs = DESC[sid]
        demo = next((p.name for p in d.glob("demo_*.py")), None)
        meta = {
            "id": f"seed6-{sid.lower()}",
            "breaks_property": prop,
            "round": 6,
            "source": "independent sub-agent given only the property text and a scratch worktree of /repo (two changes per property, small changes (<= 25 lines) whose breakage comes from an interaction: await ordering, re-entrancy, state that outlives a call, exceptional paths, library contracts, inheritance; four candidates considered, the two least obvious delivered)",
            "change": change,
            "needs_to_manifest": needs,
            "confirmed": {"unedited_test_suite_with_change": "273 passed", "demo_with_change_exit": 1, "demo_without_change_exit": 0, "how": "confirm script in the scratch worktree (same steps as tools/confirm_seed4.sh): suite with the change; demo with the change; git apply -R; demo; git apply"},
            "checks_run": "tools/try_patch.py <patch>: scratch copy of /repo/src with the patch applied, all 19 quick checks (and tools/eval_seed.py on /repo for the first pass)",
            "alarms": sorted(alarms),
            "alarm_detail": alarms,
            "caught_by_rules_of_target_property": alarms.get(prop, {}).get("rules", []) if alarms.get(prop, {}).get("exit") == 1 else [],
            "demo": f"{demo} (run with PYTHONPATH=<tree>/src; exit 1 = property violated)",
        }
        (d / "meta.json").write_text(json.dumps(meta, indent=1) + "\n")
        print(sid, meta["alarms"], meta["caught_by_rules_of_target_property"] or "NOT CAUGHT BY TARGET")
    return 0


if __name__ == "__main__":
    sys.exit(main())
