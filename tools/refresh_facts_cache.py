#!/venv/bin/python
"""Recompute the committed, content-addressed facts (facts_cache/) for the pristine /repo tree
and for the combined canary tree. Run after every change of /repo or of the canary catalogue."""
import gzip, json, shutil, sys, tempfile
from pathlib import Path

sys.path.insert(0, str(Path(__file__).resolve().parent.parent))
from sa import facts, selftest  # noqa: E402

out = Path(__file__).resolve().parent.parent / "facts_cache"
shutil.rmtree(out, ignore_errors=True)
out.mkdir()


def ship(src_root: Path) -> None:
    d = facts.source_digest(src_root)
    data = facts.load_facts(src_root)
    (out / f"facts-{d}.json.gz").write_bytes(gzip.compress(json.dumps(data).encode(), mtime=0))
    print("shipped", d[:12], src_root)


ship(Path("/repo/src"))
tmp = Path(tempfile.mkdtemp(prefix="vsa-c-"))
try:
    selftest.combined_canary(tmp)
    ship(tmp / "src")
finally:
    shutil.rmtree(tmp, ignore_errors=True)
