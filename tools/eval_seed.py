#!/venv/bin/python
"""Apply a seeded patch to /repo, run every quick check, undo the patch.

usage: tools/eval_seed.py <patch.diff> [--props C01,C02]   (prints which checks raise an alarm)
"""
from __future__ import annotations

from concurrent.futures import ThreadPoolExecutor
import subprocess
import sys

PROPS = [f"C{i:02d}" for i in range(1, 20)]


def main() -> int:
    patch = sys.argv[1]
    props = PROPS
    if "--props" in sys.argv:
        props = sys.argv[sys.argv.index("--props") + 1].split(",")
    st = subprocess.run(["git", "-C", "/repo", "status", "--porcelain"], capture_output=True, text=True, check=True).stdout.strip()
    if st:
        print("refusing: /repo working tree is not clean:\n" + st)
        return 2
    subprocess.run(["git", "-C", "/repo", "apply", patch], check=True)
    try:
        # warm facts once
        subprocess.run(["/venv/bin/python", "-c", "import sys; sys.path.insert(0,'/verif'); from sa.model import Program; Program('/repo').facts"], check=False, capture_output=True)

        def one(p):
            r = subprocess.run(["/venv/bin/python", "/verif/vcheck.py", p, "--no-selftest"], capture_output=True, text=True, env={"VERIF_NO_EVIDENCE": "1", "PATH": "/usr/bin:/bin"}, check=False)
            return p, r.returncode, r.stdout

        with ThreadPoolExecutor(max_workers=16) as ex:
            res = list(ex.map(one, props))
    finally:
        subprocess.run(["git", "-C", "/repo", "checkout", "--", "."], check=True)
    alarms = []
    for p, code, out in res:
        if code != 0:
            alarms.append(p)
            print(f"--- {p} exit {code}")
            for ln in out.splitlines():
                if ln.strip().startswith("[") or "ANALYSIS-ERROR" in ln:
                    print("   ", ln.strip()[:260])
                elif ln.startswith("      ") and "path:" not in ln:
                    print("       ", ln.strip()[:300])
    print("ALARMS:", alarms or "none")
    return 0


if __name__ == "__main__":
    sys.exit(main())
