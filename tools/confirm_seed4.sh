#!/bin/bash
# usage: confirm_seed4.sh c04 A   -- round 4: worktree is clean, patches are patch_A.diff / patch_B.diff
id=$1; v=$2; d=/tmp/wt4/$id
cd $d || exit 2
if [ -n "$(git -C $d status --short -- src)" ]; then echo "worktree not clean:"; git -C $d status --short -- src; git -C $d checkout -- src; fi
if [ ! -f $d/patch_$v.diff ]; then echo "no patch_$v.diff"; exit 0; fi
git -C $d apply $d/patch_$v.diff || { echo "patch does not apply"; exit 1; }
echo "== files changed:"; git -C $d diff --stat -- src | tail -4
echo "== tests with change"; PYTHONPATH=$d/src /venv/bin/python -m pytest -q -p no:cacheprovider --no-cov -x 2>&1 | tail -1
echo "== demo with change"; PYTHONPATH=$d/src timeout 180 /venv/bin/python demo_$v.py > /tmp/demo_with.txt 2>&1; echo "exit=$?"; tail -3 /tmp/demo_with.txt | cut -c1-300
git -C $d apply -R $d/patch_$v.diff
echo "== demo without change"; PYTHONPATH=$d/src timeout 180 /venv/bin/python demo_$v.py > /tmp/demo_without.txt 2>&1; echo "exit=$?"; tail -2 /tmp/demo_without.txt | cut -c1-300
echo "== checks"; cd /verif && /venv/bin/python tools/try_patch.py $d/patch_$v.diff -v
