#!/venv/bin/python
"""Create scratch worktrees and task files for a round of behaviour-preserving refactorings.

usage: tools/make_refactor_tasks.py <round-dir> <first area number, e.g. 25> [--hint "<text>"]
Areas (8): gateway + protocol/__init__; protocol_14; protocol_15/20/21/22; message + const; stream/tcp/serial
transports; mqtt transport; persistence + gateway context; node + exceptions.
"""
from __future__ import annotations

from pathlib import Path
import subprocess
import sys

ROOT = Path(sys.argv[1])
FIRST = int(sys.argv[2])
HINT = sys.argv[sys.argv.index("--hint") + 1] if "--hint" in sys.argv else ""
AREAS = [
    ("src/aiomysensors/gateway.py and src/aiomysensors/model/protocol/__init__.py", "the Gateway class (listen, send, the protocol_version property, context entry / exit) and the protocol selection / handler lookup functions"),
    ("src/aiomysensors/model/protocol/protocol_14.py", "the 1.4 incoming and outgoing message handlers and the handle_missing_protocol_version decorator"),
    ("src/aiomysensors/model/protocol/protocol_15.py, protocol_20.py, protocol_21.py, protocol_22.py", "the newer protocol modules: handler overrides, the missing node / child decorator, the sleep-buffer flush, wake handlers"),
    ("src/aiomysensors/model/message.py and src/aiomysensors/model/const.py", "the Message class, MessageSchema and its hooks, the custom fields and the validator functions"),
    ("src/aiomysensors/transport/__init__.py, tcp.py and serial.py", "the stream transport (connect, read, write, disconnect) and its TCP / serial subclasses"),
    ("src/aiomysensors/transport/mqtt.py", "the MQTT transport: topic mapping, subscriptions, the receive queue, the client's receive task"),
    ("src/aiomysensors/persistence.py and the context-manager methods of src/aiomysensors/gateway.py", "loading, saving, the scheduled saver, start / stop, Gateway.__aenter__ / __aexit__"),
    ("src/aiomysensors/model/node.py and src/aiomysensors/exceptions.py", "Node / Child and their schemas (including the pymysensors compatibility hooks) and the exception classes"),
]
ROOT.mkdir(parents=True, exist_ok=True)
for i, (files, what) in enumerate(AREAS):
    name = f"r{FIRST + i}"
    wt = ROOT / name
    if not wt.exists():
        subprocess.run(["git", "-C", "/repo", "worktree", "add", "-q", "--detach", str(wt), "HEAD"], check=True)
    txt = f"""# Task: four behaviour-preserving refactorings of one area of aiomysensors

You work ONLY inside the git worktree `{wt}` (a checkout of the library MartinHjelmare/aiomysensors).
Never touch `/repo` or `/verif`, never read anything under `/verif`. Do not use `git stash`, do not commit, do not
switch branches. The Python to use is `/venv/bin/python` (3.12). Run things with `PYTHONPATH={wt}/src`.

## Area

Files: {files}
({what})

## What to deliver

Four *independent* refactorings (each a patch against the clean tree) that a maintainer could commit as
"refactor: ..." and that **provably do not change behaviour**: for every input, every order in which concurrent
tasks interleave at `await` points, every fault (an exception raised by a transport, the file system or a
library) and every cancellation the observable behaviour - returned values, raised exception types and
arguments, `__cause__`, writes to the transport and the file, registry contents, logging calls, evaluation order
of anything that can raise or suspend - is exactly what it was. Type annotations, names of locals and of
*private* helpers, statement forms and the division into functions may change; public names, signatures and
module attributes used elsewhere may not.

* Refactorings 1 and 2: medium size, 30-90 changed lines each.
* Refactorings 3 and 4: small, 8-30 changed lines each.
* Use a *different kind* of restructuring in each of the four.

{HINT}

Be careful about: reading an attribute of a shared object once instead of twice across an `await`; moving code
into or out of a `try` block; changing which exception types a handler covers; `contextlib.suppress` versus
`try/except` (exception groups); evaluation order of arguments; laziness of generators; dataclass `eq`/`repr`;
class attributes shared between instances; `super()` inside nested functions.

For each refactoring: apply it, run the unedited suite
`cd {wt} && PYTHONPATH={wt}/src /venv/bin/python -m pytest -q -p no:cacheprovider --no-cov -x` (273 passed on the
clean tree - it must still be 273 passed), save it with `git diff -- src > refactor_K.diff` (K = 1..4) and undo it
with `git apply -R refactor_K.diff`. At the end the worktree must be clean except for the four untracked diff
files, and each must pass `git apply --check` on the clean tree.

## Report

For each refactoring: what it changes (concretely: the new helpers / forms), the number of changed lines, and the
argument why behaviour is preserved (evaluation order, suspension points, exceptions, shared state), plus the
suite result with it applied.
"""
    (ROOT / f"task_{name}.md").write_text(txt)
print("tasks written to", ROOT)
