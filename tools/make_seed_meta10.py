#!/venv/bin/python
"""Write meta.json for the round-10 seeds from an evaluation log (tools/try_patch.py output per seed).

usage: tools/make_seed_meta2.py <log>      log lines: '## C01-A --- C01 exit 1|    [RULE] ...|ALARMS: [...]|'
"""
from __future__ import annotations

import json
from pathlib import Path
import re
import sys

DESC = {
    "C01-I": ("to_dict strips every split field (`value.strip()`) instead of rstrip() on the whole line: the payload is one of the fields, its leading whitespace is lost", "a payload that starts with a space or tab"),
    "C01-J": ("split(DELIMITER, maxsplit=len(self.fields)) with zip(strict=True): maxsplit yields up to maxsplit+1 parts, so a payload with ';' gives seven parts and fails the length check", "a ';' anywhere in the payload (V_POSITION)"),
    "C02-I": ("CommandField compares the raw child id text with str(SYSTEM_CHILD_ID) instead of the parsed number: int() accepts '0255', ' 255', '+255', '2_55'", "child 255 spelled padded / signed / with an underscore, with command set or req"),
    "C02-J": ("a shared parse_int helper guards int() with str.isdigit(): isdigit accepts superscript / circled digits that int() refuses (plain ValueError), and refuses signs and padding that int() accepts", "a digit-like Unicode character, a sign or blanks in the child, command or type field"),
    "C03-I": ("battery level validated before rounding as `x < 0 or x > MAX`: every ordering comparison with NaN is false, round(nan) then raises ValueError outside the try", "a battery report with payload 'nan'"),
    "C03-J": ("StreamTransport.read decodes with errors='surrogateescape': a stored value with a raw byte is echoed by handle_req and the strict encode in write() raises UnicodeEncodeError", "a set with a non-UTF-8 byte, then a req for that value"),
    "C04-I": ("next_id = next(reversed(gateway.nodes), 0) + 1: reversed(dict) yields the key inserted last, not the largest: the placeholder overwrites a presented node", "presentations in descending id order (or a re-presentation), then an id request"),
    "C04-J": ("2.2 heartbeat handler rewritten as try: gateway.nodes[id].heartbeat = int(payload) / except KeyError / except ValueError: the right-hand side is evaluated before the subscript of the target, so a malformed payload wins over a missing node", "protocol 2.2: heartbeat from an unknown node with a non-integer payload"),
    "C05-I": ("get_protocol whitelists AwesomeVersion.strategy in (SEMVER, SIMPLEVER): strategy detection tries CalVer first, so 10.0 / 15.0.1 / 2021.1 are refused", "a reported release whose major has two or four digits"),
    "C05-J": ("handle_i_version checks the shape with payload.split('.', 2) + isdigit(): maxsplit leaves the build component inside the third part ('0.1'.isdigit() is False)", "a four-component release 2.2.0.1"),
    "C06-I": ("handle_req guards the reply with walrus truthiness of dict.get instead of `is not None`: a stored empty string counts as nothing stored", "a req for a value whose stored payload is ''"),
    "C06-J": ("the log / gateway-ready exemption is written `message.command is Command.internal`: Message stores int(command), identity with an IntEnum member is never true", "version unknown and a log or gateway-ready message arrives"),
    "C07-I": ("set_messages[key] = set_messages.pop(key, message) ('move the key last'): pop's default is used only when the key is absent, so the oldest value stays parked", "the same (node, child, type) sent twice to a sleeping node before its wake"),
    "C07-J": ("the flush comprehension names its loop variable `message`: inside the comprehension it shadows the wake message, so the node filter compares each entry with itself", "two sleeping nodes with parked commands, one wakes"),
    "C08-I": ("the flush awaits asyncio.gather over all sends and clears afterwards: gather raises the first failure at once and does not cancel its siblings, the clearing pass is skipped", "two or more parked commands and one failing write"),
    "C08-J": ("MessageBuffer.pop_set_messages() is a lazy generator that pops each entry as it yields it: the entry is forgotten just before its write", "a transport write failure during a release"),
    "C09-I": ("handle_set buffers setdefault(key, copy(message)) and updates the existing entry in place: the identity guard of the flush still passes and pops the entry whose payload changed during the write", "a send for the key in flight during its flush write"),
    "C09-J": ("the flush marks the node awake while it delivers (sleeping = False ... finally True): a racing send is written directly and the stale snapshot entry afterwards", "two parked commands, a send for the later key during the first write"),
    "C10-I": ("the wrapper records the marker with internal_messages.setdefault(key, msg) before the write ('insert if absent, then send'): a failed write leaves the marker", "a write fault on the presentation request, then another message from that node"),
    "C10-J": ("handle_presentation pops the marker with key (node, SYSTEM_CHILD_ID, I_PRESENTATION) instead of message.child_id: every child presentation clears it", "a child presentation while a request is outstanding"),
    "C11-I": ("the placeholder is registered after `await gateway.send(reply)` instead of before", "a write that fails after the bytes went out, or two listeners"),
    "C11-J": ("lowest free id from range(1, MAX_NODE_ID): the end of a range is exclusive, 254 is never handed out", "ids 1..253 taken"),
    "C12-I": ("send wraps the handler in asyncio.timeout with `except TimeoutError` inside the block: the body sees CancelledError, the conversion to TimeoutError happens in __aexit__ outside the try", "a transport write that stalls for more than 10 s"),
    "C12-J": ("the flush removes with set_messages.pop(key, None) instead of the identity-guarded pop: a newer message parked during the write is removed unsent", "a send for the same key while its parked predecessor is being written"),
    "C13-I": ("json.dumps(..., ensure_ascii=False) with the locale's file encoding: UnicodeEncodeError (a ValueError, not OSError) after the truncation", "a non-ASCII sketch name under a non-UTF-8 locale, or a lone surrogate"),
    "C13-J": ("NodeSchema.handle_compatibility folds the None default into `data.pop('type') or 18`: a legacy type 0 is falsy and becomes 18", "a pymysensors file with a node of presentation type 0"),
    "C14-I": ("load narrows `except ValueError` to (UnicodeDecodeError, JSONDecodeError): json.loads raises a plain ValueError for an integer literal above the 4300-digit limit", "an integer literal of more than 4300 digits anywhere in the file"),
    "C14-J": ("the pre_load hooks work on deepcopy(data): deepcopy recurses in Python frames and overflows on nesting that json.loads accepts; hook exceptions are not wrapped", "a record field holding a list nested 500-1400 levels deep"),
    "C15-I": ("ensure_ascii=False with encoding='utf-8' on both opens: a lone surrogate (loaded from a \\udcxx escape of an older file) cannot be encoded: UnicodeEncodeError after the truncation", "a registry string with an unpaired surrogate"),
    "C15-J": ("save first rotates the live file to <path>.bak with os.replace (in the executor): between the rename and the completed write no file is under the live path", "a crash or failing open after the rename"),
    "C16-I": ("__aexit__ runs disconnect() and persistence.stop() with asyncio.gather: gather propagates the first exception at once and leaves the other awaitable running", "persistence configured and disconnect() raises"),
    "C16-J": ("cancel_save re-raises CancelledError when current_task().cancelling() is non-zero: the count stays 1 while a cancelled task unwinds through __aexit__, so the saver's own cancellation is mistaken for ours and stop() aborts before the final save", "leaving the context by cancellation while the saver is not parked in its sleep"),
    "C17-I": ("read decodes inside the readuntil try, before the skip-line check: an undecodable rest of an over-long line raises with the skip flag still set, the next valid line is dropped", "an over-long line whose remainder is not valid UTF-8"),
    "C17-J": ("write moves `await drain()` into the `else:` of the try: exceptions raised in else are not handled by the except clause", "connection reset, then write()"),
    "C18-I": ("_parse_message_to_mqtt uses splitlines()[0] instead of rstrip(): str.splitlines also splits on \\x0b \\x0c \\x1c-\\x1e \\x85 \\u2028 \\u2029", "a payload containing one of those separator characters"),
    "C18-J": ("MQTTTransport.__init__ stores prefix.strip('/'): strip removes both ends, a leading '/' is a topic level of its own", "a prefix that starts with '/'"),
    "C19-I": ("the shared handle_set rejects value types not listed in the active protocol's VALID_MESSAGE_TYPES for the child's sensor type: that table does not grow monotonically from 1.4 to 1.5", "a set of V_TEMP on an S_CUSTOM child (1.4 accepts, 1.5+ refuse)"),
    "C19-J": ("the 2.0 heartbeat handler guards with payload.isdecimal() instead of int()/ValueError; the 2.2 override keeps the lenient int()", "a heartbeat payload '+8', ' 9' or '1_000'"),
}


def main() -> int:
    log = Path(sys.argv[1]).read_text()
    root = Path(__file__).resolve().parent.parent / "seeded"
    for m in re.finditer(r"^## (C\d\d-[IJ]) (.*)$", log, re.M):
        sid, rest = m.group(1), m.group(2)
        prop = sid[:3]
        alarms = {}
        cur = None
        for part in rest.split("|"):
            part = part.strip()
            mm = re.match(r"--- (C\d\d) exit (\d)", part)
            if mm:
                cur = mm.group(1)
                alarms[cur] = {"exit": int(mm.group(2)), "rules": []}
                continue
            mm = re.match(r"\[([A-Z0-9-]+)\]", part)
            if mm and cur and mm.group(1) not in alarms[cur]["rules"]:
                alarms[cur]["rules"].append(mm.group(1))
        d = root / sid
        change, needs = DESC[sid]
        demo = next((p.name for p in d.glob("demo_*.py")), None)
        meta = {
            "id": f"seed10-{sid.lower()}",
            "breaks_property": prop,
            "round": 10,
            "source": "independent sub-agent given only the property text and a scratch worktree of /repo (two changes per property, small changes that read as equivalent rewrites or clean-ups and break the property only through the exact semantics of a builtin or standard-library call (dict.pop / setdefault defaults, str.split maxsplit, isdigit vs int, NaN comparisons, reversed(dict), range ends, asyncio.gather / timeout / Task.cancelling, try/else, deepcopy recursion, comprehension scoping); seven or more candidates considered, the two least obvious delivered)",
            "change": change,
            "needs_to_manifest": needs,
            "confirmed": {"unedited_test_suite_with_change": "273 passed", "demo_with_change_exit": 1, "demo_without_change_exit": 0, "how": "confirm script in the scratch worktree (same steps as tools/confirm_seed4.sh): suite with the change; demo with the change; git apply -R; demo; git apply"},
            "checks_run": "tools/try_patch.py <patch>: scratch copy of /repo/src with the patch applied, all 19 quick checks (and tools/eval_seed.py on /repo for the first pass)",
            "alarms": sorted(alarms),
            "alarm_detail": alarms,
            "caught_by_rules_of_target_property": alarms.get(prop, {}).get("rules", []) if alarms.get(prop, {}).get("exit") == 1 else [],
            "demo": f"{demo} (run with PYTHONPATH=<tree>/src; exit 1 = property violated)",
        }
        (d / "meta.json").write_text(json.dumps(meta, indent=1) + "\n")
        print(sid, meta["alarms"], meta["caught_by_rules_of_target_property"] or "NOT CAUGHT BY TARGET")
    return 0


if __name__ == "__main__":
    sys.exit(main())
