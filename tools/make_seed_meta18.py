#!/venv/bin/python
"""Write meta.json for the round-18 seeds from an evaluation log (tools/try_patch.py output per seed).

usage: tools/make_seed_meta2.py <log>      log lines: '## C01-A --- C01 exit 1|    [RULE] ...|ALARMS: [...]|'
"""
from __future__ import annotations

import json
from pathlib import Path
import re
import sys

DESC = {
    "C01-Q": ("to_dict / to_string go through a _Frame NamedTuple (parse / render); parse strips every field instead of right-stripping the line: leading blanks of the payload are lost", "a payload that starts with a blank"),
    "C01-R": ("the gateway's schema, protocol and version move into a _Codec collaborator whose encode path memoises schema.dump with lru_cache keyed by the (identity-hashed, mutable) Message: a changed message is written in its old encoding", "the same Message object changed and sent again"),
    "C02-Q": ("line splitting moves into _Frame.split, which splits with maxsplit=len(_fields) (6, not 5): a payload containing ';' makes a 7th part and the line is rejected", "a payload with a semicolon"),
    "C02-R": ("the id-request exemption of validate_child_id becomes membership in set(product(...)) built by a helper with the factors swapped: (type, command) pairs instead of (command, type)", "a stream message of type 3 with a child below 255, or an id response with one"),
    "C03-Q": ("StreamTransport.read is split into a _read_line helper that reads and decodes: the remainder of a dropped over-long line is decoded before the skip flag is cleared, the next good line is lost", "an over-long line whose remainder is not UTF-8, then a good line"),
    "C03-R": ("protocol state moves into a ProtocolState dataclass with a derived protocol property; set_version stores the version before resolving it: an unparsable version stays stored and every later protocol access raises a foreign exception", "an unparsable version payload"),
    "C04-Q": ("node / child lookups go through a _Target NamedTuple (of / node / child); child() reports the node id in MissingChildError", "a set / req for a child that is not registered"),
    "C04-R": ("the heartbeat bookkeeping of 2.0 becomes a shared _record_heartbeat helper that carries `sleeping = True`; the 2.2 handler reuses it", "protocol 2.2, a heartbeat response"),
    "C05-Q": ("the version table becomes SupportedProtocol records with a supports() method using `release >= version`: AwesomeVersion >= is equal-or-greater on the spelling, false for 2.0.0 vs 2.0", "a reported version x.y.0"),
    "C05-R": ("protocol state moves into a ProtocolState dataclass with a derived protocol property; the setter stores the version before any lookup validated it", "an unparsable version payload"),
    "C06-Q": ("the version wrapper's try / finally becomes a _VersionQuery async context manager that samples `protocol_version is None` on entry: a message whose handling makes the version known is still followed by a query", "the version report itself, handled while the version is unknown"),
    "C06-R": ("protocol, schema and version move into a _ProtocolState collaborator; select() stores the version before get_protocol validated it: a garbled version reply stops the queries", "an unparsable version payload"),
    "C07-Q": ("protocol, version and the MessageBuffer move into a GatewayState dataclass that the protocol_version setter re-creates: default_factory builds a fresh buffer at every version report", "a parked command and a version report before the wake"),
    "C07-R": ("the 2.0 heartbeat handler is split into a shared _update_heartbeat helper that keeps `node.sleeping = True`; the 2.2 override reuses it", "protocol 2.2, a heartbeat response, then a set command"),
    "C08-Q": ("MessageBuffer.release(node_id) is a generator that pops an entry before it yields it: the command whose write fails is already gone", "a write fault during a release"),
    "C08-R": ("a release_sleep_buffer context manager yields the snapshot and clears the written entries after the block: a fault in the middle skips the clearing of what was already written", "two parked commands and a fault on the second write"),
    "C09-Q": ("the two park blocks become MessageBuffer.add_*_message -> _buffer_message, which keeps its own copy and refreshes ack / payload of the parked object in place: the flush's identity guard no longer notices a replacement", "a send for the key whose write is suspended"),
    "C09-R": ("the forget step becomes a clear_delivered(messages, key) context manager that re-reads the entry on entry: a newer, never written entry is popped after the old snapshot was sent", "a key replaced while an earlier entry of the same flush is being written"),
    "C10-Q": ("the request logic of the missing-node wrapper becomes an _presentation_request async context manager whose buffered send sits in a finally: a failed request still records the marker", "a write fault on the presentation request"),
    "C10-R": ("marker bookkeeping moves into MessageBuffer.has_internal / pop_internal, which always use child 255: a child presentation clears the node's outstanding-request marker", "a child presentation between two rejected messages of an unknown node"),
    "C11-Q": ("id allocation moves into a _NodeIdAllocator collaborator that caches the highest id: nodes registered later with higher static ids are ignored", "an id request after a statically addressed node presented itself"),
    "C11-R": ("the bound test becomes NodeIdRange.following with `next_id in range(*self)`: the exclusive end drops id 254", "highest registered id 253"),
    "C12-Q": ("protocol state becomes a frozen ProtocolState replaced with dataclasses.replace(); schema and buffer are init=False default_factory fields: every version report builds a fresh MessageBuffer", "a held command and a version report before the wake"),
    "C12-R": ("set_messages becomes a dict of per-node dicts with hold / held / release; release pops the whole node entry after the flush: commands held meanwhile are discarded", "a send for the node while a wake-time write is suspended"),
    "C13-Q": ("the battery level becomes a frozen BatteryLevel value object that range-checks int(value) but stores round(value): 100.6 is stored as 101, which the saved file's schema refuses", "a battery payload of 100.6"),
    "C13-R": ("the pymysensors hooks become table-driven from_pymysensors with `data[key] or default`: a legacy node type 0 becomes 18", "a pymysensors file with node type 0"),
    "C14-Q": ("the shape check of the parsed file moves into a _node_records generator: its ValueError fires at the first iteration, outside the try that maps it", "a persistence file holding a JSON list"),
    "C14-R": ("the child compatibility hook is folded into the node hook, which renames keys of child records without the isinstance guard: a non-dict child record raises TypeError / AttributeError", "a children entry that is a number"),
    "C15-Q": ("save opens through a _rewrite context manager whose opener drops O_TRUNC and truncates after the write: a crash in between leaves new bytes over old ones", "a crash during save of a shorter registry"),
    "C15-R": ("a _Snapshot value object serialises lazily (text property) inside the `async with open('w')`: NodeSchema.dump runs after the truncation", "a registry with a node that cannot be dumped"),
    "C16-Q": ("save keeps a _Snapshot of what it wrote and the scheduled save skips when it 'matches'; the snapshot holds the same Node objects, so it always matches", "a changed node and one save interval"),
    "C16-R": ("__aenter__ / __aexit__ use an AsyncExitStack that registers transport.disconnect before connect(): a failing connect disconnects a transport that never connected", "a connect failure"),
    "C17-Q": ("the read error handlers become a _READ_ERRORS table looked up with type(err): subclasses of OSError are caught by the clause but missing from the table (KeyError)", "a connection reset while reading"),
    "C17-R": ("read is split into a _read_line helper that reads and decodes: the remainder of a dropped over-long line is decoded before the skip flag is cleared", "an over-long line whose remainder is not UTF-8, then a good line"),
    "C18-Q": ("the receive loop's handlers become a _ReceiveErrors context manager with an exact-type table lookup that returns True: MqttError subclasses escape and kill the receive task", "an MqttCodeError from the broker"),
    "C18-R": ("topic / line conversion moves into a Frame NamedTuple; from_line splits with maxsplit=len(_fields): a payload with ';' makes seven parts and _make raises TypeError", "a payload containing ';' on write"),
    "C19-Q": ("the missing-node wrapper's try / except becomes a _PresentationRequest async context manager whose __aexit__ reacts to any AIOMySensorsError: a message 1.x simply rejects also writes a presentation request under 2.x", "an invalid battery payload from a known node under 2.0"),
    "C19-R": ("node creation moves into an _add_node helper that falls back to gateway.protocol_version: the id-request placeholder gets the active version instead of the default", "an id request handled under any version but 1.4"),
}


def main() -> int:
    log = Path(sys.argv[1]).read_text()
    root = Path(__file__).resolve().parent.parent / "seeded"
    for m in re.finditer(r"^## (C\d\d-[QR]) (.*)$", log, re.M):
        sid, rest = m.group(1), m.group(2)
        prop = sid[:3]
        alarms = {}
        cur = None
        for part in rest.split("|"):
            part = part.strip()
            mm = re.match(r"--- (C\d\d) exit (\d)", part)
            if mm:
                cur = mm.group(1)
                alarms[cur] = {"exit": int(mm.group(2)), "rules": []}
                continue
            mm = re.match(r"\[([A-Z0-9-]+)\]", part)
            if mm and cur and mm.group(1) not in alarms[cur]["rules"]:
                alarms[cur]["rules"].append(mm.group(1))
        d = root / sid
        change, needs = DESC[sid]
        demo = next((p.name for p in d.glob("demo_*.py")), None)
        meta = {
            "id": f"seed18-{sid.lower()}",
            "breaks_property": prop,
            "round": 18,
            "source": "independent sub-agent given only the property text and a scratch worktree of /repo (two changes per property; angle: a restructuring commit - new collaborator class / value object / context manager / generator / lookup table / state object - with one defect inside the new structure, so that the diff cannot be judged by comparing it with the old shape)",
            "change": change,
            "needs_to_manifest": needs,
            "confirmed": {"unedited_test_suite_with_change": "273 passed", "demo_with_change_exit": 1, "demo_without_change_exit": 0, "how": "confirm script in the scratch worktree (same steps as tools/confirm_seed4.sh): suite with the change; demo with the change; git apply -R; demo; git apply"},
            "checks_run": "tools/try_patch.py <patch>: scratch copy of /repo/src with the patch applied, all 19 quick checks (and tools/eval_seed.py on /repo for the first pass)",
            "alarms": sorted(alarms),
            "alarm_detail": alarms,
            "caught_by_rules_of_target_property": alarms.get(prop, {}).get("rules", []) if alarms.get(prop, {}).get("exit") == 1 else [],
            "target_verdict": "violation" if alarms.get(prop, {}).get("exit") == 1 else "analysis-error" if alarms.get(prop, {}).get("exit") == 2 else "MISSED",
            "demo": f"{demo} (run with PYTHONPATH=<tree>/src; exit 1 = property violated)",
        }
        (d / "meta.json").write_text(json.dumps(meta, indent=1) + "\n")
        print(sid, meta["alarms"], meta["caught_by_rules_of_target_property"] or "NOT CAUGHT BY TARGET")
    return 0


if __name__ == "__main__":
    sys.exit(main())
