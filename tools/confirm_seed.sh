#!/bin/bash
# usage: confirm_seed.sh c04   -- confirm a sub-agent's seeded change in its scratch worktree, then run the checks on it
# (never uses `git stash`: the stash is shared between worktrees)
id=$1; d=/tmp/wt/$id
cd $d || exit 2
git -C $d diff -- src > $d/patch.diff
echo "== files changed:"; git -C $d diff --stat -- src | tail -4
echo "== tests with change"; PYTHONPATH=$d/src /venv/bin/python -m pytest -q -p no:cacheprovider --no-cov -x 2>&1 | tail -1
echo "== demo with change"; PYTHONPATH=$d/src timeout 120 /venv/bin/python demo_$id.py > /tmp/demo_with.txt 2>&1; echo "exit=$?"; tail -3 /tmp/demo_with.txt
git -C $d apply -R $d/patch.diff
echo "== demo without change"; PYTHONPATH=$d/src timeout 120 /venv/bin/python demo_$id.py > /tmp/demo_without.txt 2>&1; echo "exit=$?"; tail -2 /tmp/demo_without.txt
git -C $d apply $d/patch.diff
echo "== checks"; cd /verif && /venv/bin/python tools/eval_seed.py $d/patch.diff
