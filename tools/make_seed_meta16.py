#!/venv/bin/python
"""Write meta.json for the round-16 seeds from an evaluation log (tools/try_patch.py output per seed).

usage: tools/make_seed_meta2.py <log>      log lines: '## C01-A --- C01 exit 1|    [RULE] ...|ALARMS: [...]|'
"""
from __future__ import annotations

import json
from pathlib import Path
import re
import sys

DESC = {
    "C01-O": ("to_dict builds a RawMessage NamedTuple from `part.strip()` of each of the six parts instead of rstrip() of the line: leading whitespace of the payload is lost", "a payload that starts with a blank or tab"),
    "C01-P": ("Gateway.send / listen get _load / _dump helpers and _dump is memoised with lru_cache keyed by the (identity-hashed, mutable) Message: a message that is changed and sent again writes the stale line", "the same Message object sent, mutated, sent again"),
    "C02-O": ("validate_child_id: the range validator is hoisted to a module constant and applied in the final return, after the id-request early return: that path skips the 0-255 check", "an id request / response line with a child id outside 0-255"),
    "C02-P": ("to_dict replaces the length check by zip(strict=True) in try/except and drops maxsplit with it: a payload containing ';' makes a 7th part and is rejected", "a payload with a semicolon"),
    "C03-O": ("StreamTransport.read folds the decode into the try of the read loop: the tail of a skipped over-long line is decoded too, and a decode error leaves _skip_line set - the next good line is discarded", "an over-long line whose remainder is not UTF-8, then a good line"),
    "C03-P": ("a _convert_payload(message, converter) helper replaces three convert-or-reject blocks; the battery handler's round() ends up outside the helper's try: inf / nan leak OverflowError / ValueError", "a battery level payload inf, nan, 1e999"),
    "C04-O": ("the version wrapper's try / finally becomes an async context-manager class whose __aexit__ returns True 'if a request was sent': the with statement swallows the handler's exception", "version unknown and a message for an unknown node / child"),
    "C04-P": ("listen is split into _read_message + a loop that hoists self.protocol (and the buffer) into locals: after an in-stream version report the dispatch keeps the old protocol's handler class", "one long-lived listen() stream: version report, then a 2.x heartbeat"),
    "C05-O": ("a _select_protocol helper shared by __init__ and the setter: the setter stores _protocol_version before the helper that can raise", "an unparsable version payload"),
    "C05-P": ("get_protocol rewritten as max(v for v in SUPPORTED if v <= reported): AwesomeVersion `<=` is string-equal-or-less, false for 2.2 vs 2.2.0", "a reported version x.y.0"),
    "C06-O": ("the node / child prologue of handle_set / handle_req moves into a decorator stacked outside handle_missing_protocol_version: the rejection is raised before the wrapper's try / finally", "version unknown and a set / req for an unknown node or child"),
    "C06-P": ("the handler lookup of handle_internal / handle_stream moves into a @cache'd classmethod keyed by the IntEnum member: Internal(n) and Stream(n) are equal and share a slot", "a stream and an internal message with the same numeric type"),
    "C07-O": ("the 2.0 heartbeat handler is split into a shared _handle_heartbeat helper that carries `node.sleeping = True`; the 2.2 override reuses it", "protocol 2.2, a heartbeat response from a node that never announced sleep"),
    "C07-P": ("the two 'store under (node, child, type)' blocks become one _buffer_message helper written with setdefault: the first parked value is kept instead of the latest", "two sets for the same key to a sleeping node"),
    "C08-O": ("MessageBuffer.drain_set_messages(node_id) is a generator that pops an entry before it yields it: the command whose write fails is already gone", "a write fault during a release"),
    "C08-P": ("the release is split into _send_unbuffered(all) and a clearing loop afterwards: a fault in the middle skips the clearing of what was already written", "two parked commands and a fault on the second write"),
    "C09-O": ("a node_awake(node) context manager clears node.sleeping for the duration of the release, which then uses plain gateway.send: sends arriving meanwhile bypass the buffer and are overtaken by stale snapshot entries", "a send for a later key of the snapshot while an earlier write is suspended"),
    "C09-P": ("set_messages becomes a defaultdict of per-node dicts; the release walks the live bucket and deletes by key after the write, without the identity guard", "a send for the key whose write is suspended"),
    "C10-O": ("_presentation_request / _buffer_key helpers are used both in the wrapper and in handle_presentation: the marker-clearing key now always has child 255, so every child presentation clears the node's marker", "two child presentations from an unknown node"),
    "C10-P": ("protocol, version, schema and MessageBuffer are grouped in a ProtocolState dataclass that the protocol_version setter re-creates: default_factory builds a fresh buffer at every version report", "a marker outstanding, then a presentation of node 0 / a version reply"),
    "C11-O": ("a _reply helper coroutine for the three answering handlers; in the id handler the awaited reply now precedes the registration of the placeholder", "a second id request handled while the first reply is being written (or a failing write)"),
    "C11-P": ("the bound comparison becomes membership in ASSIGNABLE_NODE_IDS = range(1, MAX_NODE_ID): the exclusive end drops id 254", "highest registered id 253"),
    "C12-O": ("held set messages move from the gateway-wide buffer onto the Node object (node.sleep_buffer): a re-presentation replaces the Node and drops them", "send to a sleeping node, the node presents itself again, then wakes"),
    "C12-P": ("MessageBuffer.pop_set_messages(node_id) removes the node's entries up front, the release iterates over the popped list: a failing write loses the rest", "two held messages and a write fault on the first"),
    "C13-O": ("the two pymysensors hooks become table-driven through from_pymysensors with `data[key] or default`: a legacy node type 0 becomes 18", "a pymysensors file with node type 0"),
    "C13-P": ("a shared _int_payload(message, convert, minimum=, maximum=) helper tests its bounds by truthiness: minimum=0 means no lower bound, a battery level below 0 is stored and the saved file no longer loads", "a battery report that rounds below 0"),
    "C14-O": ("load is split into an I/O stage (except OSError) and _parse_nodes (except ValueError ...): UnicodeDecodeError from the text-mode read is a ValueError raised in the I/O stage", "a file with bytes that are not UTF-8"),
    "C14-P": ("the isinstance guard of both pre_load hooks moves into a base-class pre_load hook: marshmallow runs hooks in alphabetical order, handle_compatibility runs before require_record", "a node / child record that is a number, null, a list or a string"),
    "C15-O": ("a _serialize() helper is called inside the `async with open('w')`: NodeSchema.dump now runs after the truncation", "a registry with a node that cannot be dumped"),
    "C15-P": ("NodeSchema(many=True).dump + a lazy zip(self.nodes, dumped) created before the open and consumed after it: a node added meanwhile raises RuntimeError after the truncation", "a node registered while save awaits the open"),
    "C16-O": ("__aexit__ replaces try / finally by asyncio.gather(disconnect, stop): gather raises at the first failure while stop() is still running", "a failing disconnect"),
    "C16-P": ("the saver closures become a method + a task attribute, the suppress(CancelledError) moves into the task body, stop() awaits the task bare: a task cancelled before its first step re-raises", "leaving the context before the saver task ran"),
    "C17-O": ("read is split into a _read_line helper that reads and decodes: the remainder of a dropped over-long line is decoded before the skip flag is cleared", "an over-long line whose remainder is not UTF-8, then a good line"),
    "C17-P": ("the read error handlers become a READ_ERRORS table looked up with type(err): subclasses of OSError are caught by the except clause but missing from the table (KeyError)", "a connection reset while reading"),
    "C18-O": ("a _decode_payload helper raises TransportReadError and the handler moves outside the `async for`: the receive task ends after the first undecodable payload", "an undecodable payload followed by any message"),
    "C18-P": ("a MessageFields NamedTuple splits with maxsplit=len(cls._fields) (6, not 5): a payload with ';' makes seven parts and the constructor raises TypeError", "a payload containing ';' on write"),
    "C19-O": ("the heartbeat validation shared by 2.0 and 2.2 is extracted into a classmethod named handle_i_heartbeat: under 2.0 (only) type 18 is canonically I_HEARTBEAT, so the helper becomes a live handler there", "an incoming internal type 18 under 2.0 vs 2.1 / 2.2"),
    "C19-P": ("the inherited 1.4 id-request handler resolves its constants through gateway.protocol: the placeholder node gets protocol.VERSION instead of the default '1.4'", "an id request handled under any version but 1.4"),
}


def main() -> int:
    log = Path(sys.argv[1]).read_text()
    root = Path(__file__).resolve().parent.parent / "seeded"
    for m in re.finditer(r"^## (C\d\d-[OP]) (.*)$", log, re.M):
        sid, rest = m.group(1), m.group(2)
        prop = sid[:3]
        alarms = {}
        cur = None
        for part in rest.split("|"):
            part = part.strip()
            mm = re.match(r"--- (C\d\d) exit (\d)", part)
            if mm:
                cur = mm.group(1)
                alarms[cur] = {"exit": int(mm.group(2)), "rules": []}
                continue
            mm = re.match(r"\[([A-Z0-9-]+)\]", part)
            if mm and cur and mm.group(1) not in alarms[cur]["rules"]:
                alarms[cur]["rules"].append(mm.group(1))
        d = root / sid
        change, needs = DESC[sid]
        demo = next((p.name for p in d.glob("demo_*.py")), None)
        meta = {
            "id": f"seed16-{sid.lower()}",
            "breaks_property": prop,
            "round": 16,
            "source": "independent sub-agent given only the property text and a scratch worktree of /repo (two changes per property; angle: a maintainer's refactoring commit that is not quite behaviour-preserving - extracted helper / collaborator / context manager / decorator / lookup table / value object / split coroutine / comprehension / cached value / reordered statements - whose subtle non-equivalence breaks the property; the diff reads as a pure restructuring)",
            "change": change,
            "needs_to_manifest": needs,
            "confirmed": {"unedited_test_suite_with_change": "273 passed", "demo_with_change_exit": 1, "demo_without_change_exit": 0, "how": "confirm script in the scratch worktree (same steps as tools/confirm_seed4.sh): suite with the change; demo with the change; git apply -R; demo; git apply"},
            "checks_run": "tools/try_patch.py <patch>: scratch copy of /repo/src with the patch applied, all 19 quick checks (and tools/eval_seed.py on /repo for the first pass)",
            "alarms": sorted(alarms),
            "alarm_detail": alarms,
            "caught_by_rules_of_target_property": alarms.get(prop, {}).get("rules", []) if alarms.get(prop, {}).get("exit") == 1 else [],
            "demo": f"{demo} (run with PYTHONPATH=<tree>/src; exit 1 = property violated)",
        }
        (d / "meta.json").write_text(json.dumps(meta, indent=1) + "\n")
        print(sid, meta["alarms"], meta["caught_by_rules_of_target_property"] or "NOT CAUGHT BY TARGET")
    return 0


if __name__ == "__main__":
    sys.exit(main())
