#!/venv/bin/python
"""Judge a partial matrix run (`tools/run_mutants.py --all --props Cxx > log`): every behaviour-preserving variant
silent, every breaking variant that lists the property caught by it.

usage: tools/check_column.py <log> <Cxx>[,<Cyy>...]
"""
from __future__ import annotations

from pathlib import Path
import re
import sys

sys.path.insert(0, str(Path(__file__).resolve().parent.parent))
from sa import selftest  # noqa: E402


def main() -> int:
    log, props = sys.argv[1], sys.argv[2].split(",")
    cat = {m["id"]: m for m in selftest.load_catalogue()}
    bad = []
    n = 0
    for line in open(log):
        m = re.match(r"(\S+)\s+(break|preserve|unseen|undecided)\s+(.*)", line)
        if not m or m.group(1) not in cat:
            continue
        n += 1
        mid, kind, rest = m.groups()
        mut = cat[mid]
        c = re.search(r"caught=\[([^\]]*)\]", rest)
        caught = c.group(1) if c else ""
        if kind == "preserve":
            if "silent" not in rest:
                bad.append(line.strip())
        elif kind == "unseen":
            if "FALSE-ALARM" in rest:
                bad.append(line.strip())
        elif kind == "undecided":
            if "PASSED=" in rest and any(p in mut["props"] for p in props):
                bad.append(line.strip())
        else:
            for p in props:
                if p in mut["props"] and f"'{p}'" not in caught:
                    bad.append(line.strip())
    print(f"{n} variants judged for {props}: {len(bad)} problem(s)")
    for b in bad[:40]:
        print("  ", b[:300])
    return 1 if bad else 0


if __name__ == "__main__":
    sys.exit(main())
