#!/venv/bin/python
"""Write meta.json for the round-4 seeds from an evaluation log (tools/try_patch.py output per seed).

usage: tools/make_seed_meta2.py <log>      log lines: '## C01-A --- C01 exit 1|    [RULE] ...|ALARMS: [...]|'
"""
from __future__ import annotations

import json
from pathlib import Path
import re
import sys

DESC = {
    "C01-C": ("Gateway.send remembers the encoded line per Message object (WeakKeyDictionary) and re-uses it: a message object that was changed after an earlier send is written in its old encoding", "the same Message object is sent, modified and sent again"),
    "C01-D": ("to_dict lets zip(strict=True) enforce the field count and drops the split bound: a payload containing ';' is refused", "a payload containing the field delimiter (V_POSITION 'lat;lon;alt')"),
    "C02-C": ("CommandField validates regular children with a cached Range(0, len(Command)): command 5 is accepted and then fails with ValueError in the handler lookup", "a line whose command field is exactly 5 and whose child is not 255"),
    "C02-D": ("Gateway.listen decodes through a per-gateway lru_cache of MessageSchema.load: a repeated line yields the same (mutable, possibly edited) Message object", "a yielded message is edited in place and the same line arrives again within 64 distinct lines"),
    "C03-C": ("TransportReadError renders the partial bytes as text (bytes.decode in the constructor): building the error for undecodable bytes raises UnicodeDecodeError itself", "a non-UTF-8 byte in a line or in the partial line of a dropped connection"),
    "C03-D": ("a new 2.2 handler handle_i_post_sleep_notification indexes gateway.nodes directly under the missing-node decorator (which only reacts to Missing*Error): KeyError for an unknown node", "protocol 2.2, internal type 33 from a node that is not in the registry"),
    "C04-C": ("get_incoming_message_handler returns a pass-through handler for messages with the ack flag: reports with ack=1 are yielded as handled but never recorded, unknown nodes do not fail", "a received line with ack=1"),
    "C04-D": ("the 2.x presentation handler refreshes a known node in place when a presentation request was outstanding: stale children, values, sketch and battery survive the re-presentation", "protocol 2.x, a known node (not 0), an outstanding presentation request, then the node presentation"),
    "C05-C": ("the 1.4 presentation handler returns early for a node that is already known (keeps its children): a gateway (node 0) presentation then no longer reaches the version handler", "node 0 already in the registry (earlier presentation or persistence) when the gateway presents itself with a new version"),
    "C05-D": ("the 2.0 handle_stream gets a pre-gate `if not stream:` over the active Stream enum: the member with value 0 (firmware config request) is falsy and refused as unsupported", "protocol 2.0 or newer, stream type 0"),
    "C06-C": ("handle_internal caches the looked-up sub-handler per internal type in a class-level dict that all versions and gateways share: whichever protocol first saw a type fixes its handler for all", "gateway-ready received while the version is still unknown (1.4: no handler -> None cached), then again under 2.x"),
    "C06-D": ("replies are built with a new Message.copy(**changes) of the request: the request's ack flag leaks into the reply", "an id / config / time / value request with ack=1"),
    "C07-C": ("parking moves from the 1.4 outgoing handle_set to a 2.0 override: under 1.x (e.g. before the version report after a restart) commands for a node restored as sleeping are written at once", "protocol 1.x in force and a node whose sleeping flag was restored from persistence"),
    "C07-D": ("a `_set_protocol` helper shared by __init__ and the protocol_version setter also creates the MessageBuffer: every version report drops all parked commands", "a version report (or gateway presentation) between parking and the node's wake"),
    "C08-C": ("Gateway.send swallows TransportFailedError for set commands to sleeping nodes and re-parks the same object: the flush takes the normal return as 'written' and pops the entry; listen does not raise", "a write failing with TransportFailedError during a flush"),
    "C08-D": ("a `waiting_nodes` marker lets the flush return early; it is cleared before the first write and only set again by parking: after a failed flush the left-over commands are never written", "a write fault during a flush, then a wake with nothing new parked"),
    "C09-C": ("the 2.2 pre-sleep handler flushes inside `with node.awake()` (a new context manager on Node that clears the sleeping flag and restores it): a concurrent send overtakes the older parked value", "protocol 2.2, a send for the node while its flush is suspended in a write"),
    "C09-D": ("MessageBuffer.add_set_message coalesces into the parked Message in place (setdefault + field refresh): the flush's identity check passes although a newer value was merged during the write", "a send for exactly the key whose write is in flight"),
    "C10-C": ("the wake-up flush also releases and removes internal_messages of the woken node: the outstanding-request marker is written again and forgotten", "a known node with a missing child sends a wake message between two rejected messages"),
    "C10-D": ("a 2.2 override of handle_presentation updates a known node in place and returns without calling the 2.0 handler that clears the marker: the request is never re-armed", "protocol 2.2, a known node with an outstanding request presents itself"),
    "C11-C": ("the placeholder is registered through an async context manager that unregisters it again when sending the reply raises: an id that already went out is handed out a second time", "the write delivers the bytes and then fails, the application keeps listening"),
    "C11-D": ("when max+1 exceeds 254 the allocator falls back to the lowest free id of VALID_NODE_IDS = range(255): id 0 (the gateway) is handed out", "highest registered id >= 254 and node 0 absent"),
    "C12-C": ("a helper shared by the outgoing handle_set and handle_req parks requests for sleeping nodes in set_messages under (node, child, type): a req replaces a parked set", "a set followed by a req for the same (node, child, type) to a sleeping node"),
    "C12-D": ("same `_set_protocol` helper as C07-D (delivered independently): the setter replaces the MessageBuffer", "a version report between parking and wake"),
    "C13-C": ("the legacy key renaming moves into a helper with `if value or keep_null`: a legacy child with id 0 or type 0 loses that key and the file is refused", "a pymysensors-layout file with a child whose id or type is 0"),
    "C13-D": ("the node id field is split: MessageSchema keeps 0-255, NodeSchema gets 0-254: a presented node 255 is saved and then refused on load", "a node presentation with node id 255"),
    "C14-C": ("PersistenceReadError formats ValidationError.messages as field -> first complaint: nested errors (children) are dicts and raise KeyError(0) while the error is being built", "a defect inside a `children` entry of the file"),
    "C14-D": ("NodeSchema / ChildSchema get Meta.unknown = INCLUDE: an unknown key reaches Node(**data) / Child(**data) and raises TypeError", "a record with one extra key"),
    "C15-C": ("save passes ensure_ascii=False (through a constant options dict) while the file is opened with the locale's encoding: a non-ASCII character raises UnicodeEncodeError after the truncation", "a non-UTF-8 locale and one non-ASCII sketch name / value"),
    "C15-D": ("__aenter__/__aexit__ are rebuilt on AsyncExitStack and persistence.stop is pushed before load(): a failed load runs stop(), whose final save overwrites the unreadable file", "a start-up where load() raises"),
    "C16-C": ("save runs the file write in asyncio.shield(self._write(...)): cancelling the saver leaves an inner task writing a stale snapshot that races the final save", "leaving the context while the periodic save is inside a slow write"),
    "C16-D": ("__aenter__ calls transport.disconnect() when connect fails, before stopping persistence: MQTTClient._disconnect raises RuntimeError for a half-open client, stop() is skipped and the saver leaks", "MQTT transport, persistence configured, broker unreachable"),
    "C17-C": ("connect wraps its try/except in `async with asyncio.timeout(...)`: the TimeoutError is raised when the block is left, outside the OSError mapping", "a connection attempt that takes longer than the timeout"),
    "C17-D": ("read 'recovers' from LimitOverrunError by consuming err.consumed bytes: the rest of an over-long line is later returned as if it were a line", "a line longer than the stream limit with particular chunk boundaries"),
    "C18-C": ("the subscription list is derived as range(min(Command), max(Command)): command 4 (stream) is never subscribed", "a broker message with command 4"),
    "C18-D": ("attribute defaults move into the class body, including `_incoming_messages = asyncio.Queue()`: all MQTT transports of the process share one queue", "two MQTT transports alive in one process"),
    "C19-C": ("the base handler class caches resolved type handlers in a class-level dict shared by all five versions: the heartbeat handler of whichever 2.x version ran first is used by the others", "two gateways of different 2.x versions in one process and a heartbeat response"),
    "C19-D": ("handle_set (shared 1.4 code) validates the value type against the active protocol's VALID_MESSAGE_TYPES, which is not monotonic: S_HEATER + V_HEATER_SW is accepted under 1.4 and refused from 1.5 on", "an S_HEATER child reporting value type 22"),
}


def main() -> int:
    log = Path(sys.argv[1]).read_text()
    root = Path(__file__).resolve().parent.parent / "seeded"
    for m in re.finditer(r"^## (C\d\d-[CD]) (.*)$", log, re.M):
        sid, rest = m.group(1), m.group(2)
        prop = sid[:3]
        alarms = {}
        cur = None
        for part in rest.split("|"):
            part = part.strip()
            mm = re.match(r"--- (C\d\d) exit (\d)", part)
            if mm:
                cur = mm.group(1)
                alarms[cur] = {"exit": int(mm.group(2)), "rules": []}
                continue
            mm = re.match(r"\[([A-Z0-9-]+)\]", part)
            if mm and cur and mm.group(1) not in alarms[cur]["rules"]:
                alarms[cur]["rules"].append(mm.group(1))
        d = root / sid
        change, needs = DESC[sid]
        demo = next((p.name for p in d.glob("demo_*.py")), None)
        meta = {
            "id": f"seed4-{sid.lower()}",
            "breaks_property": prop,
            "round": 4,
            "source": "independent sub-agent given only the property text and a scratch worktree of /repo (two changes per property, indirect mechanisms asked for: helpers, overrides, decorators, defaults, constants, exception classes, context managers)",
            "change": change,
            "needs_to_manifest": needs,
            "confirmed": {"unedited_test_suite_with_change": "273 passed", "demo_with_change_exit": 1, "demo_without_change_exit": 0, "how": "tools/confirm_seed4.sh in the scratch worktree: suite with the change; demo with the change; git apply -R; demo; git apply"},
            "checks_run": "tools/try_patch.py <patch>: scratch copy of /repo/src with the patch applied, all 19 quick checks (and tools/eval_seed.py on /repo for the first pass)",
            "alarms": sorted(alarms),
            "alarm_detail": alarms,
            "caught_by_rules_of_target_property": alarms.get(prop, {}).get("rules", []) if alarms.get(prop, {}).get("exit") == 1 else [],
            "demo": f"{demo} (run with PYTHONPATH=<tree>/src; exit 1 = property violated)",
        }
        (d / "meta.json").write_text(json.dumps(meta, indent=1) + "\n")
        print(sid, meta["alarms"], meta["caught_by_rules_of_target_property"] or "NOT CAUGHT BY TARGET")
    return 0


if __name__ == "__main__":
    sys.exit(main())
