#!/venv/bin/python
"""Write meta.json for the round-2 seeds from an evaluation log (tools/try_patch.py output per seed).

usage: tools/make_seed_meta2.py <log>      log lines: '## C01-A --- C01 exit 1|    [RULE] ...|ALARMS: [...]|'
"""
from __future__ import annotations

import json
from pathlib import Path
import re
import sys

DESC = {
    "C01-A": ("MessageSchema.to_dict strips every field (`item.strip()`): a payload with leading whitespace no longer round-trips", "a payload that starts with whitespace (or whitespace-only fields)"),
    "C01-B": ("the decoded Message remembers its original line (pass_original) and to_string re-uses it: an edited message is encoded as the old line", "decode a line, change a field of the Message, encode it again"),
    "C02-A": ("validate_child_id flattened into guard clauses: the id-request exemption no longer requires the internal command, so stream types 3/4 with child != 255 are accepted", "command 4 (stream), type 3 or 4, child id other than 255"),
    "C02-B": ("Message.__init__ rejects negative header fields with ValueError: a negative type number is refused by a non-library error out of MessageSchema.load", "an otherwise valid line whose type field is a negative integer"),
    "C03-A": ("id allocation reuses the lowest free id via next(<generator>) guarded by a count of registry entries: StopIteration (RuntimeError) escapes listen when ids 1..254 are taken and node 0 is absent", "254 registered nodes without node 0, then one more id request"),
    "C03-B": ("ChildIdField caches the validated child id in the schema context and CommandField reads it back: KeyError when the first line a gateway reads has an invalid child id", "the first six-field line of a fresh Gateway has an empty / non-numeric / out-of-range child id"),
    "C04-A": ("Node.add_child keeps an existing Child object and only updates its description: a re-presented child keeps stale values", "a child that reported values is presented again"),
    "C04-B": ("the 2.x handle_set returns early for messages with the ack flag: the set value is not recorded", "protocol 2.x, a set message with ack=1"),
    "C05-A": ("get_protocol compares 'major.minor' strings lexicographically: 2.10 selects 2.1, 10.0 selects 1.5", "a version with a two-digit component"),
    "C05-B": ("Gateway.__aenter__ restores protocol_version from the persisted gateway node: rules other than 1.4 are in force before the gateway has reported anything and the version is never queried", "persistence configured, an earlier session stored node 0, a new Gateway object"),
    "C06-A": ("Gateway.listen yields messages with the ack flag without dispatching them: no reply, reboot, discover or version query for them", "a received line with ack=1"),
    "C06-B": ("the version-query exemption set becomes a module constant that also lists I_VERSION: an unparsable version report is not followed by a query", "version unknown and an I_VERSION report with a payload get_protocol rejects"),
    "C07-A": ("the 2.x presentation handler drops the set commands parked for a node that presents itself (child 255)", "parked commands, then the node presents itself before it wakes"),
    "C07-B": ("the 2.2 heartbeat-response handler delegates to the 2.0 handler: a heartbeat marks the node sleeping and releases parked commands under 2.2", "protocol 2.2, heartbeat response from a node"),
    "C08-A": ("the flush pops all entries of the node first and puts the unwritten ones back on failure: the entry whose write failed is written twice", "a write failure in the middle of a flush with two or more parked commands"),
    "C08-B": ("Gateway.send with message_buffer=False drops the entry parked under the same key before writing (\"superseded\"): the flush's own re-send removes the entry first, so a failed write loses the command", "the flush re-sends a parked set command and that write fails"),
    "C09-A": ("handle_set coalesces into the parked Message in place (setdefault + field refresh): the flush's identity check passes and pops the entry although a newer value was merged during the write", "send for the same (node, child, type) while the flush is suspended in the write of that entry"),
    "C09-B": ("the 2.2 pre-sleep handler marks the node awake while flushing: a concurrent send is written immediately and the older parked value is written after it", "protocol 2.2, a send for the node while its flush is suspended in a write"),
    "C10-A": ("the protocol_version setter clears internal_messages (outstanding presentation-request markers)", "a version report between two rejected messages of the same node"),
    "C10-B": ("the wake-up flush also releases (and removes) internal_messages of the woken node: the request marker is sent again and forgotten", "a known node with a missing child sends a wake message between two rejected messages"),
    "C11-A": ("the placeholder node is registered after the id response was sent: two id requests interleaved at the write get the same id", "a second id request handled while the first reply's write is suspended"),
    "C11-B": ("ChildIdField._serialize forces child 255 for internal/stream commands: the id response is not addressed like the request", "an id request with a child id other than 255"),
    "C12-A": ("MessageBuffer.take_set_messages removes all entries of the node before the flush sends them: a failed write loses the remaining commands", "a write failure during a flush with more than one parked command"),
    "C12-B": ("the 2.x outgoing handle_req parks requests for a sleeping node in set_messages under (node, child, type): it replaces a parked set command with the same key", "protocol 2.x, a req and a set for the same (node, child, type) sent to a sleeping node"),
    "C13-A": ("save writes UTF-8 with ensure_ascii=False while load keeps the locale's default encoding", "non-ASCII text in the registry and a non-UTF-8 locale"),
    "C13-B": ("the legacy translation uses `or` defaults: node type 0 becomes 18", "a legacy file with a node of type 0"),
    "C14-A": ("ChildSchema.handle_compatibility calls .items() on the stored 'values' of the untrusted JSON: AttributeError for a non-mapping", "a persistence file whose child 'values' is a list or a string"),
    "C14-B": ("load splits file access and parsing into two try blocks; the first maps only OSError, so the UnicodeDecodeError (a ValueError) of the read escapes", "a persistence file with undecodable bytes"),
    "C15-A": ("Gateway.__aenter__ puts load() inside the try whose handler stops persistence: a failed load is followed by the final save, which overwrites the file with the partial registry", "a start-up where load() raises (one invalid record, transient I/O error)"),
    "C15-B": ("save renames the live file to .bak before opening the new one for writing: a crash in between leaves no live file and load creates an empty one", "a crash or a failing open between the rename and the open"),
    "C16-A": ("Persistence.save gets an 'already saving' flag that is not reset on cancellation: the final save of stop() is skipped after the saver was cancelled inside a file operation", "leaving the context while the periodic save is suspended in open/write/close"),
    "C16-B": ("StreamTransport.write clears reader/writer on ConnectionError: disconnect() then returns without closing the stream", "a write failing with BrokenPipeError/ConnectionResetError inside the context body"),
    "C17-A": ("disconnect forgets the streams first and calls writer.close() outside the OSError handler", "close() raising an OS-level error"),
    "C17-B": ("SerialTransport.write sends long lines in 64-character pieces with a drain in between", "a line longer than 64 characters with concurrent writers or a failure between pieces"),
    "C18-A": ("TransportReadError's partial_bytes becomes keyword-only; the MQTT receive loop still passes it positionally: TypeError kills the receive task", "an undecodable MQTT payload"),
    "C18-B": ("the incoming queue becomes bounded (maxsize=256) while the receive callbacks keep using put_nowait: QueueFull in the receive path, messages / errors are lost", "more than 256 received messages not yet read"),
    "C19-A": ("the shared handle_set consults the active protocol's VALID_MESSAGE_TYPES table for the child's type: the same set message is accepted under one version and refused under a later one", "a (child type, value type) pair that the tables of two versions list differently"),
    "C19-B": ("the 2.0 presentation handler keeps the children of a re-presented node", "protocol 2.x, a known node with children presents itself again"),
}


def main() -> int:
    log = Path(sys.argv[1]).read_text()
    root = Path(__file__).resolve().parent.parent / "seeded"
    for m in re.finditer(r"^## (C\d\d-[AB]) (.*)$", log, re.M):
        sid, rest = m.group(1), m.group(2)
        prop = sid[:3]
        alarms = {}
        cur = None
        for part in rest.split("|"):
            part = part.strip()
            mm = re.match(r"--- (C\d\d) exit (\d)", part)
            if mm:
                cur = mm.group(1)
                alarms[cur] = {"exit": int(mm.group(2)), "rules": []}
                continue
            mm = re.match(r"\[([A-Z0-9-]+)\]", part)
            if mm and cur and mm.group(1) not in alarms[cur]["rules"]:
                alarms[cur]["rules"].append(mm.group(1))
        d = root / sid
        change, needs = DESC[sid]
        demo = next((p.name for p in d.glob("demo_*.py")), None)
        meta = {
            "id": f"seed2-{sid.lower()}",
            "breaks_property": prop,
            "round": 2,
            "source": "independent sub-agent given only the property text and a scratch worktree of /repo (two changes per property, in different code sites)",
            "change": change,
            "needs_to_manifest": needs,
            "confirmed": {"unedited_test_suite_with_change": "273 passed", "demo_with_change_exit": 1, "demo_without_change_exit": 0, "how": "tools/confirm_seed2.sh in the scratch worktree: suite with the change; demo with the change; git apply -R; demo; git apply"},
            "checks_run": "tools/try_patch.py <patch>: scratch copy of /repo/src with the patch applied, all 19 quick checks (and tools/eval_seed.py on /repo for the first pass)",
            "alarms": sorted(alarms),
            "alarm_detail": alarms,
            "caught_by_rules_of_target_property": alarms.get(prop, {}).get("rules", []) if alarms.get(prop, {}).get("exit") == 1 else [],
            "demo": f"{demo} (run with PYTHONPATH=<tree>/src; exit 1 = property violated)",
        }
        (d / "meta.json").write_text(json.dumps(meta, indent=1) + "\n")
        print(sid, meta["alarms"], meta["caught_by_rules_of_target_property"] or "NOT CAUGHT BY TARGET")
    return 0


if __name__ == "__main__":
    sys.exit(main())
