#!/venv/bin/python
"""Write meta.json for the round-14 seeds from an evaluation log (tools/try_patch.py output per seed).

usage: tools/make_seed_meta2.py <log>      log lines: '## C01-A --- C01 exit 1|    [RULE] ...|ALARMS: [...]|'
"""
from __future__ import annotations

import json
from pathlib import Path
import re
import sys

DESC = {
    "C01-M": ("Message gets a __setattr__ that normalises on every assignment (int() on the ids, str(value).strip() on the payload): a payload with leading blanks is stripped at construction, the decoded message differs from the constructed one", "a payload with leading whitespace"),
    "C01-N": ("NODE_ID_REQUEST_TYPES of every protocol module loses I_ID_RESPONSE: the cross-field rule of the schema refuses an id response that carries a child id other than 255 although the codec must round-trip it", "an id response (internal type 4) with a child id other than 255"),
    "C02-M": ("protocol_22 defines its own Command enum with the three remaining values of the 3-bit field (reserved_5, reserved_6, invalid_7): command 5-7 is accepted by the schema under 2.2", "a line with command 5, 6 or 7 under protocol 2.2"),
    "C02-N": ("InvalidMessageError builds its text from str(message).splitlines()[0]: IndexError for the empty line / a line of line terminators only, raised while the rejection is being built", "the empty string (or only line terminators) as received line"),
    "C03-M": ("InvalidMessageError formats message.rstrip(): the handlers pass a Message object, which has no rstrip - AttributeError instead of the invalid-message error", "a handler-level invalid payload (battery level, heartbeat, version)"),
    "C03-N": ("TransportReadError renders the partial bytes with partial_bytes.decode(): the error is built for undecodable input, so the constructor itself raises UnicodeDecodeError", "undecodable bytes on a stream / MQTT transport"),
    "C04-M": ("Node.__init__ stores `protocol_version or DEFAULT_PROTOCOL_VERSION`: a node that presents itself with an empty library version is recorded as 1.4", "a node presentation with an empty payload"),
    "C04-N": ("Gateway.protocol becomes a computed property (get_protocol(self._protocol_version or DEFAULT)) and the setter stores the value before it is validated: a refused version report leaves the refused value behind and every later message fails", "a gateway version report with an unsupported / unparsable version, then any message"),
    "C05-M": ("Gateway.__aexit__ forgets the learnt protocol version ('the gateway can be updated while we are disconnected'): the version stays 1.4-default until the next report although it was learnt", "leaving and re-entering the context"),
    "C05-N": ("the 2.x presentation handler updates a known node in place and returns early: the gateway node's presentation (node 0) no longer reaches the version-learning code", "a second presentation of node 0 with a new version"),
    "C06-M": ("the 1.4 outgoing set / req handlers validate the value type against the active protocol's SetReq (UnsupportedMessageError): the value reply to a req of a type the protocol does not list is refused on its way out", "a req for a stored value whose type is not in the active SetReq"),
    "C06-N": ("the CLI's setup_logging sets os.environ['TZ'] = 'UTC' and calls time.tzset(): the time reply carries UTC wall clock instead of the controller's local time", "a time request after run_gateway started in a non-UTC zone"),
    "C07-M": ("the value reply of the incoming req handler is sent with the default message_buffer=True: for a sleeping node the reply takes the buffer slot of the command the user parked", "a sleeping node with a parked set that sends a req for the same child / type"),
    "C07-N": ("the protocol_version setter re-creates the MessageBuffer whenever the protocol object changes: commands parked before the version report are dropped", "a set parked for a sleeping node, then the gateway's version report"),
    "C08-M": ("Gateway.__aenter__ creates a fresh MessageBuffer: commands still parked after a failed release are gone after a reconnect", "a failed write at a wake, leave and re-enter the context, wake again"),
    "C08-N": ("MQTTTransport.write publishes in a detached task (create_task + done callback) whose error handler logs and returns: a failed write reports success, the flush forgets the command", "MQTT transport with a failing publish during a release"),
    "C09-M": ("set_messages becomes a dict subclass whose __setitem__ updates the parked Message in place (ack, payload) when the key exists: a flush that already took the entry writes the newer payload and the identity guard then removes it although a later send raced", "a send for a key while the flush is writing that key's entry"),
    "C09-N": ("Message gets value equality / hash and Gateway.send returns early when an equal message is in an _in_flight set: a re-send of the same value while the first write is pending is dropped silently", "send(v1) blocked in the transport, send(v2), send(v1) again"),
    "C10-M": ("the release loop iterates over internal_messages as well as set_messages: the outstanding-request marker is written to the node and removed at its wake, the next unknown-child message asks again", "a known sleeping node with an outstanding presentation request wakes"),
    "C10-N": ("the protocol_version setter re-creates the MessageBuffer: the presentation-request markers recorded before the version report are dropped, the request is repeated", "an unknown node's message before and after the gateway's version report"),
    "C11-M": ("Persistence.load collects into a local dict and then clear()s and update()s the registry: ids handed out or presented before the load are forgotten and can be handed out again", "an id request answered before load() is called again (re-entered context)"),
    "C11-N": ("ChildField gets a _serialize that forces child 255 for internal / stream commands: the id response is addressed to child 255 instead of like the request", "an id request from a child id other than 255"),
    "C12-M": ("Gateway.__aenter__ creates a fresh MessageBuffer: messages held for sleeping nodes are dropped when the context is re-entered", "send to a sleeping node, leave and re-enter the context, the node wakes"),
    "C12-N": ("MessageBuffer.pop_set_messages(node_id) removes the node's entries up front and the flush iterates over the popped list: when a write fails the rest is neither written nor held", "two parked commands and a write fault on the first"),
    "C13-M": ("Persistence.stop() shuts its executor down (finally: self._executor.shutdown(wait=False)): a later load / save of the same object raises RuntimeError", "the same Persistence / Gateway used for a second context"),
    "C13-N": ("Node.__init__ strips sketch name / version while the decoder keeps trailing blanks (rstrip('\\r\\n')): a sketch name with trailing blanks reported after the presentation is saved unstripped and loads back stripped", "a sketch name with trailing whitespace"),
    "C14-M": ("Gateway.__aenter__ adopts the protocol version of the stored gateway node: an unsupported / unparsable stored version raises from the setter, not the persistence read error", "a persistence file whose node 0 has a protocol_version get_protocol refuses"),
    "C14-N": ("Persistence.stop() shuts its executor down in a finally: the next load of the same object raises RuntimeError instead of succeeding / PersistenceReadError", "the same Persistence object loaded after stop()"),
    "C15-M": ("ChildSchema.values loses values=fields.Str(): child values pass through as they are, json.dumps raises TypeError inside the open('w') block", "a child value set through the node API that is not JSON-able (bytes, Decimal, Fraction)"),
    "C15-N": ("the 2.x heartbeat handlers accept int(Decimal(payload)): '1e5000' becomes a 5001-digit integer json.dumps cannot print (ValueError inside the open('w') block)", "a heartbeat response with payload 1e5000, then a save"),
    "C16-M": ("MQTTClient._connect starts the receive task before `await self._client.__aenter__()`: a failing connect leaves that task running", "MQTT broker connection refused"),
    "C16-N": ("save awaits asyncio.sleep(0) inside the loop over self.nodes.values(): a node registered in between makes the dict iteration raise RuntimeError, which kills the saver / the final save", "a node presented while a save is between two nodes"),
    "C17-M": ("TransportReadError renders partial bytes with .decode() unless the error is a UnicodeDecodeError: an incomplete read whose partial bytes are undecodable raises UnicodeDecodeError from the constructor", "end of stream after undecodable partial bytes"),
    "C17-N": ("TCPTransport.disconnect aborts the socket (writer.transport.abort()) before closing: bytes accepted by write() and still buffered are discarded", "a write followed immediately by disconnect on a slow peer"),
    "C18-M": ("TransportReadError re-decodes the readable part with error.encoding after cutting the reported bad byte: a second bad byte raises UnicodeDecodeError from the constructor inside the receive task", "an MQTT payload with two undecodable bytes"),
    "C18-N": ("MQTTTransport.connect replaces the incoming queue: messages received but not yet read are dropped on reconnect, and a pending reader keeps waiting on the old queue", "messages queued, then reconnect"),
    "C19-M": ("NODE_ID_REQUEST_TYPES (1.4 only; inherited tables differ) also lists I_LOG_MESSAGE and I_GATEWAY_READY: the child-id exemption of the cross-field rule differs between 1.4 and the later protocols that define their own table", "a log message with child id 0 under 1.4 and under 1.5 / 2.x"),
    "C19-N": ("Gateway.send holds a message back only if the active protocol's incoming handler has _handle_sleep_buffer (hasattr): under 1.x a set for a node marked sleeping is written at once, under 2.x it is parked", "a node whose sleeping flag is set (restored from a file) and a set command under 1.5 vs 2.0"),
}


def main() -> int:
    log = Path(sys.argv[1]).read_text()
    root = Path(__file__).resolve().parent.parent / "seeded"
    for m in re.finditer(r"^## (C\d\d-[MN]) (.*)$", log, re.M):
        sid, rest = m.group(1), m.group(2)
        prop = sid[:3]
        alarms = {}
        cur = None
        for part in rest.split("|"):
            part = part.strip()
            mm = re.match(r"--- (C\d\d) exit (\d)", part)
            if mm:
                cur = mm.group(1)
                alarms[cur] = {"exit": int(mm.group(2)), "rules": []}
                continue
            mm = re.match(r"\[([A-Z0-9-]+)\]", part)
            if mm and cur and mm.group(1) not in alarms[cur]["rules"]:
                alarms[cur]["rules"].append(mm.group(1))
        d = root / sid
        change, needs = DESC[sid]
        demo = next((p.name for p in d.glob("demo_*.py")), None)
        meta = {
            "id": f"seed14-{sid.lower()}",
            "breaks_property": prop,
            "round": 14,
            "source": "independent sub-agent given only the property text and a scratch worktree of /repo (two changes per property; hint: change a collaborator of the code the property is usually tied to - a data class, an exception class, a schema field, the transport, the CLI, the context manager - or make a pair of edits in two files that are harmless one by one; seven or more candidates considered, the two least obvious delivered)",
            "change": change,
            "needs_to_manifest": needs,
            "confirmed": {"unedited_test_suite_with_change": "273 passed", "demo_with_change_exit": 1, "demo_without_change_exit": 0, "how": "confirm script in the scratch worktree (same steps as tools/confirm_seed4.sh): suite with the change; demo with the change; git apply -R; demo; git apply"},
            "checks_run": "tools/try_patch.py <patch>: scratch copy of /repo/src with the patch applied, all 19 quick checks (and tools/eval_seed.py on /repo for the first pass)",
            "alarms": sorted(alarms),
            "alarm_detail": alarms,
            "caught_by_rules_of_target_property": alarms.get(prop, {}).get("rules", []) if alarms.get(prop, {}).get("exit") == 1 else [],
            "demo": f"{demo} (run with PYTHONPATH=<tree>/src; exit 1 = property violated)",
        }
        (d / "meta.json").write_text(json.dumps(meta, indent=1) + "\n")
        print(sid, meta["alarms"], meta["caught_by_rules_of_target_property"] or "NOT CAUGHT BY TARGET")
    return 0


if __name__ == "__main__":
    sys.exit(main())
