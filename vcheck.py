#!/venv/bin/python
"""Static checks for the aiomysensors properties (see DESIGN.md).

usage: /venv/bin/python /verif/vcheck.py <Cxx> [--tier quick|thorough] [--root DIR] [--replay report.json]

exit 0: every obligation discharged (known findings printed as KNOWN-FINDING)
exit 1: VIOLATION property=<id> replay=<path>
exit 2: ANALYSIS-ERROR (the checker could not analyse what it must; never a pass)
"""

from __future__ import annotations

import argparse
import importlib
import json
import os
import sys
import traceback

sys.path.insert(0, os.path.dirname(os.path.abspath(__file__)))
sys.setrecursionlimit(10000)

from sa.model import AnalysisError  # noqa: E402
from sa.report import Check  # noqa: E402


def main() -> int:
    ap = argparse.ArgumentParser()
    ap.add_argument("prop")
    ap.add_argument("--tier", default=os.environ.get("VERIF_TIER", "quick"), choices=["quick", "thorough"])
    ap.add_argument("--root", default="/repo")
    ap.add_argument("--replay", default=None)
    ap.add_argument("--quiet", action="store_true")
    ap.add_argument("--no-selftest", action="store_true")
    args = ap.parse_args()
    seed = int(os.environ.get("VERIF_SEED", "0") or 0)
    prop = args.prop.upper()
    root = args.root
    only_rule = None
    if args.replay:
        rep = json.loads(open(args.replay).read())
        prop = rep["property"]
        only_rule = rep["rule"]
        root = rep.get("root", root)
    chk = Check(prop, args.tier, seed, root)
    chk.quiet = args.quiet
    try:
        try:
            mod = importlib.import_module(f"sa.rules.{prop.lower()}")
        except ModuleNotFoundError as err:
            if err.name and err.name.startswith("sa.rules."):
                raise AnalysisError(f"no rules built for property {prop}") from err
            raise
        from sa.rules.common import Ctx

        ctx = Ctx(root)
        mod.run(ctx, chk)
        if args.tier == "thorough" and hasattr(mod, "thorough"):
            mod.thorough(ctx, chk)
        if root == "/repo" and not args.replay and not args.no_selftest:
            from sa import selftest

            selftest.run_for(prop, args.tier, chk, seed)
        if only_rule:
            chk.findings = [f for f in chk.findings if f.rule == only_rule]
        return chk.finish()
    except AnalysisError as err:
        return chk.finish(error=str(err))
    except Exception as err:  # noqa: BLE001 - any checker bug is an analysis error, never a verdict
        tb = traceback.format_exc()
        sys.stderr.write(tb)
        return chk.finish(error=f"checker exception {type(err).__name__}: {err}")


if __name__ == "__main__":
    sys.exit(main())
