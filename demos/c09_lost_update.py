import asyncio
from aiomysensors.gateway import Gateway
from aiomysensors.transport import Transport
from aiomysensors.model.message import Message
from aiomysensors.model.node import Node
class T(Transport):
    def __init__(s): s.out=[]; s.lines=asyncio.Queue(); s.gate=None
    async def connect(s): pass
    async def disconnect(s): pass
    async def read(s): return await s.lines.get()
    async def write(s,m):
        if s.gate: await s.gate.wait()
        s.out.append(m)
async def main():
    t=T(); g=Gateway(t); g.protocol_version="2.1"; n=g.nodes[1]=Node(1,17,"2.1"); n.sleeping=True
    n.children[1]=None
    await g.send(Message(1,1,1,0,2,"old"))
    t.gate=asyncio.Event()
    async def listener():
        async for m in g.listen(): pass
    lt=asyncio.create_task(listener())
    await t.lines.put("1;255;3;0;22;5\n")          # wake: flush starts, write of "old" suspends
    await asyncio.sleep(0)
    await asyncio.sleep(0)
    await g.send(Message(1,1,1,0,2,"new"))         # concurrent send parks "new" under the same key
    t.gate.set(); await asyncio.sleep(0.01)         # write of "old" completes, flush pops the key
    await t.lines.put("1;255;3;0;22;6\n")          # next wake
    await asyncio.sleep(0.01)
    lt.cancel()
    print('written:', [x.strip() for x in t.out if ';1;0;2;' in x], 'still parked:', g._message_buffer.set_messages)
asyncio.run(main())
