"""C03 / C17: after one over-long line every later read of a stream transport fails for ever.

asyncio.StreamReader.readuntil raises LimitOverrunError *without consuming* the offending data ("the data will be
left in the internal buffer and can be read again").  StreamTransport.read maps the error to TransportReadError and
leaves the buffer as it is, so the next read hits the same data again: the well-formed lines that follow the noise
are never delivered.  Run with PYTHONPATH=<tree>/src; exit 1 = property violated.
"""
import asyncio
import sys
from unittest.mock import patch

from aiomysensors.exceptions import AIOMySensorsError
from aiomysensors.gateway import Gateway
from aiomysensors.transport.tcp import TCPTransport


class Writer:
    def close(self) -> None: ...
    async def wait_closed(self) -> None: ...
    def write(self, data: bytes) -> None: ...
    async def drain(self) -> None: ...


async def main() -> int:
    reader = asyncio.StreamReader()  # default limit 64 KiB

    async def open_connection(**kwargs):
        return reader, Writer()

    with patch("asyncio.open_connection", open_connection):
        gateway = Gateway(TCPTransport("host", 5003))
        await gateway.transport.connect()
        # serial noise without a newline for more than 64 KiB, then ordinary traffic
        reader.feed_data(b"\xffU" * 40000 + b"\n" + b"0;255;3;0;14;Gateway startup complete.\n" + b"0;255;3;0;2;2.3.2\n")
        outcomes = []
        for _ in range(4):
            try:
                msg = await asyncio.wait_for(anext(gateway.listen()), 1)
                outcomes.append(f"message {msg.node_id};{msg.child_id};{msg.command};{msg.ack};{msg.message_type};{msg.payload}")
            except AIOMySensorsError as err:
                outcomes.append(type(err).__name__)
            except asyncio.TimeoutError:
                outcomes.append("timeout")
        for o in outcomes:
            print(" ", o)
        delivered = [o for o in outcomes if o.startswith("message")]
        if len(delivered) < 2:
            print("PROBLEM: the two well-formed lines after the over-long line were never delivered; every read keeps failing on the same buffered data")
            return 1
        return 0


sys.exit(asyncio.run(main()))
