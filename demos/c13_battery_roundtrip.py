"""C13: battery level 150 from the wire is saved, and the saved file is rejected on the next load."""
import asyncio, os, tempfile
from aiomysensors.gateway import Gateway
from aiomysensors.transport import Transport
from aiomysensors.model.node import Node
from aiomysensors.persistence import Persistence
class T(Transport):
    def __init__(s, lines): s.lines = list(lines)
    async def connect(s): pass
    async def disconnect(s): pass
    async def read(s): return s.lines.pop(0)
    async def write(s, m): pass
async def main():
    g = Gateway(T(["1;255;3;0;0;150\n"])); g.protocol_version = "1.4"; g.nodes[1] = Node(1, 17, "1.4")
    try:
        async for m in g.listen(): break
        print("accepted from the wire, battery_level =", g.nodes[1].battery_level)
    except Exception as e:
        print("rejected on the wire:", type(e).__name__)
    p = os.path.join(tempfile.mkdtemp(), "r.json")
    await Persistence(g.nodes, p).save()
    try:
        nodes = {}; await Persistence(nodes, p).load(); print("saved file loads:", {k: v.battery_level for k, v in nodes.items()})
    except Exception as e:
        print("saved file REJECTED by load:", type(e).__name__, e)
asyncio.run(main())
