"""Known finding C15: a crash between open(path, 'w') and the write leaves an empty file.

The process 'dies' (os._exit in a child) right after the live file was opened for writing.
"""
import asyncio, json, os, sys, tempfile, subprocess

CHILD = r'''
import asyncio, os, sys
import aiofiles.threadpool.text as t
from aiomysensors.persistence import Persistence
from aiomysensors.model.node import Node
orig = t.AsyncTextIOWrapper.write
async def dying_write(self, *a, **k):
    os._exit(9)          # crash point: file already opened with mode "w" (truncated), nothing written yet
t.AsyncTextIOWrapper.write = dying_write
async def main():
    nodes = {1: Node(1, 17, "2.0"), 2: Node(2, 17, "2.0")}
    await Persistence(nodes, sys.argv[1]).save()
asyncio.run(main())
'''

async def main():
    from aiomysensors.persistence import Persistence
    from aiomysensors.model.node import Node
    d = tempfile.mkdtemp(); p = os.path.join(d, "reg.json")
    await Persistence({1: Node(1, 17, "2.0")}, p).save()
    print("before crash:", list(json.load(open(p))))
    subprocess.run([sys.executable, "-c", CHILD, p])
    print("file size after crash:", os.path.getsize(p))
    nodes = {}
    await Persistence(nodes, p).load()
    print("registry loaded after crash:", nodes, "(neither the old {1} nor the new {1, 2})")
asyncio.run(main())
