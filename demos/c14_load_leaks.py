import asyncio, json, tempfile, os
from aiomysensors.persistence import Persistence
from aiomysensors.exceptions import PersistenceReadError
async def main():
    for content in ['{"1":{"node_id":1}}','[]','5','{"1":5}','{"1":null}','{"1":{"node_id":1,"node_type":17,"protocol_version":"2.0","children":{"1":[1]}}}','['*100000,'{"1":{"node_id":1,"node_type":17,"protocol_version":"2.0","children":{"1":{"id":1,"type":38}}}}','', '{"1"']:
        d=tempfile.mkdtemp(); p=os.path.join(d,'f.json'); open(p,'w').write(content)
        nodes={}
        try:
            await Persistence(nodes,p).load(); print('ok',content[:30],nodes)
        except PersistenceReadError as e: print('PRE',content[:30])
        except BaseException as e: print('LEAK',type(e).__name__,content[:30])
asyncio.run(main())
