"""C16: a save cancelled inside aiofiles.open keeps running in its worker thread and can truncate the file
after the final save of stop() has written it (default multi-worker executor, slow first open)."""
import asyncio, json, os, sys, tempfile, threading, time
import aiofiles.threadpool as tp
from aiomysensors.gateway import Gateway, Config
from aiomysensors.transport import Transport
from aiomysensors.model.node import Node

class T(Transport):
    async def connect(self): pass
    async def disconnect(self): pass
    async def read(self): await asyncio.sleep(3600)
    async def write(self, m): pass

real_open = tp.sync_open
calls = []
def slow_first_write_open(file, mode="r", *a, **k):
    n = len(calls); calls.append((file, mode, threading.current_thread().name))
    if "w" in mode and sum(1 for c in calls if "w" in c[1]) == 1:
        time.sleep(0.5)  # the kernel / disk takes its time for this one open(2)
    return real_open(file, mode, *a, **k)
tp.sync_open = slow_first_write_open

async def main():
    d = tempfile.mkdtemp(); path = os.path.join(d, "p.json")
    open(path, "w").write("{}")
    gw = Gateway(T(), Config(persistence_file=path))
    async with gw:
        gw.nodes[1] = Node(1, 17, "2.0")
        await asyncio.sleep(0.05)   # the saver is inside its first open() now
    on_exit = open(path).read()
    await asyncio.sleep(1.0)
    later = open(path).read()
    print("file at exit:", len(on_exit), "bytes; one second later:", len(later), "bytes")
    ok = json.loads(later or "{}").keys() == {"1"}
    print("opens:", calls)
    return 0 if ok else 1
sys.exit(asyncio.run(main()))
