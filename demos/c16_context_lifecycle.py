import asyncio, tempfile, os, json
from aiomysensors.gateway import Gateway, Config
from aiomysensors.transport import Transport
from aiomysensors.exceptions import TransportError
class T(Transport):
    def __init__(s, fail_connect=False, fail_disconnect=False): s.fc=fail_connect; s.fd=fail_disconnect
    async def connect(s):
        if s.fc: raise TransportError("no")
    async def disconnect(s):
        if s.fd: raise TransportError("bye")
    async def read(s): await asyncio.sleep(10)
    async def write(s,m): pass
async def main():
    d=tempfile.mkdtemp()
    # 1. enter and leave at once
    p=os.path.join(d,'a.json')
    try:
        async with Gateway(T(), Config(persistence_file=p)) as g: pass
        print('1 ok, tasks left:', len(asyncio.all_tasks())-1)
    except BaseException as e: print('1', type(e).__name__, 'tasks left:', len(asyncio.all_tasks())-1)
    # 2. connect fails
    p=os.path.join(d,'b.json')
    try:
        async with Gateway(T(fail_connect=True), Config(persistence_file=p)) as g: pass
    except BaseException as e: print('2', type(e).__name__, 'tasks left:', len(asyncio.all_tasks())-1)
    for t in asyncio.all_tasks():
        if t is not asyncio.current_task(): t.cancel()
    await asyncio.sleep(0)
    # 3. disconnect fails
    p=os.path.join(d,'c.json')
    try:
        async with Gateway(T(fail_disconnect=True), Config(persistence_file=p)) as g:
            await asyncio.sleep(0.05)
            from aiomysensors.model.node import Node
            g.nodes[5]=Node(5,17,"2.0")
    except BaseException as e: print('3', type(e).__name__, 'tasks left:', len(asyncio.all_tasks())-1, 'saved nodes:', list(json.load(open(p))))
asyncio.run(main())
