"""C16: a failing MQTT connect (subscribe refused after the broker connection was made) leaves the receive task running."""
import asyncio
import sys
from unittest.mock import patch

from aiomqtt import MqttError

from aiomysensors.exceptions import TransportError
from aiomysensors.gateway import Gateway
from aiomysensors.transport.mqtt import MQTTClient


class FakeMessages:
    def __aiter__(self):
        return self

    async def __anext__(self):
        await asyncio.sleep(3600)


class FakeClient:
    def __init__(self, *a, **k):
        self.messages = FakeMessages()
        self.exited = False

    async def __aenter__(self):
        return self

    async def __aexit__(self, *a):
        self.exited = True

    async def subscribe(self, topic, qos=0, timeout=10):
        raise MqttError("subscription refused")

    async def publish(self, *a, **k):
        pass


async def main() -> int:
    before = asyncio.all_tasks()
    with patch("aiomysensors.transport.mqtt.AsyncioClient", FakeClient):
        transport = MQTTClient("broker")
        try:
            async with Gateway(transport):
                print("entered?!")
        except TransportError as err:
            print("connect failed as expected:", type(err).__name__)
        await asyncio.sleep(0)
        left = [t for t in asyncio.all_tasks() - before if not t.done()]
        client = transport._client
        problems = []
        if left:
            problems.append(f"background task(s) left behind after the failed connect: {[t.get_coro().__qualname__ for t in left]}")
        if client is not None and not client.exited:
            problems.append("the broker connection was not closed")
        # a second attempt must be possible
        try:
            async with Gateway(transport):
                pass
        except TransportError:
            pass
        except RuntimeError as err:
            problems.append(f"second connect attempt fails with RuntimeError: {err}")
        for t in left:
            t.cancel()
        for p in problems:
            print("PROBLEM:", p)
        return 1 if problems else 0


sys.exit(asyncio.run(main()))
