"""E2 typed facts: one mypy-as-library run over the analysed package, cached.

The mypy run happens in a child process (teardown of a compiled mypy build is
slow and a crash must not take the checker down); the child dumps a JSON file
with, per repository module:

  exprs : [line, col, end_line, end_col, kind, type-string]      (every typed expression)
  calls : [line, col, end_line, end_col, callee-fullname | None, callee-kind]
  refs  : [line, col, end_line, end_col, kind, fullname]           (NameExpr/MemberExpr that resolve)
  mro   : {class fullname: [mro fullnames]}                        (every class mypy saw that is
                                                                    mentioned in raise/except/summaries)

The checker never imports repository code; mypy only parses and type-checks it.
"""

from __future__ import annotations

import hashlib
import json
import os
from pathlib import Path
import subprocess
import sys

CACHE_DIR = Path(__file__).resolve().parent.parent / ".cache"
SHIPPED_DIR = Path(__file__).resolve().parent.parent / "facts_cache"
PKG = "aiomysensors"
FACTS_VERSION = "7"


class FactsError(Exception):
    """mypy could not be run / crashed."""


def source_digest(src_root: Path) -> str:
    h = hashlib.sha256()
    h.update(FACTS_VERSION.encode())
    for p in sorted((src_root / PKG).rglob("*.py")):
        h.update(str(p.relative_to(src_root)).encode())
        h.update(b"\0")
        h.update(p.read_bytes())
        h.update(b"\0")
    return h.hexdigest()


def load_facts(src_root: Path) -> dict:
    """Return the facts dict for the package under src_root (…/src)."""
    digest = source_digest(src_root)
    CACHE_DIR.mkdir(exist_ok=True)
    cache = CACHE_DIR / f"facts-{digest}.json"
    if cache.exists():
        try:
            return json.loads(cache.read_text())
        except ValueError:
            cache.unlink()
    # committed, content-addressed facts (pristine tree and the combined canary tree): valid only for exactly
    # these sources - any edit of the analysed tree changes the digest and forces a fresh mypy run
    shipped = SHIPPED_DIR / f"facts-{digest}.json.gz"
    if shipped.exists():
        import gzip

        try:
            return json.loads(gzip.decompress(shipped.read_bytes()).decode())
        except (ValueError, OSError):
            pass
    tmp = cache.with_suffix(f".{os.getpid()}.tmp")
    proc = subprocess.run(
        [sys.executable, __file__, str(src_root), str(tmp)],
        capture_output=True,
        text=True,
        timeout=600,
        check=False,
    )
    if proc.returncode != 0 or not tmp.exists():
        raise FactsError(
            f"mypy facts extraction failed (exit {proc.returncode}): "
            f"{proc.stderr[-2000:]}"
        )
    data = json.loads(tmp.read_text())
    if source_digest(src_root) != digest:
        # the analysed tree changed while mypy was reading it: these facts describe neither version - never cache them
        tmp.unlink(missing_ok=True)
        raise FactsError("the analysed source tree changed during fact extraction; re-run the check")
    os.replace(tmp, cache)
    return data


# --------------------------------------------------------------------------
# child process


def _child(src_root: str, out: str) -> None:  # pragma: no cover - runs mypy
    os.chdir(src_root)
    from mypy import build
    from mypy.find_sources import create_source_list
    from mypy.options import Options
    from mypy import nodes as N
    from mypy.types import Instance, CallableType, Overloaded, get_proper_type

    opts = Options()
    opts.preserve_asts = True
    opts.export_types = True
    opts.incremental = False
    opts.cache_dir = os.devnull
    opts.python_version = (3, 12)
    opts.mypy_path = ["."]
    opts.follow_imports = "normal"
    opts.ignore_missing_imports = True
    opts.show_traceback = True
    sources = create_source_list([PKG], opts)
    res = build.build(sources, opts)
    types = res.types

    def pos(n):
        return [
            getattr(n, "line", -1),
            getattr(n, "column", -1),
            getattr(n, "end_line", None) or -1,
            getattr(n, "end_column", None) or -1,
        ]

    def tstr(t):
        try:
            return str(t)
        except Exception:  # noqa: BLE001
            return "<?>"

    def callee_name(callee):
        """Resolve the callee of a CallExpr to a full name + kind."""
        if isinstance(callee, N.NameExpr):
            if callee.fullname:
                return callee.fullname, "name"
            return None, "name"
        if isinstance(callee, N.MemberExpr):
            # module attribute / class attribute with a fullname
            if callee.fullname:
                return callee.fullname, "member-ref"
            base_t = types.get(callee.expr)
            if base_t is not None:
                pt = get_proper_type(base_t)
                names = _type_owner_names(pt, callee.name)
                if names:
                    return "|".join(names), "method"
            return None, "member"
        if isinstance(callee, N.SuperExpr):
            return f"super::{callee.name}", "super"
        if isinstance(callee, N.CallExpr):
            return None, "call-result"
        return None, type(callee).__name__

    def _type_owner_names(pt, attr):
        from mypy.types import UnionType, TypeType, TypeVarType, AnyType, NoneType, TupleType

        out = []
        if isinstance(pt, Instance):
            info = pt.type
            for base in info.mro:
                if attr in base.names:
                    out.append(f"{base.fullname}.{attr}")
                    break
            else:
                out.append(f"{info.fullname}.{attr}?")
        elif isinstance(pt, UnionType):
            for it in pt.items:
                it = get_proper_type(it)
                if isinstance(it, NoneType):
                    continue
                out.extend(_type_owner_names(it, attr))
        elif isinstance(pt, TypeType):
            out.extend(_type_owner_names(get_proper_type(pt.item), attr))
        elif isinstance(pt, TypeVarType):
            out.extend(_type_owner_names(get_proper_type(pt.upper_bound), attr))
        elif isinstance(pt, TupleType):
            out.extend(_type_owner_names(get_proper_type(pt.partial_fallback), attr))
        elif isinstance(pt, CallableType) and pt.is_type_obj():
            # Class object: attribute looked up on the class
            out.extend(_type_owner_names(get_proper_type(pt.ret_type), attr))
        elif isinstance(pt, AnyType):
            out.append(f"<Any>.{attr}")
        return out

    mro: dict[str, list[str]] = {}

    def note_info(info):
        if info is None or not getattr(info, "fullname", None):
            return
        if info.fullname in mro:
            return
        try:
            mro[info.fullname] = [b.fullname for b in info.mro]
        except Exception:  # noqa: BLE001
            mro[info.fullname] = [info.fullname]

    out_mods = {}
    for modname, tree in res.files.items():
        if not (modname == PKG or modname.startswith(PKG + ".")):
            continue
        exprs = []
        calls = []
        refs = []
        seen = set()

        def walk(node):
            if id(node) in seen:
                return
            seen.add(id(node))
            if isinstance(node, N.Expression):
                t = types.get(node)
                if t is not None:
                    exprs.append(pos(node) + [type(node).__name__, tstr(t)])
                    pt = get_proper_type(t)
                    if isinstance(pt, Instance):
                        note_info(pt.type)
                if isinstance(node, N.CallExpr):
                    nm, kind = callee_name(node.callee)
                    argt = []
                    for a in node.args:
                        at = types.get(a)
                        argt.append(tstr(at) if at is not None else None)
                    calls.append(pos(node) + [nm, kind, argt])
                if isinstance(node, N.RefExpr) and node.fullname:
                    refs.append(pos(node) + [type(node).__name__, node.fullname])
                    if isinstance(node.node, N.TypeInfo):
                        note_info(node.node)
            # children only; never follow references
            for attr in _child_attrs(node):
                v = getattr(node, attr, None)
                if v is None:
                    continue
                if isinstance(v, N.Node):
                    walk(v)
                elif isinstance(v, (list, tuple)):
                    for it in v:
                        if isinstance(it, N.Node):
                            walk(it)
                        elif isinstance(it, (list, tuple)):
                            for it2 in it:
                                if isinstance(it2, N.Node):
                                    walk(it2)
                                elif isinstance(it2, tuple):
                                    for it3 in it2:
                                        if isinstance(it3, N.Node):
                                            walk(it3)

        walk(tree)
        out_mods[modname] = {"exprs": exprs, "calls": calls, "refs": refs, "path": tree.path}

    # MRO for everything reachable by name that rules may ask about
    for modname, tree in res.files.items():
        for name, sym in tree.names.items():
            if isinstance(sym.node, N.TypeInfo):
                if modname.startswith(
                    (PKG, "builtins", "asyncio", "marshmallow", "aiomqtt", "json", "awesomeversion", "aiofiles", "serial", "enum", "concurrent")
                ):
                    note_info(sym.node)
    errors = list(res.errors)
    with open(out, "w") as fh:
        json.dump({"modules": out_mods, "mro": mro, "errors": errors, "digest": None}, fh)
    sys.stdout.flush()
    os._exit(0)


_SKIP_ATTRS = {
    "node",
    "info",
    "type",
    "unanalyzed_type",
    "analyzed",
    "defs_",
    "names",
    "imports",
    "original_def",
    "impl_",
    "func_",
    "var",
    "type_annotation",
    "fullname",
    "upper_bound",
    "values",
    "default",
    "ref_expr",
    "def_expr",
}


def _child_attrs(node):
    from mypy import nodes as N

    cls = type(node)
    cached = _ATTR_CACHE.get(cls)
    if cached is not None:
        return cached
    names = []
    for a in dir(cls):
        if a.startswith("_") or a in _SKIP_ATTRS:
            continue
        names.append(a)
    # keep only attrs that are data (not methods)
    out = []
    for a in names:
        try:
            v = getattr(cls, a)
        except Exception:  # noqa: BLE001
            out.append(a)
            continue
        if callable(v) and not isinstance(v, property):
            # compiled attrs show up as member descriptors (not callable)
            continue
        out.append(a)
    # special: Decorator.func / .decorators, OverloadedFuncDef.items
    if cls is N.Decorator:
        out = ["func", "decorators"]
    _ATTR_CACHE[cls] = out
    return out


_ATTR_CACHE: dict = {}

if __name__ == "__main__":
    _child(sys.argv[1], sys.argv[2])
