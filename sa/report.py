"""Verdict plumbing: obligations, findings, known findings, evidence, exit codes."""

from __future__ import annotations

from dataclasses import dataclass, field
import json
import os
from pathlib import Path
import time

VERIF = Path(__file__).resolve().parent.parent
KNOWN = VERIF / "known_findings.json"

ASSUMPTIONS = {
    "A1": "single-threaded asyncio: task switches happen only at await",
    "A2": "library methods are not called re-entrantly from several tasks except as the property itself describes (C09: send concurrent with one listen)",
    "A3": "objects have their annotated types (mypy-strict code base) except values tainted by untrusted JSON, where the annotation is disbelieved",
    "A4": "strings handed to Transport.write come from MessageSchema.dump",
    "A5": "the external summary table (sa/summaries.py) is correct for the pinned library versions in /venv",
    "A6": "user-supplied Transport subclasses are out of scope; Transport.read/write are expanded to the built-in implementations",
    "A7": "the MQTT client is used between connect and disconnect (its RuntimeError state guards are typestate checks, premise re-verified)",
}


@dataclass
class Finding:
    prop: str
    rule: str
    key: str
    what: str
    loc: str = ""
    path: list = field(default_factory=list)
    extra: dict = field(default_factory=dict)


class Check:
    def __init__(self, prop: str, tier: str, seed: int, root: str) -> None:
        self.prop = prop
        self.tier = tier
        self.seed = seed
        self.root = root
        self.t0 = time.time()
        self.findings: list[Finding] = []
        self.rules: dict[str, dict] = {}
        self.samples: list = []
        self.constructs: set = set()
        self.assumptions: list[str] = []
        self.notes: dict = {}
        self.trusted: list[str] = []
        self.quiet = False
        self.errors: list[str] = []
        self.unconfirmed: list[dict] = []

    def run_rule(self, fn, *args) -> None:
        """Run one rule; an AnalysisError in it does not hide the verdicts of the other rules."""
        from .model import AnalysisError

        before = len(self.findings)
        try:
            fn(*args, self)
        except AnalysisError as err:
            self.errors.append(f"{getattr(fn, '__name__', 'rule')}: {err}")
            # a rule that could not complete its analysis (a construct without a model, a lost anchor) gives no verdict:
            # what it refuted up to that point rests on an incomplete picture of the code and is reported as
            # unconfirmed, not as a violation (the run still ends as an analysis error, never as a pass)
            demoted = self.findings[before:]
            del self.findings[before:]
            for f in demoted:
                self.rules[f.rule]["refuted"] -= 1
                self.rules[f.rule]["obligations"] -= 1
                self.unconfirmed.append({"rule": f.rule, "construct": f.key, "loc": f.loc, "what": f.what})

    # ---- recording

    def rule(self, rule: str, text: str) -> None:
        self.rules.setdefault(rule, {"statement": text, "instances": 0, "obligations": 0, "discharged": 0, "refuted": 0})

    def instance(self, rule: str, n: int = 1) -> None:
        self.rules[rule]["instances"] += n

    def ok(self, rule: str, construct: str, why: str, loc: str = "", sample: bool = True) -> None:
        r = self.rules[rule]
        r["obligations"] += 1
        r["discharged"] += 1
        self.constructs.add((rule, construct))
        if sample and len([s for s in self.samples if s.get("rule") == rule]) < 4:
            self.samples.append({"rule": rule, "construct": construct, "loc": loc, "verdict": "discharged", "by": why})

    def refute(self, rule: str, key: str, what: str, loc: str = "", path: list | None = None, **extra) -> None:
        r = self.rules[rule]
        r["obligations"] += 1
        r["refuted"] += 1
        self.constructs.add((rule, key))
        for f in self.findings:
            if f.rule == rule and f.key == key:
                return
        self.findings.append(Finding(self.prop, rule, key, what, loc, path or [], extra))
        if len([s for s in self.samples if s.get("verdict") == "refuted"]) < 6:
            self.samples.append({"rule": rule, "construct": key, "loc": loc, "verdict": "refuted", "what": what})

    def floor(self, rule: str, what: str, count: int, minimum: int) -> None:
        from .model import AnalysisError

        self.notes.setdefault("floors", {})[f"{rule}:{what}"] = {"count": count, "floor": minimum}
        if count < minimum:
            raise AnalysisError(f"{rule}: {what}: found {count} instance(s), below the floor {minimum} confirmed by reading - anchor lost")

    def assume(self, *ids: str) -> None:
        for i in ids:
            t = f"{i}: {ASSUMPTIONS[i]}"
            if t not in self.assumptions:
                self.assumptions.append(t)

    # ---- finishing

    def known(self) -> list[dict]:
        if not KNOWN.exists():
            return []
        data = json.loads(KNOWN.read_text())
        return [e for e in data.get("findings", []) if e.get("property") == self.prop]

    def finish(self, error: str | None = None) -> int:
        if error is None and self.errors:
            error = "; ".join(self.errors)
        known = self.known()
        open_known = {(e["rule"], e["key"]): e for e in known if e.get("status") == "open"}
        lines = []
        violations = []
        seen_known = set()
        for f in self.findings:
            k = (f.rule, f.key)
            if k in open_known:
                seen_known.add(k)
                lines.append(f"KNOWN-FINDING: property={self.prop} rule={f.rule} {f.key} :: {open_known[k].get('what', f.what)}")
            else:
                violations.append(f)
        rep_dir = VERIF / "reports"
        rep_dir.mkdir(exist_ok=True)
        for n, f in enumerate(violations):
            rp = rep_dir / f"{self.prop}-{n}.json"
            rp.write_text(
                json.dumps(
                    {
                        "property": f.prop,
                        "rule": f.rule,
                        "rule_statement": self.rules.get(f.rule, {}).get("statement", ""),
                        "key": f.key,
                        "what": f.what,
                        "location": f.loc,
                        "path": f.path,
                        "extra": f.extra,
                        "root": self.root,
                    },
                    indent=1,
                    default=str,
                )
            )
            lines.append(f"  [{f.rule}] {f.loc} {f.key}\n      {f.what}" + (f"\n      path: {' > '.join(f.path)}" if f.path else ""))
            lines.append(f"VIOLATION property={self.prop} replay={rp}")
        # evidence
        obligations = sum(r["obligations"] for r in self.rules.values())
        discharged = sum(r["discharged"] for r in self.rules.values())
        instances = sum(r["instances"] for r in self.rules.values())
        coverage = {
            "explanation": (
                "static analysis of /repo/src/aiomysensors (ast + mypy typed facts; no repository code executed): "
                "each rule enumerates constructs and attaches obligations that are discharged by an argument visible in the code or refuted at that construct"
            ),
            "evaluations": max(instances, obligations),
            "distinct_nontrivial": len(self.constructs),
            "rule": "an evaluation is one rule instance (a construct examined by a rule); distinct_nontrivial counts distinct (rule, construct) pairs that carried at least one obligation",
            "obligations": obligations,
            "discharged": discharged,
            "refuted": obligations - discharged,
            "known_findings_reported": len(seen_known),
            "rules": self.rules,
            "samples": self.samples or [{"note": "no obligations generated"}],
            "checker_cmd": f"/venv/bin/python /verif/vcheck.py {self.prop} --tier {self.tier}",
            "trusted_base": sorted(set(self.trusted)),
            "exhaustive": True,
            "notes": self.notes,
        }
        if error:
            coverage["analysis_error"] = error
        if self.unconfirmed:
            coverage["unconfirmed"] = self.unconfirmed[:20]
        ev = {
            "property_id": self.prop,
            "tier": self.tier,
            "seed": self.seed,
            "level": "other",
            "coverage": coverage,
            "assumptions": self.assumptions,
            "wall_s": round(time.time() - self.t0, 3),
            "violations": len(violations),
        }
        if self.root == "/repo" and not os.environ.get("VERIF_NO_EVIDENCE"):
            evd = VERIF / "evidence"
            evd.mkdir(exist_ok=True)
            (evd / f"{self.prop}.json").write_text(json.dumps(ev, indent=1, default=str))
        if not self.quiet:
            print(f"== {self.prop} tier={self.tier} root={self.root}")
            for rn, r in self.rules.items():
                print(f"  rule {rn}: instances={r['instances']} obligations={r['obligations']} discharged={r['discharged']} refuted={r['refuted']}")
            for ln in lines:
                print(ln)
        if violations:
            if error:
                print(f"  (also: ANALYSIS-ERROR in another rule: {error[:300]})")
            return 1
        if error:
            print(f"ANALYSIS-ERROR property={self.prop}: {error}")
            for u in self.unconfirmed[:6]:
                print(f"  (unconfirmed, the rule did not complete: [{u['rule']}] {u['loc']} {u['construct'][:160]})")
            return 2
        if not self.quiet:
            print(f"OK property={self.prop}: {discharged}/{obligations} obligations discharged" + (f", {len(seen_known)} known finding(s)" if seen_known else ""))
        return 0
