"""E6 exception-escape analysis (compositional, interprocedural, per version context)
with E8 taint for untrusted JSON and guard-fact discharge.

escapes(frame) = {(exception fullname, Site): call path} that can propagate out
of the function.  BaseException-only classes are not tracked.
"""

from __future__ import annotations

import ast
import copy
import re
from dataclasses import dataclass, field

from .interp import (
    Absent,
    Callee,
    ClassVal,
    Const,
    Frame,
    Interp,
    Target,
    UNKNOWN,
)
from .model import AnalysisError, ClassInfo, FuncInfo, Module, PKG, Program, norm
from . import summaries as S


def short_exc(exc: str) -> str:
    return exc.rsplit(".", 1)[-1]


@dataclass(frozen=True)
class Site:
    relpath: str
    line: int
    func: str
    text: str
    kind: str

    def key(self) -> str:
        return f"{self.func}::{self.kind}::{self.text}"

    def loc(self) -> str:
        return f"{self.relpath}:{self.line}"


@dataclass
class St:
    fr: Frame
    facts: frozenset = frozenset()
    caught: dict | None = None
    handler_var: str | None = None

    def replace(self, **kw) -> "St":
        d = dict(fr=self.fr, facts=self.facts, caught=self.caught, handler_var=self.handler_var)
        d.update(kw)
        return St(**d)


# triaged suppressions: one named construct each, with a reason and a premise re-verified each run
@dataclass
class Suppression:
    func: str  # fully qualified function (exact)
    text: str  # regex on the normalised construct text
    exc: str
    reason: str
    premise: str  # name of a premise checker EEA._premise_<name>
    assumption: str = ""


SUPPRESSIONS = [
    *[
        Suppression(
            "aiomysensors.*",
            r"\.readexactly\(\w+\.consumed\)$",
            exc_,
            "asyncio contract of LimitOverrunError: `consumed` bytes are in the reader's buffer when readuntil raises it, so readexactly(err.consumed) called at once in the handler returns without waiting (no EOF, n >= 0) and the reader's stored exception was None when readuntil was entered",
            "consumed_in_limit_handler",
        )
        for exc_ in ("asyncio.exceptions.IncompleteReadError", "builtins.OSError", "builtins.ValueError")
    ],
    Suppression(
        "aiomysensors.transport.mqtt.*",  # read() of the transport, or of the base class that owns the queue
        r"^self\.\w+\.task_done\(\)$",
        S.VE,
        "task_done() directly follows exactly one successful get() on the same queue in the same function",
        "task_done_follows_get",
    ),
    Suppression(
        "aiomysensors.transport.mqtt.*",  # read itself, or a helper it hands the dequeued item to
        r"raise RuntimeError$",
        "builtins.RuntimeError",
        "constructor-site invariant of ReceivedMessage: every ERROR message is built with error=<Exception>, every MESSAGE with message=<str>",
        "received_message_invariant",
    ),
    Suppression(
        "aiomysensors.transport.mqtt.MQTTClient.*",
        r"raise RuntimeError$",
        "builtins.RuntimeError",
        "typestate guard on self._client/self._incoming_task: unreachable between connect and disconnect",
        "mqtt_connected_typestate",
        "A7",
    ),
    Suppression(
        "aiomysensors.model.protocol.*",
        r"protocol\.Command\(\w+\.command\)$",
        S.VE,
        "message.command was validated against protocol.Command by CommandField (received) or the message is one the codec accepts (sent)",
        "command_validated",
    ),
    Suppression(
        "aiomysensors.transport.mqtt.MQTTTransport._parse_message_to_mqtt",
        r"^\w+(\.rstrip\(\))?\.(splitlines|split)\([^()]*\)\[(0|-1)\]$",
        S.IE,
        "the argument is a line produced by MessageSchema.dump (A4): never empty (it ends in a newline), and splitting a non-empty string yields at least one element",
        "dumped_line_first_element",
        "A4",
    ),
    Suppression(
        "aiomysensors.transport.mqtt.MQTTTransport._parse_message_to_mqtt",
        r".*",
        S.VE,
        "the argument is a line produced by MessageSchema.dump (A4): six ';'-joined fields whose 4th is str(int)",
        "dumped_line_shape",
        "A4",
    ),
]


_CMP_CACHE: dict = {}


def _cross_module_private(f: FuncInfo):
    """Selector for sa/inline.py: module-level functions of another module that are private to the package (a
    private name, or any function of a module whose name starts with an underscore)."""
    m = f.module
    sel = _CMP_CACHE.get(m.name)
    if sel is None:

        def sel(h, m=m):
            if h.module is m or h.cls is not None or h.name.startswith("__"):
                return False
            return h.name.startswith("_") or h.module.name.rsplit(".", 1)[-1].startswith("_")

        _CMP_CACHE[m.name] = sel
    return sel


def has_await_node(node: ast.AST) -> bool:
    return any(isinstance(x, (ast.Await, ast.AsyncFor, ast.AsyncWith)) for x in ast.walk(node))


class EEA:
    def __init__(self, interp: Interp, prune: bool = True) -> None:
        self.I = interp
        self.prog: Program = interp.prog
        self.prune = prune
        self.memo: dict = {}
        self.in_progress: set = set()
        self.recursive_hit: set = set()
        self.missing_summaries: dict[str, str] = {}
        self.unknown_calls: dict[str, str] = {}
        self.summaries_used: dict[str, str] = {}
        self.suppressions_used: list[str] = []
        self.discharged: list[dict] = []
        self.obligations = 0
        self.frames_analysed = 0
        self.call_sites_seen: set = set()
        self.call_sites_unresolved: set = set()
        self._calls_index: dict | None = None
        self._grow_only_cache: dict[str, bool] = {}
        self.connected_typestate = True
        self.assumptions_used: set = set()
        self._cur_schema_keys = None
        self.caught_log: dict = {}  # (exc, site) -> description of the handler that absorbs/converts it

    # ------------------------------------------------------------------ util

    def mro(self, exc: str) -> list[str]:
        if "." not in exc:
            import builtins as _b

            if isinstance(getattr(_b, exc, None), type) and issubclass(getattr(_b, exc), BaseException):
                exc = f"builtins.{exc}"  # a builtin exception class named without its module (an annotation, a table key)
        m = self.prog.mro_of(exc)
        if m is None:
            m = S.FALLBACK_MRO.get(exc)
        if m is None:
            raise AnalysisError(f"no MRO known for exception class {exc}")
        return m

    def issub(self, exc: str, base: str) -> bool:
        return base in self.mro(exc)

    def site(self, fr: Frame, node: ast.AST, kind: str, text: str | None = None) -> Site:
        # a statement of a helper written out into this frame's function is located in the file it was written in
        return Site(self.prog.origin(fr.module, node).relpath, getattr(node, "lineno", 0), fr.func.fq, text if text is not None else norm(node)[:160], kind)

    def _written_out(self, f: FuncInfo) -> FuncInfo:
        """f with the private helpers it calls from *other* modules written out (sa/inline.py): a helper that moved
        into a private module of the package (`_util.py`) is analysed in the context of its call - argument shapes,
        guard facts and triaged constructs of the caller keep applying.  Helpers of the same module stay calls
        (analysed as frames of their own)."""
        from .inline import inline

        if getattr(f, "original", None) is not None:
            return f
        return inline(self, f, _cross_module_private(f))

    def _one(self, exc: str, site: Site, fr: Frame) -> dict:
        if exc in S.BASE_ONLY:
            return {}
        return {(exc, site): (fr.func.fq,)}

    @staticmethod
    def merge(a: dict, b: dict) -> dict:
        if not b:
            return a
        if not a:
            return dict(b)
        out = dict(a)
        for k, v in b.items():
            out.setdefault(k, v)
        return out

    # ------------------------------------------------------------------ entry

    def escapes(self, fr: Frame) -> dict:
        key = fr.key()
        if key in self.memo:
            return self.memo[key]
        if key in self.in_progress:
            self.recursive_hit.add(key)
            return {}
        self.in_progress.add(key)
        try:
            res: dict = {}
            fi = self._written_out(fr.func)
            if fi is not fr.func:
                import dataclasses

                fr = dataclasses.replace(fr, callee=dataclasses.replace(fr.callee, func=fi))
            for _ in range(6):
                self.recursive_hit.discard(key)
                self.memo[key] = res
                self.frames_analysed += 1
                st = St(fr, facts=fr.facts)
                new, _ = self.block(fr.func.node.body, st)
                new = self._apply_suppressions(new)
                if new == res or key not in self.recursive_hit:
                    res = new
                    break
                res = new
            self.memo[key] = res
            return res
        finally:
            self.in_progress.discard(key)

    def escapes_of(self, func: FuncInfo, V: str | None, cls: ClassInfo | None = None, tainted: frozenset = frozenset()) -> dict:
        callee = self.I.make_callee(func, cls or func.cls)
        return self.escapes(Frame(callee, V, (), tainted))

    def _apply_suppressions(self, esc: dict) -> dict:
        if not esc:
            return esc
        import fnmatch
        import re

        out = {}
        for (exc, site), path in esc.items():
            sup = None
            for s in SUPPRESSIONS:
                # every triaged entry that names this construct is tried; one whose premise holds today discharges it
                if fnmatch.fnmatchcase(site.func, s.func) and s.exc == exc and re.search(s.text, site.text) and getattr(self, f"_premise_{s.premise}")(site):
                    sup = s
                    break
            if sup is not None:
                ok = True
                if ok:
                    tag = f"{site.func}::{site.text}::{short_exc(exc)} - {sup.reason}"
                    if tag not in self.suppressions_used:
                        self.suppressions_used.append(tag)
                    if sup.assumption:
                        self.assumptions_used.add(sup.assumption)
                    continue
            out[(exc, site)] = path
        return out

    # premises ---------------------------------------------------------

    def _premise_topic_levels_len(self, site: Site) -> bool:
        f = self._written_out(self.prog.func(site.func))  # helpers of private modules written out, as in the analysis
        la = self.I.local_assigns(f).get("topic_levels") or []
        if len(la) != 1 or not isinstance(la[0], ast.Call):
            return False
        c = la[0]
        if not (isinstance(c.func, ast.Attribute) and c.func.attr == "split" and len(c.args) == 1 and isinstance(c.args[0], ast.Constant) and c.args[0].value == "/"):
            return False
        base = c.func.value
        if not isinstance(base, ast.Name):
            return False
        la2 = self.I.local_assigns(f).get(base.id) or []
        if len(la2) != 1 or not isinstance(la2[0], ast.JoinedStr):
            return False
        js = la2[0]
        # count literal '/' guaranteed: constants in the f-string + the loop variable's literal domain
        n = sum(str(p.value).count("/") for p in js.values if isinstance(p, ast.Constant))
        for p in js.values:
            if isinstance(p, ast.FormattedValue) and isinstance(p.value, ast.Name):
                # a loop variable over a literal list of strings
                for node in self.I.own_nodes(f):
                    if isinstance(node, ast.For) and isinstance(node.target, ast.Name) and node.target.id == p.value.id and isinstance(node.iter, ast.Name):
                        la3 = self.I.local_assigns(f).get(node.iter.id) or []
                        if len(la3) == 1 and isinstance(la3[0], ast.List) and la3[0].elts and all(isinstance(e, ast.Constant) and isinstance(e.value, str) for e in la3[0].elts):
                            n += min(e.value.count("/") for e in la3[0].elts)
                            continue
                    if isinstance(node, ast.For) and isinstance(node.target, ast.Name) and node.target.id == p.value.id:
                        # a constant sequence of strings kept elsewhere (module constant, field of a record constant)
                        it = node.iter
                        if isinstance(it, ast.Name):
                            la3 = self.I.local_assigns(f).get(it.id) or []
                            if len(la3) == 1 and isinstance(la3[0], ast.expr):
                                it = la3[0]
                        try:
                            seq = self.I.folder.plain(self.I.folder.fold(f.module, it))
                        except Exception:  # noqa: BLE001
                            seq = None
                        if isinstance(seq, (tuple, list)) and seq and all(isinstance(x, str) for x in seq):
                            n += min(x.count("/") for x in seq)
        m = site.text
        idx = 2
        return n + 1 >= idx

    def _premise_consumed_in_limit_handler(self, site: Site) -> bool:
        """`<R>.readexactly(<e>.consumed)` sits in `except ... LimitOverrunError as <e>` of a try whose body awaits
        `<R>.readuntil(...)`, with no suspension point before it in the handler."""
        f = self._written_out(self.prog.func(site.func))  # helpers of private modules written out, as in the analysis
        for n in self.I.own_nodes(f):
            if not (isinstance(n, ast.Call) and n.lineno == site.line and isinstance(n.func, ast.Attribute) and n.func.attr == "readexactly" and len(n.args) == 1):
                continue
            a = n.args[0]
            if not (isinstance(a, ast.Attribute) and a.attr == "consumed" and isinstance(a.value, ast.Name)):
                return False
            cur = n
            handler = None
            while cur in self.prog.parents and cur is not f.node:
                cur = self.prog.parents[cur]
                if isinstance(cur, ast.ExceptHandler):
                    handler = cur
                    break
            if handler is None and a.value.id in f.params and not any(has_await_node(st_) and not any(x is n for x in ast.walk(st_)) for st_ in f.node.body if st_.lineno < n.lineno):
                # the drop lives in a private helper: every call of it must sit in such a handler and pass the
                # handler's exception; the rest of the premise is then checked at each call
                idx = [p for p in f.positional_params if p not in ("self", "cls")].index(a.value.id) if a.value.id in f.positional_params else None
                sites = []
                for g_ in self.prog.all_functions():
                    for c in self.I.own_nodes(g_):
                        if isinstance(c, ast.Call) and ((isinstance(c.func, ast.Attribute) and c.func.attr == f.name) or (isinstance(c.func, ast.Name) and c.func.id == f.name)):
                            sites.append((g_, c))
                if idx is None or not sites:
                    return False
                for g_, c in sites:
                    arg = c.args[idx] if idx < len(c.args) else next((k.value for k in c.keywords if k.arg == a.value.id), None)
                    cur2, h2 = c, None
                    while cur2 in self.prog.parents and cur2 is not g_.node:
                        cur2 = self.prog.parents[cur2]
                        if isinstance(cur2, ast.ExceptHandler):
                            h2 = cur2
                            break
                    if h2 is None or not isinstance(arg, ast.Name) or h2.name != arg.id or h2.type is None:
                        return False
                    elts2 = h2.type.elts if isinstance(h2.type, ast.Tuple) else [h2.type]
                    if not all(norm(x).endswith("LimitOverrunError") for x in elts2):
                        return False
                    tr2 = self.prog.parents.get(h2)
                    recv2 = norm(n.func.value)
                    if not isinstance(tr2, ast.Try) or not any(isinstance(x, ast.Call) and isinstance(x.func, ast.Attribute) and x.func.attr == "readuntil" and norm(x.func.value) == recv2 for b in tr2.body for x in ast.walk(b)):
                        return False
                    for st_ in h2.body:
                        if any(x is c for x in ast.walk(st_)):
                            break
                        if has_await_node(st_):
                            return False
                return True
            if handler is None or handler.name != a.value.id or handler.type is None:
                return False
            elts = handler.type.elts if isinstance(handler.type, ast.Tuple) else [handler.type]
            if not all(norm(x).endswith("LimitOverrunError") for x in elts):
                return False
            tr = self.prog.parents.get(handler)
            if not isinstance(tr, ast.Try):
                return False
            recv = norm(n.func.value)
            if not any(isinstance(x, ast.Call) and isinstance(x.func, ast.Attribute) and x.func.attr == "readuntil" and norm(x.func.value) == recv for b in tr.body for x in ast.walk(b)):
                return False
            # nothing awaited before it in the handler
            for st_ in handler.body:
                if any(x is n for x in ast.walk(st_)):
                    return True
                if has_await_node(st_):
                    return False
        return False

    def _premise_task_done_follows_get(self, site: Site) -> bool:
        f = self._written_out(self.prog.func(site.func))  # helpers of private modules written out, as in the analysis
        body = f.node.body
        stmts = [s for s in body if not (isinstance(s, ast.Expr) and isinstance(s.value, ast.Constant))]
        if len(stmts) < 2:
            return False
        a, b = stmts[0], stmts[1]
        qs = {f"self.{q}" for q in self.queue_attrs()}
        ok_a = isinstance(a, ast.Assign) and isinstance(a.value, ast.Await) and isinstance(a.value.value, ast.Call) and isinstance(a.value.value.func, ast.Attribute) and a.value.value.func.attr == "get" and norm(a.value.value.func.value) in qs
        ok_b = isinstance(b, ast.Expr) and isinstance(b.value, ast.Call) and isinstance(b.value.func, ast.Attribute) and b.value.func.attr == "task_done" and ok_a and norm(b.value.func.value) == norm(a.value.value.func.value)
        n_done = sum(1 for n in self.I.own_nodes(f) if isinstance(n, ast.Call) and norm(n.func).endswith(".task_done"))
        return bool(ok_a and ok_b and n_done == 1)

    def queue_attrs(self) -> set:
        """Names under which the MQTT transport's receive queue is reached on `self`: the attribute its constructor
        chain binds to a Queue construction, and properties that only return that attribute."""
        cached = getattr(self, "_queue_attrs", None)
        if cached is not None:
            return cached
        out: set = set()
        d = self.prog.lookup_fullname("aiomysensors.transport.mqtt.MQTTTransport")
        if d is not None and d.kind == "class":
            for c in d.obj.repo_mro():
                for init in c.methods.get("__init__", []):
                    for n in ast.walk(init.node):
                        if isinstance(n, (ast.Assign, ast.AnnAssign)) and isinstance(n.value, ast.Call) and norm(n.value.func).rsplit(".", 1)[-1].endswith("Queue"):
                            for t in n.targets if isinstance(n, ast.Assign) else [n.target]:
                                if isinstance(t, ast.Attribute) and isinstance(t.value, ast.Name) and t.value.id == init.positional_params[0]:
                                    out.add(t.attr)
            for c in d.obj.repo_mro():
                for nm, fl in c.methods.items():
                    for f in fl:
                        if "property" in f.decorator_names and not f.is_setter():
                            body = [s for s in f.node.body if not (isinstance(s, ast.Expr) and isinstance(s.value, ast.Constant))]
                            if len(body) == 1 and isinstance(body[0], ast.Return) and isinstance(body[0].value, ast.Attribute) and isinstance(body[0].value.value, ast.Name) and body[0].value.attr in out:
                                out.add(nm)
        if not out:
            out = {"_incoming_messages"}
        self._queue_attrs = out
        return out

    def _enclosing_if_tests(self, f: FuncInfo, line: int) -> list[ast.expr]:
        """Tests of the `if` statements whose *body* contains the given line."""
        out = []
        for n in self.I.own_nodes(f):
            if isinstance(n, ast.If):
                for b in n.body:
                    if b.lineno <= line <= (b.end_lineno or b.lineno):
                        out.append(n.test)
        return out

    def _premise_received_message_invariant(self, site: Site) -> bool:
        f = self._written_out(self.prog.func(site.func))  # helpers of private modules written out, as in the analysis
        # path condition: under the invariant (ERROR items carry an error, MESSAGE items carry a message) no path
        # reaches the raise - whatever the shape of the branches
        from .cfg import CFG
        from .prov import Canon

        g = CFG(f.node)
        cn = Canon(self.I, f, "")
        targets = [n for n in g.nodes if isinstance(n.ast, ast.Raise) and n.ast.lineno == site.line]
        if not targets:
            return False

        def oracle(scn):
            def ev(e):
                if isinstance(e, ast.NamedExpr):
                    return ev(e.value)
                if isinstance(e, ast.UnaryOp) and isinstance(e.op, ast.Not):
                    v = ev(e.operand)
                    return None if v is None else not v
                if isinstance(e, ast.BoolOp):
                    vs = [ev(x) for x in e.values]
                    if isinstance(e.op, ast.And):
                        return False if any(v is False for v in vs) else True if all(v is True for v in vs) else None
                    return True if any(v is True for v in vs) else False if all(v is False for v in vs) else None
                if isinstance(e, ast.Compare) and len(e.ops) == 1 and isinstance(e.ops[0], (ast.Is, ast.IsNot, ast.Eq, ast.NotEq)):
                    left = e.left.value if isinstance(e.left, ast.NamedExpr) else e.left
                    L, R = cn.canon(left), norm(e.comparators[0])
                    neg = isinstance(e.ops[0], (ast.IsNot, ast.NotEq))
                    v = None
                    if L.endswith(".message_type") and R.rsplit(".", 1)[-1] in ("ERROR", "MESSAGE"):
                        v = scn == R.rsplit(".", 1)[-1]
                    elif R == "None" and L.endswith(".error") and scn == "ERROR":
                        v = False
                    elif R == "None" and L.endswith(".message") and scn == "MESSAGE":
                        v = False
                    return None if v is None else (v != neg)
                return None

            return lambda n: ev(n.ast)

        for scn in ("ERROR", "MESSAGE"):
            if g.reach_avoiding([g.entry], lambda x: x in targets, lambda x: False, labels_skip=("exc",), from_succ=False, truth=oracle(scn)) is not None:
                return False
        cls = self.prog.lookup_fullname("aiomysensors.transport.mqtt.ReceivedMessage")
        if cls is None or cls.kind != "class":
            return False
        sites = self.calls_index().get(cls.obj.fq, [])
        if not sites:
            return False
        def check(kws: dict) -> bool:
            """kws: field -> (module, expression)"""
            if "message_type" not in kws:
                return False
            mt = norm(kws["message_type"][1])
            need = "error" if mt.endswith(".ERROR") else "message" if mt.endswith(".MESSAGE") else None
            if need is None or need not in kws:
                return False
            m_, e_ = kws[need]
            t = self.prog.type_of(m_, e_) or ""
            return bool(t) and "None" not in t and t != "Any"

        for g, call in sites:
            if call.args:
                return False
            kws = {kw.arg: (g.module, kw.value) for kw in call.keywords if kw.arg}
            pnames = {p for p in g.params if p not in ("self", "cls")}
            through = {k: v[1].id for k, v in kws.items() if isinstance(v[1], ast.Name) and v[1].id in pnames}
            if not through:
                if not check(kws):
                    return False
                continue
            # the constructor call sits in a helper that is handed the tag / the values: the invariant is checked at
            # every call of that helper, with its parameters replaced by the arguments (a missing one by its default)
            rebound = {n.id for n in ast.walk(g.node) if isinstance(n, ast.Name) and isinstance(n.ctx, ast.Store)}
            if set(through.values()) & rebound:
                return False
            pos = [p for p in g.positional_params if not (p in ("self", "cls") and g.cls is not None and not g.is_staticmethod())]
            n_calls = 0
            for h in self.prog.all_functions():
                for c in self.I.own_nodes(h):
                    if not isinstance(c, ast.Call) or h is g:
                        continue
                    fn = c.func
                    nm = fn.attr if isinstance(fn, ast.Attribute) else fn.id if isinstance(fn, ast.Name) else None
                    if nm != g.name:
                        continue
                    n_calls += 1
                    if any(isinstance(a, ast.Starred) for a in c.args) or any(kw.arg is None for kw in c.keywords):
                        return False
                    bound = {p: (h.module, a) for p, a in zip(pos, c.args)}
                    bound.update({kw.arg: (h.module, kw.value) for kw in c.keywords})
                    kws2 = dict(kws)
                    for fld, p in through.items():
                        if p in bound:
                            kws2[fld] = bound[p]
                        else:
                            d = g.param_default(p)
                            if d is None:
                                return False
                            kws2[fld] = (g.module, d)
                    if not check(kws2):
                        return False
            refs = sum(1 for h in self.prog.all_functions() for x in self.I.own_nodes(h) if (isinstance(x, ast.Attribute) and x.attr == g.name or isinstance(x, ast.Name) and x.id == g.name) and not (isinstance(self.prog.parents.get(x), ast.Call) and self.prog.parents[x].func is x))
            if not n_calls or refs:
                return False
        return True

    def _premise_mqtt_connected_typestate(self, site: Site) -> bool:
        f = self._written_out(self.prog.func(site.func))  # helpers of private modules written out, as in the analysis
        tests = self._enclosing_if_tests(f, site.line)
        if not tests:
            return False
        for t in tests:
            names = {norm(n) for n in ast.walk(t) if isinstance(n, ast.Attribute)}
            if not names or not names <= {"self._client", "self._incoming_task"}:
                return False
        # _connect leaves both attributes set on every normal exit (whatever the shape of its statements)
        c = f.cls
        if c is None:
            return False
        conn = c.find_method("_connect")
        if conn is None:
            return False
        from .cfg import CFG

        g = CFG(conn.node)
        for attr in ("_client", "_incoming_task"):
            stores = [n for n in g.nodes if n.kind == "stmt" and isinstance(n.ast, (ast.Assign, ast.AnnAssign)) and any(isinstance(t, ast.Attribute) and t.attr == attr and isinstance(t.value, ast.Name) and t.value.id == "self" for t in (n.ast.targets if isinstance(n.ast, ast.Assign) else [n.ast.target])) and n.ast.value is not None and not (isinstance(n.ast.value, ast.Constant) and n.ast.value.value is None)]
            if not stores:
                return False
            if g.reach_avoiding([g.entry], lambda x: x is g.exit, lambda x: x in stores, labels_skip=("exc",), from_succ=False) is not None:
                return False
        return True

    def _premise_command_validated(self, site: Site) -> bool:
        from .rules import codec

        return codec.command_membership_enforced(self.I)

    def _premise_dumped_line_first_element(self, site: Site) -> bool:
        """The subscripted split is applied to the function's line parameter itself."""
        f = self.prog.func(site.func)
        params = [p for p in f.positional_params if p not in ("self", "cls")]
        return bool(params) and site.text.split(".", 1)[0] == params[0] and not any(isinstance(n, ast.Name) and n.id == params[0] and isinstance(n.ctx, ast.Store) for n in ast.walk(f.node))

    def _premise_dumped_line_shape(self, site: Site) -> bool:
        from .rules import codec

        f = self._written_out(self.prog.func(site.func))  # helpers of private modules written out, as in the analysis
        if codec.bounded_six_way_split(self.I, getattr(f, "original", f)) is not None:
            return True
        # the split may live in a helper of a private module that the function calls (written out for the analysis)
        fi = self._written_out(f)
        return any(codec.bounded_six_way_split(self.I, h) is not None for h in getattr(fi, "inlined_funcs", []))

    # ------------------------------------------------------------------ blocks

    def block(self, stmts: list, st: St):
        esc: dict = {}
        cur: St | None = st
        for s in stmts:
            if cur is None:
                break
            e, cur = self.stmt(s, cur)
            esc = self.merge(esc, e)
        return esc, cur

    def _kill_on_await(self, node: ast.AST, st: St) -> St:
        if not st.facts:
            return st
        has_await = any(isinstance(n, (ast.Await, ast.AsyncFor, ast.AsyncWith, ast.Yield, ast.YieldFrom)) for n in ast.walk(node))
        if not has_await:
            return st
        keep = frozenset(f for f in st.facts if f[0] == "isdict" or (f[0] == "in" and self.grow_only(f[2])))
        return st.replace(facts=keep)

    def grow_only(self, container_text: str) -> bool:
        """No removal (pop/del/clear/popitem) from a container with this trailing attribute anywhere."""
        attr = container_text.rsplit(".", 1)[-1]
        if not attr.isidentifier():
            return False
        if attr in self._grow_only_cache:
            return self._grow_only_cache[attr]
        ok = True
        for m in self.prog.modules.values():
            for n in ast.walk(m.tree):
                if isinstance(n, ast.Call) and isinstance(n.func, ast.Attribute) and n.func.attr in ("pop", "popitem", "clear"):
                    if norm(n.func.value).rsplit(".", 1)[-1] == attr:
                        ok = False
                elif isinstance(n, ast.Delete):
                    for t in n.targets:
                        if isinstance(t, ast.Subscript) and norm(t.value).rsplit(".", 1)[-1] == attr:
                            ok = False
        self._grow_only_cache[attr] = ok
        return ok

    def _kill_names(self, names: set, st: St) -> St:
        if not st.facts or not names:
            return st

        def mentions(text: str) -> bool:
            try:
                tree = ast.parse(text, mode="eval")
            except SyntaxError:
                return True
            return any(isinstance(n, ast.Name) and n.id in names for n in ast.walk(tree))

        keep = frozenset(f for f in st.facts if not any(mentions(x) for x in f[1:] if isinstance(x, str)))
        return st.replace(facts=keep)

    def _kill_mutations(self, node: ast.AST, st: St) -> St:
        if not st.facts:
            return st
        killed = set()
        for n in ast.walk(node):
            if isinstance(n, ast.Call) and isinstance(n.func, ast.Attribute) and n.func.attr in ("pop", "popitem", "clear"):
                killed.add(norm(n.func.value))
            elif isinstance(n, ast.Delete):
                for t in n.targets:
                    if isinstance(t, ast.Subscript):
                        killed.add(norm(t.value))
        if not killed:
            return st
        keep = frozenset(f for f in st.facts if not (f[0] == "in" and f[2] in killed))
        return st.replace(facts=keep)

    # ------------------------------------------------------------------ statements

    def stmt(self, s: ast.stmt, st: St):
        I = self.I
        fr = st.fr
        if isinstance(s, (ast.FunctionDef, ast.AsyncFunctionDef, ast.ClassDef, ast.Pass, ast.Global, ast.Nonlocal, ast.Import, ast.ImportFrom)):
            return {}, st
        if isinstance(s, ast.Expr):
            e = self.expr(s.value, st)
            st2 = self._kill_mutations(s, self._kill_on_await(s, st))
            extra = self._guard_call_facts(s.value, st)
            if extra:
                st2 = st2.replace(facts=st2.facts | extra)
            return e, st2
        if isinstance(s, (ast.Assign, ast.AnnAssign, ast.AugAssign)):
            value = s.value
            e: dict = {}
            if value is not None:
                e = self.expr(value, st)
            targets = s.targets if isinstance(s, ast.Assign) else [s.target]
            st2 = self._kill_mutations(s, self._kill_on_await(s, st))
            names: set = set()
            for t in targets:
                e = self.merge(e, self.assign_target(t, value, st))
                for n in ast.walk(t):
                    if isinstance(n, ast.Name) and isinstance(n.ctx, ast.Store):
                        names.add(n.id)
            # chaining idiom `m = await next_handler(..., m, ...)`: handlers return the message they were given
            # (LISTEN-1, checked by C04), so facts about m survive the rebinding
            chained = None
            if len(targets) == 1 and isinstance(targets[0], ast.Name) and isinstance(value, ast.Await) and isinstance(value.value, ast.Call):
                if any(isinstance(a, ast.Name) and a.id == targets[0].id for a in value.value.args):
                    chained = targets[0].id
                    names.discard(chained)
            st2 = self._kill_names(names, st2)
            # env / taint update
            fr2 = st2.fr
            tainted = set(fr2.tainted)
            for t in targets:
                if isinstance(t, ast.Name):
                    is_t = value is not None and (I.expr_tainted(value, fr) or self._taint_source(value, fr))
                    if is_t:
                        tainted.add(t.id)
                    else:
                        tainted.discard(t.id)
                    if fr2.lookup(t.id) is not None and t.id != chained:
                        vals = I.eval(value, fr) if value is not None else frozenset([UNKNOWN])
                        fr2 = fr2.bind(t.id, vals)
                elif isinstance(t, (ast.Tuple, ast.List)):
                    for el in ast.walk(t):
                        if isinstance(el, ast.Name):
                            if value is not None and I.expr_tainted(value, fr):
                                tainted.add(el.id)
                            else:
                                tainted.discard(el.id)
                            fr2 = fr2.unbind(el.id)
            fr2 = fr2.with_taint(frozenset(tainted))
            return e, st2.replace(fr=fr2)
        if isinstance(s, ast.Return):
            e = self.expr(s.value, st) if s.value is not None else {}
            return e, None
        if isinstance(s, ast.Raise):
            return self.raise_stmt(s, st), None
        if isinstance(s, ast.If):
            return self.if_stmt(s, st)
        if isinstance(s, ast.While):
            return self.loop(s, st, test=s.test)
        if isinstance(s, (ast.For, ast.AsyncFor)):
            return self.for_stmt(s, st)
        if isinstance(s, (ast.With, ast.AsyncWith)):
            return self.with_stmt(s, st)
        if isinstance(s, ast.Try):
            return self.try_stmt(s, st)
        if isinstance(s, (ast.Break, ast.Continue)):
            return {}, None
        if isinstance(s, ast.Delete):
            e = {}
            for t in s.targets:
                if isinstance(t, ast.Subscript):
                    e = self.merge(e, self.expr(t.value, st))
                    e = self.merge(e, self.expr(t.slice, st))
                    e = self.merge(e, self.subscript_raises(t, st, deleting=True))
            return e, self._kill_mutations(s, st)
        if isinstance(s, ast.Assert):
            e = self.expr(s.test, st)
            e = self.merge(e, self._one("builtins.AssertionError", self.site(fr, s, "assert"), fr))
            return e, st
        raise AnalysisError(f"statement kind {type(s).__name__} not modelled at {fr.module.relpath}:{s.lineno}")

    def _guard_call_facts(self, value: ast.expr, st: St, _depth: int = 0) -> frozenset:
        """`helper(args)` where helper's body is `if <k> not in <d>: raise ...` (a membership guard extracted into
        a function): after the call returned normally `<k> in <d>` holds, with the helper's parameters replaced
        by the arguments and self/cls by the receiver."""
        call = value.value if isinstance(value, ast.Await) else value
        if not isinstance(call, ast.Call):
            return frozenset()
        fr = st.fr
        try:
            targets = self.I.resolve_call(call, fr, facts=st.facts)
        except AnalysisError:
            return frozenset()
        hs = {t.frame.func for t in targets if t.kind == "repo" and t.frame is not None}
        if len(hs) != 1 or len(targets) != 1:
            return frozenset()
        h = next(iter(hs))
        if has_await_node(h.node):
            return frozenset()
        body = list(h.node.body)
        if body and isinstance(body[0], ast.Expr) and isinstance(body[0].value, ast.Constant):
            body = body[1:]
        guards = []
        nested: list = []
        # guard written the other way round: `if k in d: return` ... `raise`  ==  `if k not in d: raise`
        if len(body) == 2 and isinstance(body[0], ast.If) and not body[0].orelse and len(body[0].body) == 1 and isinstance(body[0].body[0], ast.Return) and (body[0].body[0].value is None or isinstance(body[0].body[0].value, ast.Constant)) and isinstance(body[1], ast.Raise) and isinstance(body[0].test, ast.Compare) and len(body[0].test.ops) == 1 and isinstance(body[0].test.ops[0], ast.In):
            t0 = body[0].test
            neg = ast.copy_location(ast.Compare(left=t0.left, ops=[ast.NotIn()], comparators=t0.comparators), t0)
            body = [ast.copy_location(ast.If(test=neg, body=[body[1]], orelse=[]), body[0])]
        for b in body:
            if isinstance(b, ast.If) and not b.orelse and b.body and isinstance(b.body[-1], ast.Raise) and isinstance(b.test, ast.Compare) and len(b.test.ops) == 1 and isinstance(b.test.ops[0], ast.NotIn):
                guards.append((b.test.left, b.test.comparators[0]))
            elif isinstance(b, ast.Return) and (b.value is None or isinstance(b.value, ast.Constant)):
                continue
            elif isinstance(b, ast.Expr) and isinstance(b.value, ast.Call) and _depth < 3:
                # a guard helper that first calls another guard helper (require_child -> require_node)
                sub_facts = self._guard_call_facts(b.value, St(Frame(self.I.make_callee(h, h.cls), fr.V, (), frozenset())), _depth + 1)
                if not sub_facts:
                    return frozenset()
                nested.extend(sub_facts)
            elif self._keeps_containers(b, h):
                continue  # validation / bookkeeping that cannot remove an entry from any container
            else:
                return frozenset()  # anything else could change the containers again
        if not guards and not nested:
            return frozenset()
        # a parameter that appears in a guard must not be re-bound by the helper
        bound_ = {n_.id for n_ in ast.walk(h.node) if isinstance(n_, ast.Name) and isinstance(n_.ctx, (ast.Store, ast.Del))}
        if any(isinstance(n_, ast.Name) and n_.id in bound_ for k_, d_ in guards for n_ in list(ast.walk(k_)) + list(ast.walk(d_))):
            return frozenset()
        params = list(h.positional_params)
        sub: dict[str, ast.expr] = {}
        if h.cls is not None and not h.is_staticmethod() and params and isinstance(call.func, ast.Attribute):
            sub[params[0]] = call.func.value
            params = params[1:]
        for p_, a in zip(params, call.args):
            sub[p_] = a
        for kw in call.keywords:
            if kw.arg:
                sub[kw.arg] = kw.value

        class _Sub(ast.NodeTransformer):
            def visit_Name(self, node):
                return copy.deepcopy(sub[node.id]) if node.id in sub and isinstance(node.ctx, ast.Load) else node

        out = set()
        for k, d in guards:
            k2, d2 = _Sub().visit(copy.deepcopy(k)), _Sub().visit(copy.deepcopy(d))
            out.add(("in", norm(k2), norm(d2)))
        for fact in nested:
            # facts of the inner helper are phrased in this helper's parameters: rename them to the arguments
            if fact[0] != "in":
                continue
            try:
                k2 = _Sub().visit(ast.parse(fact[1], mode="eval").body)
                d2 = _Sub().visit(ast.parse(fact[2], mode="eval").body)
            except SyntaxError:
                continue
            out.add(("in", norm(k2), norm(d2)))
        return frozenset(out)

    _TOTAL_BUILTINS = ("int", "float", "str", "round", "len", "isinstance", "bool", "abs", "min", "max", "repr")

    def _keeps_containers(self, stmt: ast.stmt, h) -> bool:
        """A statement of a guard helper that cannot remove an entry from any mapping: no suspension point, no `del`, no
        call other than value conversions and exception constructors, no store other than into a local name or an
        attribute of an object (not a subscript, not an attribute that holds a container named in a guard)."""
        for n in ast.walk(stmt):
            if isinstance(n, (ast.Await, ast.Delete, ast.Yield, ast.YieldFrom, ast.AsyncFor, ast.AsyncWith, ast.With, ast.For, ast.While, ast.Global, ast.Nonlocal, ast.FunctionDef, ast.AsyncFunctionDef, ast.Lambda, ast.NamedExpr)):
                return False
            if isinstance(n, ast.Call):
                if isinstance(n.func, ast.Name) and n.func.id in self._TOTAL_BUILTINS:
                    continue
                c = self._exc_class_in(h.module, n.func) if isinstance(n.func, (ast.Name, ast.Attribute)) else None
                if c and self._is_exception_class(c):
                    continue
                return False
            if isinstance(n, (ast.Assign, ast.AnnAssign, ast.AugAssign)):
                tg = n.targets if isinstance(n, ast.Assign) else [n.target]
                for t in tg:
                    if isinstance(t, ast.Name):
                        continue
                    if isinstance(t, ast.Attribute) and t.attr not in ("nodes", "children", "values", "set_messages", "internal_messages"):
                        continue
                    return False
        return True

    def _taint_source(self, value: ast.expr, fr: Frame) -> bool:
        v = value.value if isinstance(value, ast.Await) else value
        if isinstance(v, ast.Call):
            fact = self.prog.call_fact(fr.module, v)
            if fact and fact[0] in S.SUMMARIES and S.SUMMARIES[fact[0]].taints_result:
                return True
        return False

    def assign_target(self, t: ast.expr, value: ast.expr | None, st: St) -> dict:
        fr = st.fr
        e: dict = {}
        if isinstance(t, ast.Name):
            return e
        if isinstance(t, ast.Attribute):
            e = self.expr(t.value, st)
            # property setter?
            bt = self.prog.type_of(fr.module, t.value)
            c = self._repo_class_of_type(bt)
            if c is None and isinstance(t.value, ast.Name) and fr.func.cls is not None and fr.func.positional_params[:1] == [t.value.id] and not fr.func.is_staticmethod():
                c = fr.callee.cls or fr.func.cls  # `self` typed as Self (a type variable) in methods returning Self
            if c is not None:
                for cand in c.repo_mro():
                    for f in cand.methods.get(t.attr, []):
                        if f.is_setter():
                            callee = self.I.make_callee(f, c)
                            sub = self.escapes(Frame(callee, fr.V, (), frozenset()))
                            e = self.merge(e, self._through(sub, fr))
                            return e
            return e
        if isinstance(t, ast.Subscript):
            e = self.expr(t.value, st)
            e = self.merge(e, self.expr(t.slice, st))
            bt = self.prog.type_of(fr.module, t.value) or ""
            if self.I.expr_tainted(t.value, fr) and ("isdict", norm(t.value)) not in st.facts:
                e = self.merge(e, self._one(S.TE, self.site(fr, t, "tainted-store"), fr))
            elif bt.startswith(("builtins.list", "list[")):
                e = self.merge(e, self._one(S.IE, self.site(fr, t, "list-store"), fr))
            return e
        if isinstance(t, (ast.Tuple, ast.List)):
            for el in t.elts:
                e = self.merge(e, self.assign_target(el, None, st))
            if value is not None:
                e = self.merge(e, self.unpack_raises(t, value, st))
            return e
        if isinstance(t, ast.Starred):
            return self.assign_target(t.value, None, st)
        return e

    def unpack_raises(self, target, value: ast.expr, st: St) -> dict:
        fr = st.fr
        v = value.value if isinstance(value, ast.Await) else value
        vt = self.prog.type_of(fr.module, value) or self.prog.type_of(fr.module, v) or ""
        n = len(target.elts)
        if any(isinstance(e, ast.Starred) for e in target.elts):
            return {}
        if vt.startswith(("tuple[", "Tuple[", "builtins.tuple[")) and "..." not in vt:
            return {}
        if isinstance(v, (ast.Tuple, ast.List)) and len(v.elts) == n:
            return {}
        self.obligations += 1
        return self._one(S.VE, self.site(fr, value, "unpack", f"{norm(target)} = {norm(value)[:100]}"), fr)

    def _repo_class_of_type(self, t: str | None) -> ClassInfo | None:
        if not t:
            return None
        t = t.split("[")[0].strip()
        if " | " in t:
            parts = [x for x in t.split(" | ") if x != "None"]
            t = parts[0] if parts else t
        if t.startswith(PKG + "."):
            d = self.prog.lookup_fullname(t)
            if d is not None and d.kind == "class":
                return d.obj
        return None

    # ---- control flow

    def if_stmt(self, s: ast.If, st: St):
        I = self.I
        e = self.expr(s.test, st)
        st = self._kill_mutations(s.test, self._kill_on_await(s.test, st))
        # `if (name := <tainted>)`: the name carries the taint into both branches
        walrus = [n for n in ast.walk(s.test) if isinstance(n, ast.NamedExpr) and isinstance(n.target, ast.Name)]
        if walrus:
            tainted = set(st.fr.tainted)
            for n in walrus:
                if I.expr_tainted(n.value, st.fr) or self._taint_source(n.value, st.fr):
                    tainted.add(n.target.id)
                else:
                    tainted.discard(n.target.id)
            st = st.replace(fr=st.fr.with_taint(frozenset(tainted)))
        t = I.truth(s.test, st.fr) if self.prune else None
        pos, neg = self.facts_of_test(s.test, st)
        outs = []
        if t is not False:
            st_t = st.replace(fr=I.narrow(s.test, st.fr, True), facts=st.facts | pos)
            e1, o1 = self.block(s.body, st_t)
            e = self.merge(e, e1)
            outs.append(o1)
        if t is not True:
            st_f = st.replace(fr=I.narrow(s.test, st.fr, False), facts=st.facts | neg)
            e2, o2 = self.block(s.orelse, st_f) if s.orelse else ({}, st_f)
            e = self.merge(e, e2)
            outs.append(o2)
        return e, self.join(outs)

    def join(self, outs: list) -> St | None:
        live = [o for o in outs if o is not None]
        if not live:
            return None
        if len(live) == 1:
            return live[0]
        facts = live[0].facts
        tainted = set(live[0].fr.tainted)
        for o in live[1:]:
            facts = facts & o.facts
            tainted |= set(o.fr.tainted)
        # env: keep only bindings equal in all branches, union otherwise
        fr = live[0].fr
        names = {k for o in live for k, _ in o.fr.env}
        for nm in names:
            vals = set()
            for o in live:
                b = o.fr.lookup(nm)
                vals |= set(b) if b is not None else {UNKNOWN}
            fr = fr.bind(nm, frozenset(vals))
        fr = fr.with_taint(frozenset(tainted))
        return live[0].replace(fr=fr, facts=facts)

    def kn(self, e: ast.AST, f) -> str:
        """norm() with walrus targets and single-assignment locals bound to a plain attribute chain of a parameter
        (`node_id = message.node_id`, `(node_id := message.node_id)`) written out: the same key under another name."""
        I = self.I

        class _K(ast.NodeTransformer):
            def visit_NamedExpr(self, n):
                return self.visit(n.value)

            def visit_Name(self, n):
                if isinstance(n.ctx, ast.Load) and n.id not in f.params:
                    la = I.local_assigns(f).get(n.id) or []
                    if len(la) == 1 and isinstance(la[0], ast.Attribute):
                        b = la[0]
                        while isinstance(b, ast.Attribute):
                            b = b.value
                        if isinstance(b, ast.Name) and b.id in f.params:
                            return copy.deepcopy(la[0])
                return n

        return norm(_K().visit(copy.deepcopy(e)))

    def facts_of_test(self, test: ast.expr, st: St):
        """(facts when true, facts when false)."""
        pos: set = set()
        neg: set = set()
        if isinstance(test, ast.UnaryOp) and isinstance(test.op, ast.Not):
            p, n = self.facts_of_test(test.operand, st)
            return n, p
        if isinstance(test, ast.BoolOp):
            if isinstance(test.op, ast.And):
                for v in test.values:
                    p, _ = self.facts_of_test(v, st)
                    pos |= p
            else:
                for v in test.values:
                    _, n = self.facts_of_test(v, st)
                    neg |= n
            return frozenset(pos), frozenset(neg)
        if isinstance(test, ast.Compare) and len(test.ops) == 1:
            op = test.ops[0]
            left, right = test.left, test.comparators[0]
            if isinstance(left, ast.Name) and isinstance(op, (ast.Is, ast.IsNot)) and isinstance(right, ast.Constant) and right.value is None:
                la = self.I.local_assigns(st.fr.func).get(left.id) or []
                if len(la) == 1 and isinstance(la[0], ast.Call) and isinstance(la[0].func, ast.Attribute) and la[0].func.attr == "get" and len(la[0].args) == 1:
                    fact = ("in", norm(la[0].args[0]), norm(la[0].func.value))
                    if self.grow_only(fact[2]):
                        if isinstance(op, ast.IsNot):
                            pos.add(fact)
                        else:
                            neg.add(fact)
                        return frozenset(pos), frozenset(neg)
            if isinstance(op, ast.In):
                pos.add(("in", norm(left), norm(right)))
                pos.add(("in", self.kn(left, st.fr.func), self.kn(right, st.fr.func)))
            elif isinstance(op, ast.NotIn):
                neg.add(("in", norm(left), norm(right)))
                neg.add(("in", self.kn(left, st.fr.func), self.kn(right, st.fr.func)))
            elif isinstance(op, (ast.Is, ast.IsNot, ast.Eq, ast.NotEq)):
                # D.get(K) is V / is not None
                if isinstance(left, ast.Call) and isinstance(left.func, ast.Attribute) and left.func.attr == "get" and len(left.args) == 1:
                    fact = ("in", norm(left.args[0]), norm(left.func.value))
                    is_none = isinstance(right, ast.Constant) and right.value is None
                    if isinstance(op, (ast.Is, ast.Eq)) and not is_none:
                        # value identity with a bound object: only implies presence if the object is not None
                        rt = self.prog.type_of(st.fr.module, right) or ""
                        if "None" not in rt and rt:
                            pos.add(fact)
                    elif isinstance(op, (ast.IsNot, ast.NotEq)) and is_none:
                        pos.add(fact)
                    elif isinstance(op, (ast.Is, ast.Eq)) and is_none:
                        neg.add(fact)
            return frozenset(pos), frozenset(neg)
        if isinstance(test, ast.Call) and isinstance(test.func, ast.Attribute) and test.func.attr == "isdecimal" and not test.args and not test.keywords:
            rt = self.prog.type_of(st.fr.module, test.func.value) or ""
            if rt.rsplit(".", 1)[-1] == "str":
                pos.add(("decimal", norm(test.func.value)))
            return frozenset(pos), frozenset(neg)
        if isinstance(test, ast.Call) and isinstance(test.func, ast.Name) and test.func.id == "isinstance" and len(test.args) == 2:
            ty = norm(test.args[1])
            if ty in ("dict", "Mapping", "(dict, Mapping)", "(Mapping, dict)", "MutableMapping", "collections.abc.Mapping"):
                a0_ = test.args[0]
                pos.add(("isdict", norm(a0_.target if isinstance(a0_, ast.NamedExpr) else a0_)))  # `isinstance(x := f(), dict)` is about x
            return frozenset(pos), frozenset(neg)
        if isinstance(test, ast.Name):
            la = self.I.local_assigns(st.fr.func).get(test.id) or []
            if len(la) == 1 and isinstance(la[0], ast.Call) and isinstance(la[0].func, ast.Attribute) and la[0].func.attr == "get" and len(la[0].args) == 1 and self.grow_only(norm(la[0].func.value)):
                pos.add(("in", norm(la[0].args[0]), norm(la[0].func.value)))
        if isinstance(test, (ast.Name, ast.Attribute)):
            # `if D:` -> non-empty
            pos.add(("nonempty", norm(test)))
            return frozenset(pos), frozenset(neg)
        return frozenset(), frozenset()

    def loop(self, s, st: St, test=None):
        e: dict = {}
        if test is not None:
            e = self.expr(test, st)
        infinite = test is not None and isinstance(test, ast.Constant) and bool(test.value)
        st_in = st
        out = None
        for _ in range(2):
            e1, out = self.block(s.body, st_in)
            e = self.merge(e, e1)
            if out is None:
                break
            joined = self.join([st_in, out])
            if joined is None or joined.facts == st_in.facts and joined.fr == st_in.fr:
                break
            st_in = joined
        e2 = {}
        after = self.join([x for x in [st_in, out] if x is not None]) or st_in
        if s.orelse:
            e2, after = self.block(s.orelse, after)
        e = self.merge(e, e2)
        has_break = any(isinstance(n, ast.Break) for n in ast.walk(s))
        if infinite and not has_break:
            return e, None
        return e, after

    def for_stmt(self, s, st: St):
        fr = st.fr
        e = self.expr(s.iter, st)
        e = self.merge(e, self._generator_body_escapes(s.iter, st))
        st = self._kill_on_await(s.iter, st)
        it_t = self.prog.type_of(fr.module, s.iter) or ""
        # iteration protocol of external async iterators
        if isinstance(s, ast.AsyncFor):
            base = it_t.split("[")[0]
            nm = f"{base}.__anext__"
            if nm not in S.SUMMARIES and isinstance(s.iter, ast.Attribute):
                # an iterator handed out by an object that is typed with a repository Protocol: the iterator of the
                # class that implements it (Program.protocol_impl)
                rt = (self.prog.type_of(fr.module, s.iter.value) or "").replace(" | None", "").replace("Union[", "").split("[")[0].strip()
                impl = self.prog.protocol_impl().get(rt)
                if impl and f"{impl}.{s.iter.attr}.__anext__" in S.SUMMARIES:
                    nm = f"{impl}.{s.iter.attr}.__anext__"
            sm = S.SUMMARIES.get(nm)
            if sm is None:
                self.missing_summaries.setdefault(nm, f"{fr.module.relpath}:{s.lineno}")
            else:
                self.summaries_used[nm] = sm.why
                for x in sm.get([]):
                    e = self.merge(e, self._one(x, self.site(fr, s.iter, f"call:{nm}"), fr))
        # tainted iteration
        tainted = set(fr.tainted)
        it_tainted = self.I.expr_tainted(s.iter, fr)
        if it_tainted:
            base = s.iter
            if isinstance(base, ast.Call) and isinstance(base.func, ast.Attribute):
                base = base.func.value
            if ("isdict", norm(base)) not in st.facts:
                self.obligations += 1
                e = self.merge(e, self._one(S.TE, self.site(fr, s.iter, "tainted-iter"), fr))
        for n in ast.walk(s.target):
            if isinstance(n, ast.Name):
                if it_tainted:
                    tainted.add(n.id)
                else:
                    tainted.discard(n.id)
        names = {n.id for n in ast.walk(s.target) if isinstance(n, ast.Name)}
        st2 = self._kill_names(names, st).replace(fr=fr.with_taint(frozenset(tainted)))
        for nm in names:
            st2 = st2.replace(fr=st2.fr.unbind(nm))
        # iteration-derived key facts: for k, v in D.items()  /  for k in D
        facts = set(st2.facts)
        it = s.iter
        if isinstance(it, ast.Call) and isinstance(it.func, ast.Attribute) and it.func.attr == "items" and isinstance(s.target, ast.Tuple) and len(s.target.elts) == 2:
            facts.add(("in", norm(s.target.elts[0]), norm(it.func.value)))
        else:
            kd = self.keys_iter_dict(it, fr)
            if kd is not None and isinstance(s.target, ast.Name):
                facts.add(("in", norm(s.target), kd))
        st2 = st2.replace(facts=frozenset(facts))
        # a dict shared with other tasks iterated live across a suspension point: a key added or removed by the
        # other task meanwhile makes the next iteration step raise RuntimeError (dictionary changed size)
        shared = self._shared_dict_iterated(s.iter, fr)
        if shared is not None and any(has_await_node(b) for b in s.body):
            self.obligations += 1
            e = self.merge(e, self._one("builtins.RuntimeError", self.site(fr, s.iter, "live-dict-iteration", f"for ... in {norm(s.iter)[:50]} (suspends inside the loop)"), fr))
        e_l, after = self.loop(s, st2)
        return self.merge(e, e_l), after

    def _shared_dict_iterated(self, it: ast.expr, fr: Frame) -> str | None:
        """Text of the dict when `it` iterates, without a snapshot, over a dict that is an attribute of an object
        other tasks reach too (self.<attr>, <param>.<attr>) and that some code in the package resizes."""
        base = it
        if isinstance(base, ast.Call) and isinstance(base.func, ast.Attribute) and base.func.attr in ("items", "values", "keys") and not base.args:
            base = base.func.value
        if not isinstance(base, ast.Attribute):
            return None
        root = base
        while isinstance(root, ast.Attribute):
            root = root.value
        if not (isinstance(root, ast.Name) and root.id in fr.func.params):
            return None
        t = self.prog.type_of(fr.module, base) or ""
        if not t.startswith(("builtins.dict", "dict[")):
            return None
        attr = base.attr
        for m in self.prog.modules.values():
            for n in ast.walk(m.tree):
                if isinstance(n, ast.Assign):
                    if any(isinstance(tg, ast.Subscript) and isinstance(tg.value, ast.Attribute) and tg.value.attr == attr for tg in n.targets):
                        return norm(base)
                elif isinstance(n, ast.Call) and isinstance(n.func, ast.Attribute) and n.func.attr in ("pop", "popitem", "clear", "setdefault", "update") and isinstance(n.func.value, ast.Attribute) and n.func.value.attr == attr:
                    return norm(base)
                elif isinstance(n, ast.Delete) and any(isinstance(tg, ast.Subscript) and isinstance(tg.value, ast.Attribute) and tg.value.attr == attr for tg in n.targets):
                    return norm(base)
        return None

    def keys_iter_dict(self, it: ast.expr, fr: Frame) -> str | None:
        """If iterating `it` yields keys of a dict D (D, D.keys(), sorted(D), list(D), reversed(...)): text of D."""
        for _ in range(6):
            if isinstance(it, ast.Name) and it.id not in fr.func.params:
                # a local bound once to the key sequence (`known = sorted(D, reverse=True)`; D only grows or is constant)
                la = self.I.local_assigns(fr.func).get(it.id) or []
                if len(la) == 1 and isinstance(la[0], ast.Call):
                    it = la[0]
                    continue
            if isinstance(it, ast.Call) and isinstance(it.func, ast.Name) and it.func.id in ("sorted", "list", "tuple", "reversed", "set", "frozenset") and it.args:
                it = it.args[0]
                continue
            if isinstance(it, ast.Call) and isinstance(it.func, ast.Attribute) and it.func.attr == "keys" and not it.args:
                it = it.func.value
                continue
            break
        if isinstance(it, (ast.Name, ast.Attribute)):
            t = self.prog.type_of(fr.module, it) or ""
            if t.startswith(("builtins.dict", "dict[")):
                return norm(it)
        return None

    def with_stmt(self, s, st: St):
        fr = st.fr
        e: dict = {}
        suppress: list[str] = []
        for item in s.items:
            ce = item.context_expr
            e = self.merge(e, self.expr(ce, st))
            # an instance of a repository class whose __exit__ can return something truthy (it swallows exceptions of the
            # with-body) and that was not written out at parse time: which exceptions pass is not modelled
            cmc_ = self._repo_class_of_type(self.prog.type_of(fr.module, ce))
            if cmc_ is not None:
                ex_ = cmc_.find_method("__aexit__" if isinstance(s, ast.AsyncWith) else "__exit__")
                if ex_ is not None and any(isinstance(r_, ast.Return) and r_.value is not None and not (isinstance(r_.value, ast.Constant) and not r_.value.value) for r_ in self.I.own_nodes(ex_)):
                    raise AnalysisError(f"the context manager class {cmc_.name} can swallow exceptions of the with-body ({ex_.name} returns a value) and is not written out at {fr.module.relpath}:{s.lineno}: not modelled")
            if isinstance(ce, ast.Call):
                fact = self.prog.call_fact(fr.module, ce)
                if fact and fact[0] and fact[0].startswith(PKG):
                    # a generator-based context manager of the repository that was not written out at parse time and
                    # wraps its yield in try/except/finally: it handles the exceptions of the with-body - not modelled
                    dfn_ = self.prog.lookup_fullname(fact[0])
                    h_ = dfn_.obj if dfn_ is not None and dfn_.kind == "func" else None
                    if h_ is not None and any(d.split("(")[0].rsplit(".", 1)[-1] in ("contextmanager", "asynccontextmanager") for d in h_.decorator_names):
                        for t_ in ast.walk(h_.node):
                            if isinstance(t_, ast.Try) and (t_.handlers or t_.finalbody) and any(isinstance(y_, (ast.Yield, ast.YieldFrom)) for b_ in t_.body for y_ in ast.walk(b_)):
                                raise AnalysisError(f"the context manager {h_.qualname} handles exceptions of the with-body (try around its yield) and is not written out at `{norm(ce)[:50]}` ({fr.module.relpath}:{s.lineno}): not modelled")
                if fact and fact[0] in S.CM_EXIT_RAISES:
                    for exc_ in S.CM_EXIT_RAISES[fact[0]]:
                        self.obligations += 1
                        e = self.merge(e, self._one(exc_, self.site(fr, ce, "with-exit", f"leaving `with {norm(ce)[:50]}`"), fr))
                if fact and fact[0] == "contextlib.suppress":
                    for a in ce.args:
                        fn = self.exc_class_of(a, fr)
                        if fn is None:
                            raise AnalysisError(f"cannot resolve suppressed class {norm(a)} at {fr.module.relpath}:{s.lineno}")
                        suppress.append(fn)
            if item.optional_vars is not None:
                names = {n.id for n in ast.walk(item.optional_vars) if isinstance(n, ast.Name)}
                st = self._kill_names(names, st)
        st = self._kill_on_await(s.items[0].context_expr, st) if isinstance(s, ast.AsyncWith) else st
        eb, out = self.block(s.body, st)
        if suppress:
            kept = {}
            caught_any = False
            for (exc, site), path in eb.items():
                if any(self.issub(exc, h) for h in suppress):
                    caught_any = True
                    continue
                kept[(exc, site)] = path
            eb = kept
            if out is None and caught_any:
                out = st
        return self.merge(e, eb), out

    def exc_class_of(self, expr: ast.expr, fr: Frame) -> str | None:
        fn = self.prog.ref_fullname(fr.module, expr)
        if fn:
            return fn
        d = self.prog.resolve_expr(fr.module, expr)
        if d is not None:
            if d.kind == "class":
                return d.obj.fq
            if d.kind == "external":
                return d.obj
        return None

    def _exc_class_in(self, m, expr: ast.expr) -> str | None:
        d = self.prog.resolve_expr(m, expr)
        if d is not None:
            if d.kind == "class":
                return d.obj.fq
            if d.kind == "external":
                return d.obj
        return None

    def _handler_type_elts(self, m, t: ast.expr, depth: int) -> list:
        """(module, class expression) pairs an `except <t>` clause names: a tuple display, a module constant that is a
        tuple / list / set of classes, the keys of a constant dict, `tuple(<one of those>)`."""
        if depth > 3:
            return [(m, t)]
        if isinstance(t, (ast.Tuple, ast.List, ast.Set)):
            return [p_ for x in t.elts for p_ in self._handler_type_elts(m, x, depth + 1)]
        if isinstance(t, ast.Dict) and all(k is not None for k in t.keys):
            return [p_ for x in t.keys for p_ in self._handler_type_elts(m, x, depth + 1)]
        if isinstance(t, ast.Call) and isinstance(t.func, ast.Name) and t.func.id in ("tuple", "list", "frozenset", "set") and len(t.args) == 1 and not t.keywords:
            return self._handler_type_elts(m, t.args[0], depth + 1)
        if isinstance(t, ast.Name):
            d = self.prog.resolve_name(self.prog.origin(m, t), t.id)
            if d is not None and d.kind == "const" and isinstance(d.obj, (ast.Tuple, ast.List, ast.Set, ast.Dict, ast.Call)):
                return self._handler_type_elts(d.module, d.obj, depth + 1)
        return [(m, t)]

    def try_stmt(self, s: ast.Try, st: St):
        fr = st.fr
        eb, out_body = self.block(s.body, st)
        esc: dict = {}
        outs = []
        # distribute
        remaining = dict(eb)
        handler_inputs: list[dict] = []
        for h in s.handlers:
            classes: list[str] = []
            if h.type is None:
                classes = ["builtins.BaseException"]
            else:
                for xm, x in self._handler_type_elts(fr.module, h.type, 0):
                    fn = self.exc_class_of(x, Frame(fr.callee, fr.V)) if xm is fr.module else self._exc_class_in(xm, x)
                    if fn is None:
                        raise AnalysisError(f"cannot resolve handler class {norm(x)} at {fr.module.relpath}:{h.lineno}")
                    classes.append(fn)
            got: dict = {}
            nxt: dict = {}
            for (exc, site), path in remaining.items():
                if any(self.issub(exc, c) for c in classes):
                    got[(exc, site)] = path
                    self.caught_log.setdefault((exc, site), f"except {', '.join(short_exc(c) for c in classes)} at {fr.module.relpath}:{h.lineno} in {fr.func.qualname}")
                else:
                    part = [c for c in classes if self.issub(c, exc)]
                    if part:
                        for c in part:
                            got[(c, site)] = path
                    nxt[(exc, site)] = path
            remaining = nxt
            # a handler for specific, tracked classes that no exception of the body can match is unreachable
            broad = any(c in S.BASE_ONLY or c in ("builtins.Exception", "builtins.BaseException") for c in classes)
            handler_inputs.append(got if (got or broad) else None)
        esc = self.merge(esc, remaining)
        # state inside handlers: facts of try entry (body may have been interrupted anywhere)
        st_h_base = self._kill_mutations(ast.Module(body=s.body, type_ignores=[]), self._kill_on_await(ast.Module(body=s.body, type_ignores=[]), st))
        # names assigned in the try body are no longer precisely bound
        assigned = set()
        for n in ast.walk(ast.Module(body=s.body, type_ignores=[])):
            if isinstance(n, ast.Name) and isinstance(n.ctx, ast.Store):
                assigned.add(n.id)
        frh = st_h_base.fr
        for nm in assigned:
            frh = frh.unbind(nm)
        st_h_base = self._kill_names(assigned, st_h_base.replace(fr=frh))
        for h, got in zip(s.handlers, handler_inputs):
            if got is None:
                continue
            st_h = st_h_base.replace(caught=got, handler_var=h.name)
            eh, oh = self.block(h.body, st_h)
            esc = self.merge(esc, eh)
            if oh is not None:
                outs.append(oh.replace(caught=st.caught, handler_var=st.handler_var))
        if s.orelse:
            if out_body is not None:
                eo, out_body = self.block(s.orelse, out_body)
                esc = self.merge(esc, eo)
        if out_body is not None:
            outs.append(out_body)
        after = self.join(outs)
        if s.finalbody:
            st_f = (after or st_h_base).replace(fr=frh if after is None else after.fr)
            # the finally block runs on every exit: analyse it in the weakest state
            st_weak = st_h_base.replace(facts=st_h_base.facts & (after.facts if after is not None else st_h_base.facts))
            ef, of = self.block(s.finalbody, st_weak)
            esc = self.merge(esc, ef)
            if of is None:
                after = None
        return esc, after

    def raise_stmt(self, s: ast.Raise, st: St) -> dict:
        fr = st.fr
        e: dict = {}
        if s.cause is not None:
            e = self.merge(e, self.expr(s.cause, st))
        if s.exc is None:
            if st.caught is None:
                raise AnalysisError(f"bare raise outside handler at {fr.module.relpath}:{s.lineno}")
            return self.merge(e, st.caught)
        x = s.exc
        if isinstance(x, ast.Name) and st.handler_var is not None and x.id == st.handler_var and st.caught is not None:
            return self.merge(e, st.caught)
        if isinstance(x, ast.Call) and isinstance(x.func, ast.Subscript) and isinstance(x.func.value, ast.Name):
            # `raise TABLE[key](args)`: a module-level table of exception classes / factories (lambdas, functions)
            d = self.prog.resolve_name(self.prog.origin(fr.module, x.func.value), x.func.value.id)
            if d is not None and d.kind == "const" and isinstance(d.obj, ast.Dict):
                e = self.merge(e, self.expr(x.func, st))  # the lookup itself (KeyError for a key the table lacks)
                for a in x.args:
                    e = self.merge(e, self.expr(a, st))
                classes: set = set()
                for v in d.obj.values:
                    body = v.body if isinstance(v, ast.Lambda) else v
                    tgt = body.func if isinstance(body, ast.Call) else body
                    c = self._exc_class_in(d.module, tgt) if isinstance(tgt, (ast.Name, ast.Attribute)) else None
                    dfn = self.prog.lookup_fullname(c) if c and c.startswith(PKG) else None
                    if dfn is None and c is None and isinstance(tgt, (ast.Name, ast.Attribute)):
                        dd_ = self.prog.resolve_expr(d.module, tgt)
                        if dd_ is not None and dd_.kind == "func":
                            dfn = dd_  # a factory function named in the table
                    if dfn is not None and dfn.kind == "func" and self._factory_classes(dfn.obj, 0):
                        classes |= self._factory_classes(dfn.obj, 0)
                    elif c and self._is_exception_class(c):
                        classes.add(c)
                    else:
                        raise AnalysisError(f"cannot tell which exception an entry of {x.func.value.id} builds (`{norm(v)[:50]}`) at {fr.module.relpath}:{s.lineno}")
                for c in sorted(classes):
                    self.obligations += 1
                    e = self.merge(e, self._one(c, self.site(fr, s, "raise", f"raise {norm(x.func)}(...) -> {short_exc(c)}"), fr))
                return e
        if isinstance(x, ast.Call) and isinstance(x.func, ast.Name):
            # `raise helper(err)` with helper a nested function of this (or an enclosing) function
            scope = fr.func
            hn = None
            while scope is not None and hn is None:
                hn = (getattr(scope, "nested", None) or {}).get(x.func.id)
                scope = getattr(scope, "parent", None)
            if hn is not None:
                for a in x.args:
                    e = self.merge(e, self.expr(a, st))
                classes = self._factory_classes(hn, 0, x, fr)
                if not classes:
                    raise AnalysisError(f"cannot tell which exception {x.func.id} builds at {fr.module.relpath}:{s.lineno}")
                for c in sorted(classes):
                    self.obligations += 1
                    e = self.merge(e, self._one(c, self.site(fr, s, "raise", f"raise {x.func.id}(...) -> {short_exc(c)}"), fr))
                return e
        if isinstance(x, ast.Call):
            e = self.merge(e, self.expr(x, st, skip_self_call=True))
            for a in x.args:
                pass
            cls = self.exc_class_of(x.func, fr)
            if cls is None:
                raise AnalysisError(f"cannot resolve raised class {norm(x.func)} at {fr.module.relpath}:{s.lineno}")
            dfn = self.prog.lookup_fullname(cls) if cls.startswith(PKG) else None
            if dfn is not None and dfn.kind == "func":
                # `raise _make_error(err) from err`: an exception factory - the classes its returns construct
                e = self.merge(e, self.expr(x, st))
                classes = self._factory_classes(dfn.obj, 0, x, fr)
                if not classes:
                    raise AnalysisError(f"cannot tell which exception {norm(x.func)} builds at {fr.module.relpath}:{s.lineno}")
                for c in sorted(classes):
                    self.obligations += 1
                    e = self.merge(e, self._one(c, self.site(fr, s, "raise", f"raise {norm(x.func)}(...) -> {short_exc(c)}"), fr))
                return e
            # constructor body of repo exception classes
            d = self.prog.lookup_fullname(cls) if cls.startswith(PKG) else None
            if d is not None and d.kind == "class":
                init = d.obj.find_method("__init__")
                if init is not None:
                    sub = self.escapes(self.I.bind_call(Callee(init, d.obj, ()), x, fr, fr.V, skip_first=True))
                    e = self.merge(e, self._through(sub, fr))
            self.obligations += 1
            return self.merge(e, self._one(cls, self.site(fr, s, "raise", f"raise {norm(x.func)}"), fr))
        # raise <name/attr>
        cls = self.exc_class_of(x, fr)
        if cls is not None and (self.prog.mro_of(cls) or cls in S.FALLBACK_MRO) and self._is_exception_class(cls):
            self.obligations += 1
            return self.merge(e, self._one(cls, self.site(fr, s, "raise", f"raise {norm(x)}"), fr))
        origins = self.exception_origins(x, fr, set())
        if not origins:
            t = self.prog.type_of(fr.module, x) or "builtins.Exception"
            origins = {t.split(" | ")[0]}
            if origins & {"builtins.Exception", "builtins.BaseException", "Exception", "BaseException", "Any"}:
                # where the raised object was built is not found and its declared type says nothing: no verdict
                raise AnalysisError(f"`raise {norm(x)}` at {fr.module.relpath}:{s.lineno}: the places that build the raised object are not found (declared type {t}) - not modelled")
        for c in origins:
            self.obligations += 1
            e = self.merge(e, self._one(c, self.site(fr, s, "raise", f"raise {norm(x)}"), fr))
        return e

    def _factory_classes(self, h: FuncInfo, depth: int, call: ast.Call | None = None, cfr: Frame | None = None) -> set:
        """Exception classes a factory function returns (every return is a constructor call, or another factory); the
        class may be a parameter of the factory (`_failure(TransportError, "reading", err)`): the argument of this call."""
        out: set = set()
        if depth > 2:
            return set()
        hfr = Frame(self.I.make_callee(h, h.cls), None)
        params = [p_ for p_ in h.positional_params if not (p_ in ("self", "cls") and h.cls is not None)]
        for r in self.I.return_exprs(h):
            if not isinstance(r, ast.Call):
                return set()
            c = None
            if isinstance(r.func, ast.Name) and r.func.id in h.params and call is not None and cfr is not None and not any(isinstance(n_, ast.Name) and n_.id == r.func.id and isinstance(n_.ctx, ast.Store) for n_ in ast.walk(h.node)):
                arg = None
                if r.func.id in params and params.index(r.func.id) < len(call.args):
                    arg = call.args[params.index(r.func.id)]
                for kw in call.keywords:
                    if kw.arg == r.func.id:
                        arg = kw.value
                if arg is not None:
                    c = self.exc_class_of(arg, cfr)
            else:
                c = self.exc_class_of(r.func, hfr)
            if isinstance(r.func, ast.Name) and (c is None or not (c.startswith(PKG) or self._is_exception_class(c))) and r.func.id not in h.params:
                # the class comes out of a constant table: `error_type, text = TABLE[operation]` ... `return error_type(..)`
                tc = self._table_classes(h, r.func.id, call, params)
                if tc:
                    out |= tc
                    continue
            if c is None:
                return set()
            d = self.prog.lookup_fullname(c) if c.startswith(PKG) else None
            if d is not None and d.kind == "func":
                sub = self._factory_classes(d.obj, depth + 1)
                if not sub:
                    return set()
                out |= sub
            elif self._is_exception_class(c):
                out.add(c)
            else:
                return set()
        return out

    def _table_classes(self, h: FuncInfo, name: str, call: ast.Call | None, params: list) -> set:
        """Exception classes a local `name` of factory h can hold when it is taken from a module-level constant dict
        (`name = TABLE[key]` / `name, other = TABLE[key]`): the entry of the constant key the call passes, else all."""
        for st in ast.walk(h.node):
            if not (isinstance(st, ast.Assign) and len(st.targets) == 1 and isinstance(st.value, ast.Subscript) and isinstance(st.value.value, ast.Name)):
                continue
            tg = st.targets[0]
            idx = None
            if isinstance(tg, ast.Name) and tg.id == name:
                idx = -1
            elif isinstance(tg, (ast.Tuple, ast.List)):
                for i, e_ in enumerate(tg.elts):
                    if isinstance(e_, ast.Name) and e_.id == name:
                        idx = i
            if idx is None:
                continue
            d = self.prog.resolve_name(self.prog.origin(h.module, st.value.value), st.value.value.id)
            if d is None or d.kind != "const" or not isinstance(d.obj, ast.Dict):
                return set()
            want = None
            k = st.value.slice
            if isinstance(k, ast.Constant):
                want = k.value
            elif isinstance(k, ast.Name) and k.id in params and call is not None:
                a = None
                if params.index(k.id) < len(call.args):
                    a = call.args[params.index(k.id)]
                for kw in call.keywords:
                    if kw.arg == k.id:
                        a = kw.value
                if isinstance(a, ast.Constant):
                    want = a.value
            out: set = set()
            for kk, vv in zip(d.obj.keys, d.obj.values):
                if want is not None and not (isinstance(kk, ast.Constant) and kk.value == want):
                    continue
                e_ = vv.elts[idx] if idx >= 0 and isinstance(vv, (ast.Tuple, ast.List)) and idx < len(vv.elts) else vv if idx == -1 else None
                c = self._exc_class_in(d.module, e_) if isinstance(e_, (ast.Name, ast.Attribute)) else None
                if c is None or not self._is_exception_class(c):
                    return set()
                out.add(c)
            return out
        return set()

    def _is_exception_class(self, cls: str) -> bool:
        try:
            return "builtins.BaseException" in self.mro(cls)
        except AnalysisError:
            return False

    # ---- value flow for `raise <variable>`

    def calls_index(self) -> dict:
        if self._calls_index is None:
            idx: dict = {}
            for f in self.prog.all_functions():
                for n in self.I.own_nodes(f):
                    if isinstance(n, ast.Call):
                        fact = self.prog.call_fact(f.module, n)
                        if fact and fact[0]:
                            for one in fact[0].split("|"):
                                idx.setdefault(one, []).append((f, n))
            self._calls_index = idx
        return self._calls_index

    def exception_origins(self, x: ast.expr, fr: Frame, seen: set) -> set:
        key = (fr.func.fq, norm(x))
        if key in seen:
            return set()
        seen.add(key)
        f = fr.func
        out: set = set()
        if isinstance(x, ast.Call):
            c = self.exc_class_of(x.func, fr)
            if c and self._is_exception_class(c):
                return {c}
            return set()
        if isinstance(x, ast.Name):
            la = self.I.local_assigns(f).get(x.id)
            if la:
                for v in la:
                    if isinstance(v, ast.expr):
                        out |= self.exception_origins(v, fr, seen)
                return out
            if x.id in f.params:
                # all call sites of f
                names = {f.fq}
                if f.cls is not None:
                    for c in f.cls.repo_mro():
                        names.add(f"{c.fq}.{f.name}")
                pidx = f.positional_params.index(x.id) if x.id in f.positional_params else None
                if f.cls is not None and pidx is not None and not f.is_staticmethod():
                    pidx -= 1
                for nm in names:
                    for g, call in self.calls_index().get(nm, []):
                        arg = None
                        for kw in call.keywords:
                            if kw.arg == x.id:
                                arg = kw.value
                        if arg is None and pidx is not None and 0 <= pidx < len(call.args):
                            arg = call.args[pidx]
                        if arg is not None:
                            gfr = Frame(Callee(g, g.cls, ()), fr.V)
                            out |= self.exception_origins(arg, gfr, seen)
                return out
            return out
        if isinstance(x, ast.Attribute):
            bt = self.prog.type_of(fr.module, x.value)
            c = self._repo_class_of_type(bt)
            if c is not None:
                # dataclass field / attribute: constructor sites + attribute stores
                fields = [n for n, _ in c.attr_order] + [st.target.id for st in c.node.body if isinstance(st, ast.AnnAssign) and isinstance(st.target, ast.Name)]
                ordered = []
                for st_ in c.node.body:
                    if isinstance(st_, ast.AnnAssign) and isinstance(st_.target, ast.Name):
                        ordered.append(st_.target.id)
                for g, call in self.calls_index().get(c.fq, []):
                    arg = None
                    for kw in call.keywords:
                        if kw.arg == x.attr:
                            arg = kw.value
                    if arg is None and x.attr in ordered:
                        i = ordered.index(x.attr)
                        if i < len(call.args):
                            arg = call.args[i]
                    if arg is not None:
                        gfr = Frame(Callee(g, g.cls, ()), fr.V)
                        out |= self.exception_origins(arg, gfr, seen)
                return out
        return out

    # ------------------------------------------------------------------ expressions

    def _through(self, sub: dict, fr: Frame) -> dict:
        if not sub:
            return {}
        return {k: (fr.func.fq,) + p for k, p in sub.items()}

    def expr(self, e: ast.expr | None, st: St, skip_self_call: bool = False) -> dict:
        if e is None:
            return {}
        fr = st.fr
        I = self.I
        if isinstance(e, (ast.Constant, ast.Name)):
            return {}
        if isinstance(e, ast.Await):
            out = self.expr(e.value, st)
            return self.merge(out, self.await_task(e, st))
        if isinstance(e, ast.Attribute):
            out = self.expr(e.value, st)
            # property getter on repo classes
            bt = self.prog.type_of(fr.module, e.value)
            c = self._repo_class_of_type(bt)
            if c is not None and isinstance(e.ctx, ast.Load):
                m = c.find_method(e.attr)
                if m is not None and m.is_property():
                    sub = self.escapes(Frame(I.make_callee(m, c), fr.V))
                    out = self.merge(out, self._through(sub, fr))
            return out
        if isinstance(e, ast.BoolOp):
            out: dict = {}
            cur = st
            for v in e.values:
                out = self.merge(out, self.expr(v, cur))
                pos, neg = self.facts_of_test(v, cur)
                t = I.truth(v, cur.fr) if self.prune else None
                if isinstance(e.op, ast.And):
                    if t is False:
                        break
                    cur = cur.replace(facts=cur.facts | pos, fr=I.narrow(v, cur.fr, True))
                else:
                    if t is True:
                        break
                    cur = cur.replace(facts=cur.facts | neg, fr=I.narrow(v, cur.fr, False))
            return out
        if isinstance(e, ast.IfExp):
            out = self.expr(e.test, st)
            t = I.truth(e.test, fr) if self.prune else None
            pos, neg = self.facts_of_test(e.test, st)
            if t is not False:
                out = self.merge(out, self.expr(e.body, st.replace(facts=st.facts | pos, fr=I.narrow(e.test, fr, True))))
            if t is not True:
                out = self.merge(out, self.expr(e.orelse, st.replace(facts=st.facts | neg, fr=I.narrow(e.test, fr, False))))
            return out
        if isinstance(e, ast.UnaryOp):
            return self.expr(e.operand, st)
        if isinstance(e, ast.BinOp):
            out = self.merge(self.expr(e.left, st), self.expr(e.right, st))
            return self.merge(out, self.binop_raises(e, st))
        if isinstance(e, ast.Compare):
            out = self.expr(e.left, st)
            for c in e.comparators:
                out = self.merge(out, self.expr(c, st))
            return self.merge(out, self.compare_raises(e, st))
        if isinstance(e, ast.Call):
            return self.call(e, st, skip_self_call)
        if isinstance(e, ast.Subscript):
            out = self.merge(self.expr(e.value, st), self.expr(e.slice, st))
            if isinstance(e.ctx, ast.Load):
                out = self.merge(out, self.subscript_raises(e, st))
            return out
        if isinstance(e, ast.Slice):
            out = {}
            for p in (e.lower, e.upper, e.step):
                out = self.merge(out, self.expr(p, st))
            return out
        if isinstance(e, (ast.Tuple, ast.List, ast.Set)):
            out = {}
            for x in e.elts:
                out = self.merge(out, self.expr(x, st))
            return out
        if isinstance(e, ast.Dict):
            out = {}
            for k, v in zip(e.keys, e.values):
                out = self.merge(out, self.expr(k, st))
                out = self.merge(out, self.expr(v, st))
            return out
        if isinstance(e, ast.Starred):
            return self.expr(e.value, st)
        if isinstance(e, ast.JoinedStr):
            out = {}
            for v in e.values:
                if isinstance(v, ast.FormattedValue):
                    out = self.merge(out, self.expr(v.value, st))
                    out = self.merge(out, self._format_spec_raises(v, st))
            return out
        if isinstance(e, ast.FormattedValue):
            return self.merge(self.expr(e.value, st), self._format_spec_raises(e, st))
        if isinstance(e, (ast.ListComp, ast.SetComp, ast.GeneratorExp, ast.DictComp)):
            out = {}
            cur = st
            for g in e.generators:
                out = self.merge(out, self.expr(g.iter, cur))
                out = self.merge(out, self._generator_body_escapes(g.iter, cur))
                facts = set(cur.facts)
                tainted = set(cur.fr.tainted)
                it = g.iter
                it_tainted = I.expr_tainted(it, cur.fr)
                if it_tainted:
                    base = it.func.value if isinstance(it, ast.Call) and isinstance(it.func, ast.Attribute) else it
                    if ("isdict", norm(base)) not in cur.facts:
                        self.obligations += 1
                        out = self.merge(out, self._one(S.TE, self.site(fr, it, "tainted-iter"), fr))
                for n in ast.walk(g.target):
                    if isinstance(n, ast.Name):
                        (tainted.add if it_tainted else tainted.discard)(n.id)
                if isinstance(it, ast.Call) and isinstance(it.func, ast.Attribute) and it.func.attr == "items" and isinstance(g.target, ast.Tuple) and len(g.target.elts) == 2:
                    facts.add(("in", norm(g.target.elts[0]), norm(it.func.value)))
                else:
                    kd = self.keys_iter_dict(it, fr)
                    if kd is not None and isinstance(g.target, ast.Name):
                        facts.add(("in", norm(g.target), kd))
                cur = cur.replace(facts=frozenset(facts), fr=cur.fr.with_taint(frozenset(tainted)))
                for c in g.ifs:
                    out = self.merge(out, self.expr(c, cur))
                    pos, _ = self.facts_of_test(c, cur)
                    cur = cur.replace(facts=cur.facts | pos)
            if isinstance(e, ast.DictComp):
                out = self.merge(out, self.expr(e.key, cur))
                out = self.merge(out, self.expr(e.value, cur))
            else:
                out = self.merge(out, self.expr(e.elt, cur))
            return out
        if isinstance(e, ast.Lambda):
            return {}
        if isinstance(e, (ast.Yield, ast.YieldFrom)):
            return self.expr(e.value, st) if e.value is not None else {}
        if isinstance(e, ast.NamedExpr):
            return self.expr(e.value, st)
        raise AnalysisError(f"expression kind {type(e).__name__} not modelled at {fr.module.relpath}:{e.lineno}")

    FORMATTABLE = ("builtins.str", "builtins.int", "builtins.float", "builtins.bool", "builtins.complex", "decimal.Decimal", "fractions.Fraction", "datetime.date", "datetime.datetime", "datetime.time", "str", "int", "float", "bool")

    def _format_spec_raises(self, v: ast.FormattedValue, st: St) -> dict:
        """f"{x:<spec>}" with a non-empty spec and no !r/!s/!a conversion calls type(x).__format__(spec);
        object.__format__ (every class that does not define its own) raises TypeError for a non-empty spec."""
        if v.format_spec is None or v.conversion != -1:
            return {}
        spec = v.format_spec
        if isinstance(spec, ast.JoinedStr) and not spec.values:
            return {}
        fr = st.fr
        t = self.prog.type_of(fr.module, v.value) or ""
        if (not t or t == "Any") and isinstance(v.value, ast.Name) and v.value.id in fr.func.params:
            # positions inside f-strings differ between mypy and ast: fall back to the parameter's annotation
            ann = fr.func.param_annotation(v.value.id)
            parts = []
            for piece in (norm(ann).strip("'\"").split("|") if ann is not None else []):
                piece = piece.strip()
                try:
                    d = self.prog.resolve_expr(fr.module, ast.parse(piece, mode="eval").body)
                except SyntaxError:
                    d = None
                if d is not None and d.kind == "class":
                    parts.append(d.obj.fq)
                elif d is not None and d.kind == "external":
                    parts.append(str(d.obj))
                elif piece in ("str", "int", "float", "bool", "None"):
                    parts.append(piece)
                else:
                    parts = []
                    break
            t = " | ".join(parts)
        if not t or t == "Any":
            return {}
        out: dict = {}
        for comp in [c.strip() for c in t.split(" | ")]:
            base = comp.split("[")[0]
            if base in self.FORMATTABLE or base in ("None", "Any", ""):
                if base == "None":
                    pass
                else:
                    continue
            ok = False
            if base.startswith(PKG + "."):
                d = self.prog.lookup_fullname(base)
                if d is not None and d.kind == "class":
                    if d.obj.find_method("__format__") is not None or any(isinstance(b, str) and b.split(".")[-1] in ("IntEnum", "IntFlag", "str", "int", "float", "StrEnum") for b in d.obj.mro()):
                        ok = True
            elif base != "None":
                mro = self.prog.mro_of(base) or []
                ok = any(b in self.FORMATTABLE for b in mro) or base.startswith(("enum.",))
            if not ok:
                self.obligations += 1
                out = self.merge(out, self._one(S.TE, self.site(fr, v, "format-spec", f"format spec on a value of type {comp.rsplit('.', 1)[-1]} (object.__format__ refuses a non-empty spec)"), fr))
        return out

    def _constant_table_unmodified(self, e: ast.expr, fr: Frame) -> bool:
        """No statement of the package stores into / deletes from / calls a mutator on the module-level name."""
        name = e.id if isinstance(e, ast.Name) else e.attr
        for m in self.prog.modules.values():
            for n in ast.walk(m.tree):
                tg = n.targets if isinstance(n, (ast.Assign, ast.Delete)) else [n.target] if isinstance(n, ast.AugAssign) else []
                for t in tg:
                    if isinstance(t, ast.Subscript) and ((isinstance(t.value, ast.Name) and t.value.id == name) or (isinstance(t.value, ast.Attribute) and t.value.attr == name)):
                        return False
                if isinstance(n, ast.Call) and isinstance(n.func, ast.Attribute) and n.func.attr in ("pop", "popitem", "clear", "update", "setdefault", "__setitem__", "__delitem__") and ((isinstance(n.func.value, ast.Name) and n.func.value.id == name) or (isinstance(n.func.value, ast.Attribute) and n.func.value.attr == name)):
                    return False
        return True

    # ---- implicit operations

    def subscript_raises(self, e: ast.Subscript, st: St, deleting: bool = False) -> dict:
        fr = st.fr
        if isinstance(e.slice, ast.Slice):
            return {}
        bt = self.prog.type_of(fr.module, e.value) or ""
        base_txt, key_txt = norm(e.value), norm(e.slice)
        tainted = self.I.expr_tainted(e.value, fr)
        self.obligations += 1
        if tainted and ("isdict", base_txt) not in st.facts:
            out = self._one(S.TE, self.site(fr, e, "tainted-subscript"), fr)
            out = self.merge(out, self._one(S.KE, self.site(fr, e, "tainted-subscript"), fr))
            out = self.merge(out, self._one(S.IE, self.site(fr, e, "tainted-subscript"), fr))
            return out
        is_map = bt.startswith(("builtins.dict", "dict[", "typing.Mapping", "typing.MutableMapping", "collections.OrderedDict", "typing.Dict")) or (tainted and ("isdict", base_txt) in st.facts)
        if is_map and isinstance(e.value, (ast.Name, ast.Attribute)):
            # a constant lookup table indexed by a key that is certainly one of its keys
            try:
                tab = self.I.folder.fold(fr.module, e.value)
            except Exception:  # noqa: BLE001
                tab = None
            if tab is None and isinstance(e.value, ast.Name):
                # values that are not constants (classes, functions): the *keys* are what matters here
                dd = self.prog.resolve_name(self.prog.origin(fr.module, e.value), e.value.id)
                if dd is not None and dd.kind == "const" and isinstance(dd.obj, ast.Dict) and all(k_ is not None for k_ in dd.obj.keys):
                    try:
                        tab = {self.I.folder.plain(self.I.folder.fold(dd.module, k_)): None for k_ in dd.obj.keys}
                    except Exception:  # noqa: BLE001
                        tab = None
            if isinstance(tab, dict) and not tainted:
                total = False
                if isinstance(e.slice, ast.Call) and isinstance(e.slice.func, ast.Name) and e.slice.func.id == "bool" and len(e.slice.args) == 1 and {True, False} <= set(tab):
                    total = True
                else:
                    try:
                        kv = self.I.folder.plain(self.I.folder.fold(fr.module, e.slice))
                        total = kv in tab
                    except Exception:  # noqa: BLE001
                        total = False
                    if not total:
                        # the key is a parameter bound to literal arguments in this calling context
                        try:
                            vals = self.I.eval(e.slice, fr)
                        except AnalysisError:
                            vals = frozenset()
                        from .interp import Const as _Const

                        total = bool(vals) and all(isinstance(v, _Const) and v.value in tab for v in vals)
                if total and self._constant_table_unmodified(e.value, fr):
                    self.discharged.append({"site": self.site(fr, e, "subscript").loc(), "what": f"{base_txt}[{key_txt}]", "by": "constant lookup table that has this key (nothing in the package modifies it)"})
                    return {}
        if is_map or bt in ("Any", "") and not bt.startswith(("builtins.list", "builtins.str", "tuple")):
            if ("in", key_txt, base_txt) in st.facts or ("in", self.kn(e.slice, fr.func), self.kn(e.value, fr.func)) in st.facts:
                self.discharged.append({"site": self.site(fr, e, "subscript").loc(), "what": f"{base_txt}[{key_txt}]", "by": f"guard `{key_txt} in {base_txt}` dominates with no suspension/removal in between"})
                return {}
            if ("allfields", base_txt) in st.facts and isinstance(e.slice, ast.Name) and self._iterates_schema_fields(e.slice):
                self.assumptions_used.add("A3")
                self.discharged.append({"site": self.site(fr, e, "subscript").loc(), "what": f"{base_txt}[{key_txt}]", "by": "the dumped object is of the annotated class whose constructor stores every schema field (A3): the mapping has every field of self.fields"})
                return {}
            if isinstance(e.ctx, ast.Load) and is_map and self.snapshot_key(e, fr):
                self.assumptions_used.add("A2")
                self.discharged.append({"site": self.site(fr, e, "subscript").loc(), "what": f"{base_txt}[{key_txt}]", "by": "the key iterates a snapshot of the same dict, this function holds the only removal sites and has not removed it in this iteration (A2: one listener)"})
                return {}
            if bt in ("Any", ""):
                # class-level generic alias etc. (e.g. Callable[...] in annotations) is never evaluated here
                if not is_map:
                    self.unknown_calls.setdefault(f"subscript on untyped base {base_txt}", f"{fr.module.relpath}:{e.lineno}")
                    return {}
            return self._one(S.KE, self.site(fr, e, "subscript"), fr)
        if bt.startswith(("builtins.list", "list[", "builtins.str", "str", "builtins.bytes")):
            k = e.slice.value if isinstance(e.slice, ast.Constant) and isinstance(e.slice.value, int) else -e.slice.operand.value if isinstance(e.slice, ast.UnaryOp) and isinstance(e.slice.op, ast.USub) and isinstance(e.slice.operand, ast.Constant) and isinstance(e.slice.operand.value, int) else None
            if k in (0, -1) and ("nonempty", base_txt) in st.facts:
                self.discharged.append({"site": self.site(fr, e, "subscript").loc(), "what": f"{base_txt}[{key_txt}]", "by": f"non-empty guard on {base_txt} dominates with no suspension / mutation in between"})
                return {}
            if k is not None and bt.startswith(("builtins.list", "list[")):
                need = k + 1 if k >= 0 else -k
                have = self.min_split_len(fr.func, e.value, 0)
                if have >= need:
                    self.discharged.append({"site": self.site(fr, e, "subscript").loc(), "what": f"{base_txt}[{key_txt}]", "by": f"delimiter-count bound: the split string contains at least {have - 1} separator(s) on every call path, so the list has at least {have} elements"})
                    return {}
            return self._one(S.IE, self.site(fr, e, "subscript"), fr)
        if bt.startswith(("tuple[", "builtins.tuple")):
            if isinstance(e.slice, ast.Constant) and isinstance(e.slice.value, int) and "..." not in bt:
                return {}
            return self._one(S.IE, self.site(fr, e, "subscript"), fr)
        if bt.startswith("def ") or bt.startswith("type[") or bt.startswith("Overload"):
            return {}
        self.unknown_calls.setdefault(f"subscript on {bt or '?'}: {base_txt}", f"{fr.module.relpath}:{e.lineno}")
        return {}

    # ---- string shape: lower bound on the number of separators (replaces text-bound suppressions)

    def min_split_len(self, f: FuncInfo, e: ast.expr, depth: int) -> int:
        """Lower bound of len(e) when e is (a local bound once to) `<s>.split(<one-char constant>)`; else 0."""
        if depth > 8:
            return 0
        if isinstance(e, ast.Name):
            la = self.I.local_assigns(f).get(e.id) or []
            if len(la) == 1 and isinstance(la[0], ast.expr) and e.id not in f.params:
                return self.min_split_len(f, la[0], depth + 1)
            return 0
        if isinstance(e, ast.Call) and isinstance(e.func, ast.Attribute) and e.func.attr == "split" and len(e.args) == 1 and not e.keywords and isinstance(e.args[0], ast.Constant) and isinstance(e.args[0].value, str) and len(e.args[0].value) == 1:
            t = self.prog.type_of(f.module, e.func.value) or ""
            if t.split(".")[-1] != "str":
                return 0
            return self.min_count(f, e.func.value, e.args[0].value, depth + 1) + 1
        return 0

    def min_count(self, f: FuncInfo, e: ast.expr, ch: str, depth: int) -> int:
        """Lower bound of the number of occurrences of ch in the string e, over every way e can be bound."""
        if depth > 16:
            return 0
        if isinstance(e, ast.Constant):
            return e.value.count(ch) if isinstance(e.value, str) else 0
        if isinstance(e, ast.JoinedStr):
            n = 0
            for p_ in e.values:
                if isinstance(p_, ast.Constant):
                    n += str(p_.value).count(ch)
                elif isinstance(p_, ast.FormattedValue) and p_.format_spec is None and p_.conversion == -1:
                    # (mypy positions inside f-strings are unreliable: an untyped part is followed structurally -
                    # anything that is not built from string constants contributes 0)
                    t = self.prog.type_of(f.module, p_.value) or ""
                    if t.split(".")[-1] in ("str", ""):
                        n += self.min_count(f, p_.value, ch, depth + 1)
            return n
        if isinstance(e, ast.BinOp) and isinstance(e.op, ast.Add):
            return self.min_count(f, e.left, ch, depth + 1) + self.min_count(f, e.right, ch, depth + 1)
        if isinstance(e, ast.Name):
            if e.id in f.params:
                # a parameter: the minimum over every call site of f in the package (by name; extra sites only lower the bound)
                best = None
                pos = [p_ for p_ in f.positional_params if not (p_ in ("self", "cls") and f.cls is not None and not f.is_staticmethod())]
                for g in self.prog.all_functions():
                    for c in self.I.own_nodes(g):
                        if not isinstance(c, ast.Call):
                            continue
                        fn = c.func
                        nm = fn.attr if isinstance(fn, ast.Attribute) else fn.id if isinstance(fn, ast.Name) else None
                        if nm != f.name:
                            continue
                        arg = None
                        if e.id in pos and pos.index(e.id) < len(c.args):
                            arg = c.args[pos.index(e.id)]
                        for kw in c.keywords:
                            if kw.arg == e.id:
                                arg = kw.value
                        v = self.min_count(g, arg, ch, depth + 1) if arg is not None else 0
                        best = v if best is None else min(best, v)
                # `map(f, <iterable>)`: f is called with the elements of the iterable as its first argument
                mapped = set()
                for g in self.prog.all_functions():
                    for c in self.I.own_nodes(g):
                        if isinstance(c, ast.Call) and isinstance(c.func, ast.Name) and c.func.id == "map" and len(c.args) == 2 and not c.keywords:
                            r0 = c.args[0]
                            if (isinstance(r0, ast.Attribute) and r0.attr == f.name) or (isinstance(r0, ast.Name) and r0.id == f.name):
                                mapped.add(id(r0))
                                v = self.min_count_elems(g, c.args[1], ch, depth + 1) if pos and e.id == pos[0] else 0
                                best = v if best is None else min(best, v)
                # references that are not calls (passed as a callback) make the call sites unknown
                refs = sum(1 for g in self.prog.all_functions() for x in self.I.own_nodes(g) if id(x) not in mapped and (isinstance(x, ast.Attribute) and x.attr == f.name or isinstance(x, ast.Name) and x.id == f.name) and not (isinstance(self.prog.parents.get(x), ast.Call) and self.prog.parents[x].func is x))
                return 0 if best is None or refs else best
            vals = []
            n_for = 0
            for n_ in self.I.own_nodes(f):
                if isinstance(n_, (ast.For, ast.comprehension)) and isinstance(n_.target, ast.Name) and n_.target.id == e.id:
                    vals.append(("iter", n_.iter))
                    n_for += isinstance(n_, ast.For)
            la = self.I.local_assigns(f).get(e.id) or []
            assigns = [v for v in la if isinstance(v, ast.expr)]
            if len(la) != len(assigns) + n_for:
                return 0  # bound in some other way (with, except, unpacking ...)
            outs = []
            for v in assigns:
                outs.append(self.min_count(f, v, ch, depth + 1))
            for _k, it in vals:
                outs.append(self.min_count_elems(f, it, ch, depth + 1))
            return min(outs) if outs else 0
        return 0

    def min_count_elems(self, f: FuncInfo, it: ast.expr, ch: str, depth: int) -> int:
        """Lower bound over the elements of an iterable of strings."""
        if depth > 16:
            return 0
        if isinstance(it, (ast.List, ast.Tuple, ast.Set)) and it.elts:
            return min(self.min_count(f, x, ch, depth + 1) for x in it.elts)
        if isinstance(it, ast.Name) and it.id not in f.params:
            la = self.I.local_assigns(f).get(it.id) or []
            if len(la) == 1 and isinstance(la[0], ast.expr):
                return self.min_count_elems(f, la[0], ch, depth + 1)
            if la:
                return 0
            # not a local: a module-level constant (below)
        if isinstance(it, (ast.GeneratorExp, ast.ListComp)) and len(it.generators) == 1:
            return self.min_count(f, it.elt, ch, depth + 1)
        # a class-level constant read through self / cls (never stored to anywhere in the package)
        if isinstance(it, ast.Attribute) and isinstance(it.value, ast.Name) and it.value.id in ("self", "cls") and f.cls is not None:
            owner = next((c_ for c_ in f.cls.repo_mro() if it.attr in c_.attrs and c_.attrs[it.attr] is not None), None)
            stored = any(isinstance(x, ast.Attribute) and x.attr == it.attr and isinstance(x.ctx, ast.Store) for g_ in self.prog.all_functions() for x in self.I.own_nodes(g_))
            if owner is not None and not stored:
                try:
                    seq0 = self.I.folder.plain(self.I.folder.fold(owner.module, owner.attrs[it.attr]))
                except Exception:  # noqa: BLE001
                    seq0 = None
                if isinstance(seq0, (tuple, list, frozenset)) and seq0 and all(isinstance(x, str) for x in seq0):
                    return min(x.count(ch) for x in seq0)
            return 0
        # a constant sequence of strings kept in a module constant / a field of a record constant
        try:
            seq = self.I.folder.plain(self.I.folder.fold(f.module, it))
        except Exception:  # noqa: BLE001
            seq = None
        if isinstance(seq, (tuple, list, frozenset)) and seq and all(isinstance(x, str) for x in seq):
            return min(x.count(ch) for x in seq)
        return 0

    def _nonempty_enum(self, m: Module, e: ast.expr, depth: int) -> bool:
        """e denotes an enum class that has members: a class name, a module constant bound to one, or
        `get_protocol(<constant version>).<Enum>`."""
        if depth > 3:
            return False
        I = self.I
        if isinstance(e, ast.Name):
            d = self.prog.resolve_name(m, e.id)
            if d is not None and d.kind == "class":
                return I.folder.is_enum(d.obj) and bool(I.folder.enum_values(d.obj))
            if d is not None and d.kind == "const":
                return self._nonempty_enum(d.module, d.obj, depth + 1)
            return False
        if isinstance(e, ast.Attribute) and isinstance(e.value, ast.Call) and norm(e.value.func).endswith("get_protocol") and len(e.value.args) == 1:
            try:
                ver = I.folder.plain(I.folder.fold(m, e.value.args[0]))
                return ver in I.versions and bool(I.folder.enum_values(I.vclass(ver, e.attr)))
            except Exception:  # noqa: BLE001
                return False
        return False

    def _iterates_schema_fields(self, name: ast.Name) -> bool:
        cur = self.prog.parents.get(name)
        while cur is not None and not isinstance(cur, (ast.FunctionDef, ast.AsyncFunctionDef, ast.Module)):
            gens = cur.generators if isinstance(cur, (ast.ListComp, ast.SetComp, ast.DictComp, ast.GeneratorExp)) else []
            for g in gens:
                if isinstance(g.target, ast.Name) and g.target.id == name.id and norm(g.iter) == "self.fields":
                    return True
            if isinstance(cur, ast.For) and isinstance(cur.target, ast.Name) and cur.target.id == name.id and norm(cur.iter) == "self.fields":
                return True
            cur = self.prog.parents.get(cur)
        return False

    ORDER_SAFE = ("builtins.int", "builtins.float", "builtins.str", "builtins.bool", "int", "float", "str", "bool", "Literal[")

    def compare_raises(self, e: ast.Compare, st: St) -> dict:
        fr = st.fr
        out: dict = {}
        operands = [e.left] + list(e.comparators)
        for i, op in enumerate(e.ops):
            a, b = operands[i], operands[i + 1]
            if isinstance(op, (ast.In, ast.NotIn)):
                if self.I.expr_tainted(b, fr) and ("isdict", norm(b)) not in st.facts:
                    self.obligations += 1
                    out = self.merge(out, self._one(S.TE, self.site(fr, e, "tainted-in"), fr))
                continue
            if isinstance(op, (ast.Lt, ast.LtE, ast.Gt, ast.GtE)):
                ta = self.prog.type_of(fr.module, a) or ""
                tb = self.prog.type_of(fr.module, b) or ""
                self.obligations += 1
                for t in (ta, tb):
                    if "AwesomeVersion" in t:
                        nm = "awesomeversion.awesomeversion.AwesomeVersion.__cmp__"
                        sm = S.SUMMARIES[nm]
                        self.summaries_used[nm] = sm.why
                        for x in sm.get([]):
                            out = self.merge(out, self._one(x, self.site(fr, e, f"op:{nm}"), fr))
                        break
                else:
                    if ta.startswith(self.ORDER_SAFE) and tb.startswith(self.ORDER_SAFE):
                        continue
                    if ".IntEnum" in ta or ".IntEnum" in tb:
                        continue
                    out = self.merge(out, self._one(S.TE, self.site(fr, e, "ordering-untyped"), fr))
        return out

    def binop_raises(self, e: ast.BinOp, st: St) -> dict:
        fr = st.fr
        ta = self.prog.type_of(fr.module, e.left) or ""
        tb = self.prog.type_of(fr.module, e.right) or ""
        if isinstance(e.op, (ast.Div, ast.FloorDiv, ast.Mod)) and not ta.startswith(("builtins.str", "str")):
            self.obligations += 1
            return self._one("builtins.ZeroDivisionError", self.site(fr, e, "division"), fr)
        return {}

    def await_task(self, e: ast.Await, st: St) -> dict:
        """`await <task>` re-raises what the task body raised."""
        fr = st.fr
        v = e.value
        if isinstance(v, ast.Call):
            return {}
        t = self.prog.type_of(fr.module, v) or ""
        if "Task" not in t and "Future" not in t:
            return {}
        out: dict = {}
        for g, call in self.task_bodies(v, fr):
            gfr = Frame(Callee(g, g.cls, fr.callee.env if g.parent is fr.func.parent else ()), fr.V)
            for t_ in self.I.resolve_call(call, gfr):
                if t_.kind == "repo" and t_.frame is not None:
                    out = self.merge(out, self._through(self.escapes(t_.frame), fr))
        return out

    def task_bodies(self, v: ast.expr, fr: Frame) -> list:
        """(function, call-expr) pairs: coroutine calls wrapped by create_task that flow into `v`."""
        out = []

        def from_value(val, g):
            if isinstance(val, ast.Call):
                fact = self.prog.call_fact(g.module, val)
                if fact and fact[0] in ("asyncio.tasks.create_task", "asyncio.tasks.ensure_future") and val.args and isinstance(val.args[0], ast.Call):
                    out.append((g, val.args[0]))

        if isinstance(v, ast.Name):
            scope = fr.func
            while scope is not None:
                la = self.I.local_assigns(scope).get(v.id)
                if la:
                    for val in la:
                        if val is not None:
                            from_value(val, scope)
                    break
                scope = scope.parent
        elif isinstance(v, ast.Attribute):
            c = self._repo_class_of_type(self.prog.type_of(fr.module, v.value))
            if c is not None:
                for k in [c] + self.prog.subclasses(c) + c.repo_mro():
                    for fl in k.methods.values():
                        for g in fl:
                            for n in self.I.own_nodes(g):
                                if isinstance(n, ast.Assign):
                                    for tg in n.targets:
                                        if isinstance(tg, ast.Attribute) and tg.attr == v.attr:
                                            from_value(n.value, g)
        return out

    # ---- calls

    def call(self, e: ast.Call, st: St, skip_self_call: bool = False) -> dict:
        fr = st.fr
        I = self.I
        out: dict = {}
        fn = e.func
        site_key = (fr.module.relpath, e.lineno, e.col_offset)
        self.call_sites_seen.add(site_key)
        # receiver / function expression
        if isinstance(fn, ast.Attribute):
            out = self.merge(out, self.expr(fn.value, st))
        elif not isinstance(fn, ast.Name):
            out = self.merge(out, self.expr(fn, st))
        fact = self.prog.call_fact(fr.module, e)
        fullname = fact[0] if fact else None
        # create_task: the argument coroutine runs in another task
        is_create_task = fullname in ("asyncio.tasks.create_task", "asyncio.tasks.ensure_future")
        for a in e.args:
            if is_create_task and isinstance(a, ast.Call):
                for aa in a.args:
                    out = self.merge(out, self.expr(aa, st))
                continue
            out = self.merge(out, self.expr(a, st))
        for kw in e.keywords:
            out = self.merge(out, self.expr(kw.value, st))
        if skip_self_call:
            return out
        # isinstance etc. are total
        if isinstance(fn, ast.Name) and fn.id in ("isinstance", "cast", "super"):
            return out
        # getattr
        if isinstance(fn, ast.Name) and fn.id == "getattr":
            return self.merge(out, self.getattr_raises(e, st))
        # tainted receiver
        if isinstance(fn, ast.Attribute) and I.expr_tainted(fn.value, fr):
            base_txt = norm(fn.value)
            self.obligations += 1
            if ("isdict", base_txt) not in st.facts:
                out = self.merge(out, self._one(S.AE, self.site(fr, e, "tainted-method"), fr))
                out = self.merge(out, self._one(S.TE, self.site(fr, e, "tainted-method"), fr))
                return out
            # a dict for sure: dict method semantics
            if fn.attr == "pop" and len(e.args) == 1:
                if ("in", norm(e.args[0]), base_txt) in st.facts:
                    self.discharged.append({"site": self.site(fr, e, "call").loc(), "what": norm(e), "by": "membership guard"})
                    return out
                return self.merge(out, self._one(S.KE, self.site(fr, e, "call:builtins.dict.pop"), fr))
            if fn.attr in ("get", "pop", "values", "items", "keys", "copy", "setdefault", "update"):
                return out
        # the type checker's verdict on the call's arguments: a call that does not fit the signature raises TypeError
        if (fr.module.relpath, e.lineno) in self.arity_errors():
            self.obligations += 1
            out = self.merge(out, self._one(S.TE, self.site(fr, e, "call-arity", self.arity_errors()[(fr.module.relpath, e.lineno)]), fr))
        if fullname in ("builtins.int", "builtins.float", "builtins.round") and len(e.args) == 1 and not e.keywords and self._evaluated_at_construction(e, fr):
            self.discharged.append({"site": self.site(fr, e, "call").loc(), "what": norm(e), "by": "the same conversion of the same field of this frozen dataclass instance completed in __post_init__ when the object was built"})
            return out
        if fullname in ("builtins.int", "builtins.float", "builtins.str", "builtins.bool", "builtins.len", "builtins.round") and len(e.args) == 1 and not e.keywords:
            # a conversion of an instance of a repository class that defines the special method: that method runs
            dn = {"builtins.int": "__int__", "builtins.float": "__float__", "builtins.str": "__str__", "builtins.bool": "__bool__", "builtins.len": "__len__", "builtins.round": "__round__"}[fullname]
            c_ = self._repo_class_of_type(self.prog.type_of(fr.module, e.args[0]))
            m_ = c_.find_method(dn) if c_ is not None else None
            if m_ is not None and not m_.is_abstract():
                sub_ = self.escapes(Frame(self.I.make_callee(m_, c_), fr.V))
                return self.merge(out, self._through(sub_, fr))
        if ((fullname and fullname.endswith(".get_protocol") and fullname.startswith(PKG)) or (fullname is None and isinstance(fn, ast.Name) and fn.id == "get_protocol")) and self._validated_version_read(e, fr):
            self.discharged.append({"site": self.site(fr, e, "call").loc(), "what": norm(e), "by": "the stored version read here was accepted by get_protocol (a cached, deterministic lookup) before every store into that attribute: the same call cannot fail now"})
            return out
        targets = I.resolve_call(e, fr, facts=st.facts)
        if self._deferred_generator(e, fr, targets):
            return out  # the generator's body runs where the bound name is iterated (see for_stmt)
        for t in targets:
            out = self.merge(out, self.target_escapes(t, e, st))
        return out

    def _evaluated_at_construction(self, e: ast.Call, fr) -> bool:
        """`round(self.value)` in a method of a `@dataclass(frozen=True)` class whose __post_init__ evaluates the very same
        expression unconditionally (the test of a top-level `if`, a top-level assignment / expression statement): the
        field cannot have changed since, and the conversion of the same float is deterministic."""
        f = fr.func
        c = f.cls
        if c is None or f.name == "__post_init__" or not (isinstance(e.args[0], ast.Attribute) and isinstance(e.args[0].value, ast.Name) and f.positional_params[:1] == [e.args[0].value.id]):
            return False
        frozen = any(isinstance(d, ast.Call) and norm(d.func).rsplit(".", 1)[-1] == "dataclass" and any(k.arg == "frozen" and isinstance(k.value, ast.Constant) and k.value.value is True for k in d.keywords) for d in c.node.decorator_list)
        pi = c.find_method("__post_init__")
        if not frozen or pi is None or pi.cls is not c:
            return False
        if any(isinstance(n, ast.Call) and norm(n.func).endswith("__setattr__") for n in ast.walk(c.node)):
            return False
        selfn = pi.positional_params[0]
        want = norm(e).replace(f"{e.args[0].value.id}.", f"{selfn}.", 1) if e.args[0].value.id != selfn else norm(e)
        for st in pi.node.body:
            roots = [st.test] if isinstance(st, ast.If) else [st.value] if isinstance(st, (ast.Assign, ast.Expr, ast.AnnAssign)) and getattr(st, "value", None) is not None else []
            for r in roots:
                stack = [r]
                while stack:
                    x = stack.pop()
                    if isinstance(x, ast.Call) and norm(x) == want:
                        return True
                    if isinstance(x, ast.BoolOp):
                        stack.append(x.values[0])
                    elif isinstance(x, ast.IfExp):
                        stack.append(x.test)
                    elif isinstance(x, (ast.Lambda, ast.ListComp, ast.SetComp, ast.DictComp, ast.GeneratorExp)):
                        continue
                    else:
                        stack.extend(ast.iter_child_nodes(x))
            if not isinstance(st, (ast.If, ast.Assign, ast.Expr, ast.AnnAssign)) or (isinstance(st, ast.If) and any(isinstance(n, ast.Return) for n in ast.walk(st))):
                break
        return False

    def _validated_version_read(self, e: ast.Call, fr) -> bool:
        """`get_protocol(<obj>.<attr> or DEFAULT_PROTOCOL_VERSION)` (derived protocol state): true when every store into
        an attribute of that name in the package stores None, or a plain name `v` after `get_protocol(v)` returned in the
        same function (the call dominates the store and `v` is not re-bound), and no constructor call sets the field."""
        if len(e.args) != 1 or e.keywords:
            return False
        a = e.args[0]
        try:
            if self.I.folder.fold(fr.module, a) in self.I.versions:
                return True  # a supported version string, spelled out: the lookup compares well-formed versions only
        except Exception:  # noqa: BLE001
            pass
        if isinstance(a, ast.BoolOp) and isinstance(a.op, ast.Or) and len(a.values) == 2:
            try:
                dflt = self.I.folder.fold(fr.module, a.values[1])
            except Exception:  # noqa: BLE001
                return False
            if dflt not in self.I.versions:
                return False
            a = a.values[0]
        if not (isinstance(a, ast.Attribute) and isinstance(a.value, (ast.Name, ast.Attribute))):
            return False
        attr = a.attr
        from .cfg import CFG as _CFG

        n_stores = 0
        for f in self.prog.all_functions():
            stores = []
            for n in self.I.own_nodes(f):
                if isinstance(n, (ast.Assign, ast.AnnAssign, ast.AugAssign)):
                    tg = n.targets if isinstance(n, ast.Assign) else [n.target]
                    if any(isinstance(t, ast.Attribute) and t.attr == attr for t in tg):
                        stores.append(n)
                elif isinstance(n, ast.Call) and isinstance(n.func, ast.Name) and n.func.id == "setattr":
                    return False
                elif isinstance(n, ast.Call) and any(k.arg == attr for k in n.keywords) and not (isinstance(n.func, ast.Name) and n.func.id in ("field",)):
                    kv = [k.value for k in n.keywords if k.arg == attr][0]
                    if not (isinstance(kv, ast.Constant) and kv.value is None):
                        return False  # handed to a constructor / replace(): not followed here
            if not stores:
                continue
            g = None
            for stt in stores:
                n_stores += 1
                v = getattr(stt, "value", None)
                if isinstance(v, ast.Constant) and v.value is None:
                    continue
                if not isinstance(v, ast.Name) or isinstance(stt, ast.AugAssign):
                    return False
                if sum(1 for x in self.I.own_nodes(f) if isinstance(x, ast.Name) and x.id == v.id and isinstance(x.ctx, ast.Store)) > 0:
                    return False
                g = g or _CFG(f.node)
                snodes = g.nodes_where(lambda x, stt=stt: x.contains(stt))
                calls = [c for c in self.I.own_nodes(f) if isinstance(c, ast.Call) and (((self.prog.call_fact(f.module, c) or ("",))[0] or "").endswith(".get_protocol") or (isinstance(c.func, ast.Name) and c.func.id == "get_protocol")) and len(c.args) == 1 and isinstance(c.args[0], ast.Name) and c.args[0].id == v.id]
                ok = False
                for c in calls:
                    cn_ = g.nodes_where(lambda x, c=c: x.contains(c))
                    if cn_ and snodes and all(any(g.dominates(a_, b_) and a_ is not b_ for a_ in cn_) for b_ in snodes):
                        ok = True
                if not ok:
                    return False
        # positional construction of a class that has the field (dataclass): not followed
        for c in self.prog.all_classes():
            names = [b_.target.id for b_ in c.node.body if isinstance(b_, ast.AnnAssign) and isinstance(b_.target, ast.Name)]
            if attr in names:
                idx = names.index(attr)
                for f in self.prog.all_functions():
                    for n in self.I.own_nodes(f):
                        if isinstance(n, ast.Call) and isinstance(n.func, ast.Name) and n.func.id == c.name and len(n.args) > idx:
                            return False
        return n_stores > 0

    def _is_sync_generator(self, f) -> bool:
        if f.is_async or f.node.decorator_list:
            return False
        return any(isinstance(n, (ast.Yield, ast.YieldFrom)) for n in self.I.own_nodes(f))

    def _deferred_generator(self, e: ast.Call, fr, targets) -> str | None:
        """`name = gen(...)` with gen a repository generator function: calling it runs nothing of its body (argument
        evaluation apart); the body - and whatever it raises - runs where the generator object is iterated.  Supported:
        a local bound once whose every use is the iterable of a for statement / comprehension of the same function."""
        if not targets or not all(t.kind == "repo" and t.frame is not None and self._is_sync_generator(t.frame.func) for t in targets):
            return None
        par = self.prog.parents.get(e)
        if isinstance(par, (ast.Assign, ast.AnnAssign)) and par.value is e:
            tg = par.targets if isinstance(par, ast.Assign) else [par.target]
            if len(tg) == 1 and isinstance(tg[0], ast.Name):
                name = tg[0].id
                f = fr.func
                if len(self.I.local_assigns(f).get(name) or []) != 1:
                    raise AnalysisError(f"generator object bound to `{name}` which is bound more than once in {f.qualname} ({fr.module.relpath}:{e.lineno}): where its body runs is not modelled")
                for n in self.I.own_nodes(f):
                    if isinstance(n, ast.Name) and n.id == name and isinstance(n.ctx, ast.Load):
                        p2 = self.prog.parents.get(n)
                        if not (isinstance(p2, (ast.For, ast.comprehension)) and p2.iter is n):
                            raise AnalysisError(f"generator object `{name}` of {f.qualname} is used other than as the iterable of a loop ({fr.module.relpath}:{n.lineno}): where its body runs is not modelled")
                return name
        if isinstance(par, (ast.For, ast.comprehension)) and par.iter is e:
            return None  # iterated where it is created
        if isinstance(par, ast.Call) and isinstance(par.func, ast.Name) and par.func.id in ("list", "tuple", "set", "sorted", "dict", "frozenset", "sum", "any", "all", "max", "min") and e in par.args:
            return None  # consumed on the spot
        if isinstance(par, ast.YieldFrom):
            return None
        raise AnalysisError(f"generator object created by `{norm(e)[:60]}` ({fr.module.relpath}:{e.lineno}) is handed on: where its body runs is not modelled")

    def _generator_body_escapes(self, it: ast.expr, st: St) -> dict:
        """Iterating a local that holds a deferred generator object (see _deferred_generator): its body runs here."""
        fr = st.fr
        if not isinstance(it, ast.Name):
            return {}
        binds = self.I.local_assigns(fr.func).get(it.id) or []
        if len(binds) != 1 or not isinstance(binds[0], ast.Call):
            return {}
        call = binds[0]
        try:
            targets = self.I.resolve_call(call, fr, facts=st.facts)
        except AnalysisError:
            return {}
        if not targets or not all(t.kind == "repo" and t.frame is not None and self._is_sync_generator(t.frame.func) for t in targets):
            return {}
        out: dict = {}
        for t in targets:
            out = self.merge(out, self.target_escapes(t, call, st))
        return out

    def arity_errors(self) -> dict:
        """(module path, line) -> message of every [call-arg] diagnostic mypy produced for the analysed package."""
        cached = getattr(self, "_arity", None)
        if cached is None:
            cached = {}
            for ln in self.prog.facts.get("errors", []):
                m = re.match(r"^(.*?):(\d+): error: (.*)  \[call-arg\]$", ln)
                if m:
                    cached[("src/" + m.group(1), int(m.group(2)))] = m.group(3)
            self._arity = cached
        return cached

    def getattr_raises(self, e: ast.Call, st: St) -> dict:
        fr = st.fr
        if len(e.args) == 3:
            return {}
        self.obligations += 1
        if isinstance(e.args[1], ast.Constant):
            return {}
        vals = self.I.eval(e, fr)
        if UNKNOWN in vals and self._getattr_over_own_fields(e, fr):
            return {}
        if UNKNOWN in vals:
            raise AnalysisError(f"dispatch idiom not recognised at {fr.module.relpath}:{e.lineno}: {norm(e)[:100]}")
        out: dict = {}
        for v in sorted(vals, key=repr):
            if isinstance(v, Absent):
                out = self.merge(out, self._one(S.AE, self.site(fr, e, "getattr-absent", f"getattr -> {v.owner.rsplit('.', 1)[-1]}.{v.name} missing"), fr))
        return out

    def _getattr_over_own_fields(self, e: ast.Call, fr: Frame) -> bool:
        """`getattr(self, name)` with name ranging over a literal tuple of attribute names that the class's
        __init__ assigns unconditionally: the lookup cannot fail."""
        obj, nm = e.args[0], e.args[1]
        f = fr.func
        if not (isinstance(obj, ast.Name) and obj.id == "self" and isinstance(nm, ast.Name) and f.cls is not None):
            return False
        names = None
        for n in self.I.own_nodes(f):
            if isinstance(n, (ast.For, ast.comprehension)) and isinstance(n.target, ast.Name) and n.target.id == nm.id and isinstance(n.iter, (ast.Tuple, ast.List)) and n.iter.elts and all(isinstance(x, ast.Constant) and isinstance(x.value, str) for x in n.iter.elts):
                names = [x.value for x in n.iter.elts]
        if not names or (self.I.local_assigns(f).get(nm.id) or []) not in ([None], []):
            return False
        init = f.cls.find_method("__init__")
        if init is None:
            return False
        assigned = {t.attr for st_ in init.node.body if isinstance(st_, (ast.Assign, ast.AnnAssign)) for t in (st_.targets if isinstance(st_, ast.Assign) else [st_.target]) if isinstance(t, ast.Attribute) and isinstance(t.value, ast.Name) and t.value.id == "self" and (f is not init or st_.lineno < e.lineno)}
        return set(names) <= assigned

    def target_escapes(self, t: Target, e: ast.Call, st: St) -> dict:
        fr = st.fr
        if t.kind == "repo":
            sub = self.escapes(self._callee_frame_with_taint(t.frame, e, fr))
            return self._through(sub, fr)
        if t.kind == "ctor":
            out: dict = {}
            if t.frame is not None:
                out = self._through(self.escapes(t.frame), fr)
            # C(**data): keyword names must be parameters
            for kw in e.keywords:
                if kw.arg is None:
                    out = self.merge(out, self.kwargs_unpack_raises(t, kw.value, e, st))
            return out
        if t.kind == "absent":
            # reported at the getattr site; calling it is unreachable
            return {}
        if t.kind == "none":
            self.obligations += 1
            return self._one(S.TE, self.site(fr, e, "call-none"), fr)
        if t.kind == "noattr":
            self.obligations += 1
            return self._one(S.AE, self.site(fr, e, "no-attribute", f"{t.fullname.rsplit('.', 2)[-2]} has no attribute {t.fullname.rsplit('.', 1)[-1]}"), fr)
        if t.kind == "attr-callable":
            return self.attr_callable(t, e, st)
        if t.kind == "external":
            return self.external(t, e, st)
        # unknown
        self.call_sites_unresolved.add((fr.module.relpath, e.lineno, e.col_offset))
        self.unknown_calls.setdefault(t.note or norm(e)[:80], f"{fr.module.relpath}:{e.lineno}")
        return {}

    def _callee_frame_with_taint(self, cf: Frame, e: ast.Call, fr: Frame) -> Frame:
        return cf

    def kwargs_unpack_raises(self, t: Target, value: ast.expr, e: ast.Call, st: St) -> dict:
        """C(**data) inside a schema's post_load hook: schema field names must be C's parameters."""
        fr = st.fr
        f = fr.func
        self.obligations += 1
        schema = f.cls
        init = t.cls.find_method("__init__") if t.cls else None
        # C(**vars(x)) with x an instance of C whose attributes are exactly the stored constructor parameters
        if init is not None and isinstance(value, ast.Call) and isinstance(value.func, ast.Name) and value.func.id == "vars" and len(value.args) == 1:
            oc = self._repo_class_of_type(self.prog.type_of(fr.module, value.args[0]))
            if oc is t.cls:
                stored = self.I.stored_params(oc)
                attrs = {tg.attr for st_ in init.node.body if isinstance(st_, (ast.Assign, ast.AnnAssign)) for tg in (st_.targets if isinstance(st_, ast.Assign) else [st_.target]) if isinstance(tg, ast.Attribute)}
                if attrs == set(stored.values()) and all(p == a for p, a in stored.items()):
                    self.discharged.append({"site": self.site(fr, e, "kwargs").loc(), "what": norm(e), "by": f"the attributes of a {oc.name} are exactly its constructor parameters"})
                    return {}
        if schema is not None and init is not None and any(d in ("post_load",) or d.startswith("post_load") for d in f.decorator_names):
            fields = self.schema_field_names(schema)
            params = set(init.params[1:])
            # the mapping holds only declared fields as long as unknown keys are refused or dropped (marshmallow's
            # default is RAISE); with Meta.unknown = INCLUDE any key of the input reaches the constructor
            unknown_opt = None
            for c_ in schema.repo_mro():
                meta = c_.nested_classes.get("Meta")
                if meta is not None and "unknown" in meta.attrs:
                    unknown_opt = norm(meta.attrs["unknown"]).rsplit(".", 1)[-1]
                    break
            if unknown_opt is not None and unknown_opt.upper() not in ("RAISE", "EXCLUDE", "'RAISE'", "'EXCLUDE'"):
                return self._one(S.TE, self.site(fr, e, "kwargs-unpack", f"{norm(e)} with Meta.unknown = {unknown_opt}: keys that are not parameters of {t.cls.name}.__init__ reach the constructor"), fr)
            if fields is not None and set(fields) <= params:
                self.discharged.append({"site": self.site(fr, e, "kwargs").loc(), "what": norm(e), "by": f"schema fields {sorted(fields)} are parameters of {t.cls.fq}.__init__"})
                return {}
        return self._one(S.TE, self.site(fr, e, "kwargs-unpack"), fr)

    def schema_field_names(self, schema: ClassInfo) -> list[str] | None:
        names = []
        for c in reversed(schema.repo_mro()):
            for nm, val in c.attr_order:
                if self.is_field_expr(c.module, val):
                    if nm not in names:
                        names.append(nm)
        return names

    def is_field_expr(self, m: Module, val: ast.expr) -> bool:
        if isinstance(val, ast.Call):
            d = self.prog.resolve_expr(m, val.func)
            if d is None:
                return False
            if d.kind == "external" and d.obj.startswith("marshmallow.fields"):
                return True
            if d.kind == "class":
                return any(isinstance(b, str) and b.startswith("marshmallow.fields") for b in d.obj.mro())
            return False
        if isinstance(val, ast.Name):
            d = self.prog.resolve_name(m, val.id)
            if d is not None and d.kind == "const":
                return self.is_field_expr(d.module, d.obj)
        return False

    def field_expr(self, m: Module, val: ast.expr):
        """Return (module, Call expr) of a field declaration (following constants)."""
        if isinstance(val, ast.Name):
            d = self.prog.resolve_name(m, val.id)
            if d is not None and d.kind == "const":
                return self.field_expr(d.module, d.obj)
            return None
        if isinstance(val, ast.Call):
            return m, val
        return None

    def attr_callable(self, t: Target, e: ast.Call, st: St) -> dict:
        """Call through a callable stored in an attribute: all stores of that attribute."""
        fr = st.fr
        d = self.prog.lookup_fullname(t.fullname)
        if d is None or d.kind != "classattr":
            self.unknown_calls.setdefault(f"attr-callable {t.fullname}", f"{fr.module.relpath}:{e.lineno}")
            return {}
        c, attr, _ = d.obj
        out: dict = {}
        found = False
        for k in [c] + self.prog.subclasses(c):
            for fl in k.methods.values():
                for g in fl:
                    for n in self.I.own_nodes(g):
                        if isinstance(n, ast.Assign):
                            for tg in n.targets:
                                if isinstance(tg, ast.Attribute) and tg.attr == attr and isinstance(tg.value, ast.Name) and tg.value.id == "self":
                                    gfr = Frame(Callee(g, k, ()), fr.V)
                                    vals = self.I.eval(n.value, gfr)
                                    for v in vals:
                                        if isinstance(v, Callee):
                                            found = True
                                            out = self.merge(out, self._through(self.escapes(Frame(v, fr.V)), fr))
                                        elif isinstance(v, Const) and v.value is None:
                                            continue
                                        elif self._callable_instance(v, n.value, g) is not None:
                                            # an instance of a repository class with __call__ (a closure written as a class)
                                            cm, ccls = self._callable_instance(v, n.value, g)
                                            found = True
                                            out = self.merge(out, self._through(self.escapes(Frame(self.I.make_callee(cm, ccls), fr.V)), fr))
                                        else:
                                            self.unknown_calls.setdefault(f"attr-callable {t.fullname} holds {v!r}", f"{g.module.relpath}:{n.lineno}")
        if not found:
            self.unknown_calls.setdefault(f"attr-callable {t.fullname}: no callable store found", f"{fr.module.relpath}:{e.lineno}")
        return out

    def _callable_instance(self, v, value_expr: ast.expr, g: FuncInfo):
        """(__call__ method, class) when the abstract value / the stored expression is an instance of a repository
        class that defines __call__."""
        cls = None
        what = getattr(v, "what", None)
        if isinstance(what, str):
            d = self.prog.lookup_fullname(what)
            if d is not None and d.kind == "class":
                cls = d.obj
        if cls is None and isinstance(value_expr, ast.Call) and isinstance(value_expr.func, (ast.Name, ast.Attribute)):
            d = self.prog.resolve_expr(g.module, value_expr.func)
            if d is not None and d.kind == "class":
                cls = d.obj
        if cls is None:
            return None
        cm = cls.find_method("__call__")
        return (cm, cls) if cm is not None else None

    def external(self, t: Target, e: ast.Call, st: St) -> dict:
        fr = st.fr
        name = t.fullname or "?"
        name = S.ALIASES.get(name.rsplit(".", 1)[0], name.rsplit(".", 1)[0]) + "." + name.rsplit(".", 1)[1] if "." in name else name
        self.obligations += 1
        sm = S.SUMMARIES.get(name)
        if sm is None:
            # class constructors of exception classes etc.
            if self._is_exception_class(name):
                return {}
            # repo field subclasses constructing via external base __init__
            self.missing_summaries.setdefault(name, f"{fr.module.relpath}:{e.lineno}")
            return {}
        self.summaries_used[name] = sm.why
        if name in ("builtins.map", "builtins.filter") and e.args:
            # the mapped function runs while the result is iterated (here: by the caller that consumes it): what it can
            # raise is attributed to this site
            out_m: dict = {}
            vals = self.I.eval(e.args[0], fr)
            a0 = e.args[0]
            if (not vals or UNKNOWN in vals) and isinstance(a0, ast.Attribute) and isinstance(a0.value, ast.Name) and a0.value.id in ("self", "cls") and fr.func.cls is not None:
                kls = fr.callee.cls or fr.func.cls
                meth = kls.find_method(a0.attr)
                if meth is not None:
                    vals = frozenset([self.I.make_callee(meth, kls)])
            if not vals or UNKNOWN in vals or not all(isinstance(v, Callee) for v in vals):
                self.missing_summaries.setdefault(f"{name}(<{norm(e.args[0])[:40]}>)", f"{fr.module.relpath}:{e.lineno}")
                return {}
            for v in sorted(vals, key=repr):
                sub = self.escapes(Frame(v, fr.V, (), frozenset()))
                out_m = self.merge(out_m, self._through(sub, fr))
            return out_m
        if sm.raises == "MM-LOAD":
            return self.mm_load(e, st)
        if sm.raises == "MM-DUMP":
            return self.mm_dump(e, st)
        if sm.raises == "GATHER":
            return {}
        raises = sm.get(t.argtypes)
        if name == "builtins.vars" and e.args and self._repo_class_of_type(self.prog.type_of(fr.module, e.args[0])) is not None:
            raises = []  # instances of plain repository classes have a __dict__
        out: dict = {}
        for x in raises:
            if self.external_discharged(name, x, e, st, t):
                continue
            out = self.merge(out, self._one(x, self.site(fr, e, f"call:{name}"), fr))
        return out

    def external_discharged(self, name: str, exc: str, e: ast.Call, st: St, t: Target | None = None) -> bool:
        fr = st.fr
        if name == "enum.IntEnum.__call__" and t is not None and t.cls is not None and len(e.args) == 1:
            vals = self.I.eval(e.args[0], fr)
            if vals and UNKNOWN not in vals and all(isinstance(v, Const) for v in vals):
                members = set(self.I.folder.enum_values(t.cls))
                if {v.value for v in vals} <= members:
                    self.discharged.append({"site": self.site(fr, e, "call").loc(), "what": norm(e), "by": f"argument is one of the constants {sorted(v.value for v in vals)}, all members of {t.cls.name}"})
                    return True
        if name in ("builtins.max", "builtins.min") and e.args:
            if len(e.args) > 1 or any(kw.arg == "default" for kw in e.keywords):
                return True
            a = norm(e.args[0])
            if self._nonempty_enum(fr.module, e.args[0], 0):
                self.discharged.append({"site": self.site(fr, e, "call").loc(), "what": norm(e), "by": "the argument is an enum class with members"})
                return True
            if ("nonempty", a) in st.facts:
                self.discharged.append({"site": self.site(fr, e, "call").loc(), "what": norm(e), "by": f"non-empty guard on {a}"})
                return True
        if exc == "builtins.RuntimeError" and name in ("_asyncio.get_running_loop", "asyncio.events.get_running_loop", "_asyncio.get_event_loop", "_asyncio.current_task", "asyncio.tasks.current_task") and fr.func.is_async:
            return True  # the body of a coroutine only ever runs inside a running loop
        if name == "builtins.int" and len(e.args) == 1 and not e.keywords and ("decimal", norm(e.args[0])) in st.facts:
            # str.isdecimal() is true exactly for non-empty strings of Unicode decimal digits (category Nd), all of
            # which int() converts (isdigit / isnumeric also accept superscripts and fractions, which it does not)
            self.discharged.append({"site": self.site(fr, e, "call").loc(), "what": norm(e), "by": f"`{norm(e.args[0])}.isdecimal()` guard dominates"})
            return True
        if name == "builtins.next" and len(e.args) == 2:
            return True
        if name == "builtins.dict.pop" and len(e.args) == 1 and isinstance(e.func, ast.Attribute):
            if ("in", norm(e.args[0]), norm(e.func.value)) in st.facts:
                self.discharged.append({"site": self.site(fr, e, "call").loc(), "what": norm(e), "by": "membership guard dominates"})
                return True
            if self.snapshot_key(e, fr):
                self.assumptions_used.add("A2")
                self.discharged.append({"site": self.site(fr, e, "call").loc(), "what": norm(e), "by": "key iterates a snapshot of the same dict and this function holds the only removal sites (A2: one listener)"})
                return True
        return False

    def snapshot_key(self, e: ast.AST, fr: Frame) -> bool:
        """D.pop(K) / D[K]: K is the key target of a loop over a snapshot {k: v for k, v in D.items() ...} of the same
        D, and every removal from D's attribute in the package is in this function."""
        f = fr.func
        if isinstance(e, ast.Subscript):
            k, d_txt = e.slice, norm(e.value)
        else:
            k, d_txt = e.args[0], norm(e.func.value)
        if not isinstance(k, ast.Name):
            return False
        if isinstance(e, ast.Subscript):
            # a read: the key must not have been removed by this function earlier in the same iteration
            from .cfg import CFG

            g_ = CFG(f.node)
            here = g_.nodes_where(lambda x: x.contains(e))
            pops_ = [x for x in g_.nodes if x.ast is not None and x.kind in ("stmt", "test") and any(isinstance(c, ast.Call) and isinstance(c.func, ast.Attribute) and c.func.attr in ("pop", "popitem", "clear") and norm(c.func.value) == d_txt for p_ in x.parts() for c in ast.walk(p_))]
            heads = [x for x in g_.nodes if x.kind == "iter"]
            if pops_ and here and g_.reach_avoiding(pops_, lambda x: x in here, lambda x: x in heads) is not None:
                return False
        snap = None
        # comprehension form: [D.pop(k) for k in keys]
        cur = self.prog.parents.get(e)
        while cur is not None and not isinstance(cur, (ast.stmt,)):
            if isinstance(cur, (ast.ListComp, ast.SetComp, ast.DictComp, ast.GeneratorExp)):
                for g_ in cur.generators:
                    if isinstance(g_.target, ast.Name) and g_.target.id == k.id and isinstance(g_.iter, ast.Name):
                        snap = g_.iter.id
            cur = self.prog.parents.get(cur)
        # `for k in [k for k in D if ...]: D.pop(k)` with no suspension point in the loop: the keys were taken from D
        # in this very step of the task (A1), whoever else removes from D
        for n in self.I.own_nodes(f):
            if isinstance(n, ast.For) and isinstance(n.target, ast.Name) and n.target.id == k.id and isinstance(n.iter, (ast.ListComp, ast.SetComp)) and len(n.iter.generators) == 1 and any(x is e for x in ast.walk(n)):
                g0 = n.iter.generators[0]
                it0 = g0.iter
                tgt0 = g0.target.elts[0] if isinstance(g0.target, ast.Tuple) and g0.target.elts else g0.target
                src_ok = (isinstance(it0, ast.Call) and isinstance(it0.func, ast.Attribute) and it0.func.attr in ("items", "keys") and norm(it0.func.value) == d_txt) or norm(it0) == d_txt
                from .cfg import has_await

                pops = [x for b in n.body for x in ast.walk(b) if isinstance(x, ast.Call) and isinstance(x.func, ast.Attribute) and x.func.attr in ("pop", "popitem", "clear") and norm(x.func.value) == d_txt]
                if src_ok and norm(n.iter.elt) == norm(tgt0) and not has_await(n) and pops == [e]:
                    return True
        for n in self.I.own_nodes(f):
            if snap is not None:
                break
            if isinstance(n, (ast.For, ast.AsyncFor)) and isinstance(n.iter, ast.Call) and isinstance(n.iter.func, ast.Attribute) and n.iter.func.attr in ("items", "keys") and isinstance(n.iter.func.value, ast.Name):
                tgt = n.target.elts[0] if isinstance(n.target, ast.Tuple) and n.target.elts else n.target
                if isinstance(tgt, ast.Name) and tgt.id == k.id and any(x is e for x in ast.walk(n)):
                    snap = n.iter.func.value.id
            elif isinstance(n, (ast.For, ast.AsyncFor)) and isinstance(n.iter, ast.Name) and isinstance(n.target, ast.Name) and n.target.id == k.id and any(x is e for x in ast.walk(n)):
                snap = n.iter.id
        if snap is None:
            return False
        la = self.I.local_assigns(f).get(snap) or []
        if len(la) != 1 or la[0] is None:
            return False
        v = la[0]
        ok = False
        if isinstance(v, ast.DictComp) and len(v.generators) == 1:
            g = v.generators[0]
            if isinstance(g.iter, ast.Call) and isinstance(g.iter.func, ast.Attribute) and g.iter.func.attr == "items" and norm(g.iter.func.value) == d_txt:
                if isinstance(g.target, ast.Tuple) and len(g.target.elts) == 2 and norm(v.key) == norm(g.target.elts[0]):
                    ok = True
        elif isinstance(v, ast.Call) and isinstance(v.func, ast.Name) and v.func.id in ("list", "tuple", "dict") and len(v.args) == 1:
            a = v.args[0]
            if norm(a) == d_txt or (isinstance(a, ast.Call) and isinstance(a.func, ast.Attribute) and a.func.attr in ("keys", "items") and norm(a.func.value) == d_txt):
                ok = True
        elif isinstance(v, (ast.ListComp, ast.SetComp)) and len(v.generators) == 1:
            # [key for key, value in D.items() if ...]  /  [key for key in D]
            g = v.generators[0]
            it = g.iter
            tgt0 = g.target.elts[0] if isinstance(g.target, ast.Tuple) and g.target.elts else g.target
            src_ok = (isinstance(it, ast.Call) and isinstance(it.func, ast.Attribute) and it.func.attr in ("items", "keys") and norm(it.func.value) == d_txt) or norm(it) == d_txt
            if src_ok and norm(v.elt) == norm(tgt0):
                ok = True
        if not ok:
            return False
        attr = d_txt.rsplit(".", 1)[-1]
        for g_ in self.prog.all_functions():
            if g_ is f:
                continue
            for n in self.I.own_nodes(g_):
                if isinstance(n, ast.Call) and isinstance(n.func, ast.Attribute) and n.func.attr in ("pop", "popitem", "clear") and norm(n.func.value).rsplit(".", 1)[-1] == attr:
                    return False
                if isinstance(n, ast.Delete) and any(isinstance(t, ast.Subscript) and norm(t.value).rsplit(".", 1)[-1] == attr for t in n.targets):
                    return False
        return True

    # ---- marshmallow models

    def schema_class_of_call(self, e: ast.Call, fr: Frame) -> ClassInfo | None:
        if isinstance(e.func, ast.Attribute) and isinstance(e.func.value, ast.Call) and isinstance(e.func.value.func, ast.Name) and e.func.value.func.id == "super":
            return fr.callee.cls or fr.func.cls
        if isinstance(e.func, ast.Attribute) and isinstance(e.func.value, ast.Name) and fr.func.cls is not None and fr.func.positional_params[:1] == [e.func.value.id] and fr.func.cls.find_method(e.func.attr) is None:
            # `self._dump(x)` with `self._dump = self._schema.dump` stored once in __init__: the receiver of that method
            init_ = (fr.callee.cls or fr.func.cls).find_method("__init__")
            st_ = [n_.value for n_ in (self.I.own_nodes(init_) if init_ is not None else []) if isinstance(n_, (ast.Assign, ast.AnnAssign)) and n_.value is not None and any(isinstance(t_, ast.Attribute) and t_.attr == e.func.attr and isinstance(t_.value, ast.Name) for t_ in (n_.targets if isinstance(n_, ast.Assign) else [n_.target]))]
            if len(st_) == 1 and isinstance(st_[0], ast.Attribute):
                c_ = self._repo_class_of_type(self.prog.type_of(init_.module, st_[0].value))
                if c_ is not None:
                    return c_
        if isinstance(e.func, ast.Attribute):
            return self._repo_class_of_type(self.prog.type_of(fr.module, e.func.value))
        if isinstance(e.func, ast.Name):
            # `load = self._schema.load` ... `load(x)`: the receiver of the bound method
            la = self.I.local_assigns(fr.func).get(e.func.id) or []
            if len(la) == 1 and isinstance(la[0], ast.Attribute):
                return self._repo_class_of_type(self.prog.type_of(fr.module, la[0].value))
        return None

    def mm_load(self, e: ast.Call, st: St, _schema: ClassInfo | None = None, _tainted: bool | None = None, _depth: int = 0) -> dict:
        fr = st.fr
        schema = _schema or self.schema_class_of_call(e, fr)
        if schema is None:
            raise AnalysisError(f"Schema.load on a receiver that is not a repository schema at {fr.module.relpath}:{e.lineno}")
        tainted = _tainted if _tainted is not None else (bool(e.args) and self.I.expr_tainted(e.args[0], fr))
        out = self._one(S.MMVE, self.site(fr, e, "call:marshmallow.schema.Schema.load", f"{schema.name}.load(...)"), fr)
        if _depth > 5:
            return out
        # hooks
        for c in schema.repo_mro():
            for fl in c.methods.values():
                for f in fl:
                    decs = f.decorator_names
                    if any(d.split("(")[0].split(".")[-1] == "pre_load" for d in decs):
                        params = f.positional_params
                        t = frozenset([params[1]]) if tainted and len(params) > 1 else frozenset()
                        sub = self.escapes(Frame(self.I.make_callee(f, schema), fr.V, (), t))
                        out = self.merge(out, self._through(sub, fr))
                    elif any(d.split("(")[0].split(".")[-1] in ("post_load", "validates", "validates_schema") for d in decs):
                        sub = self.escapes(Frame(self.I.make_callee(f, schema), fr.V))
                        out = self.merge(out, self._through(sub, fr))
        # fields
        prev = self._cur_schema_keys
        self._cur_schema_keys = self.hook_complete_keys(schema)
        try:
            for c in schema.repo_mro():
                for nm, val in c.attr_order:
                    fe = self.field_expr(c.module, val)
                    if fe is None:
                        continue
                    fm, fcall = fe
                    out = self.merge(out, self._field_load(fm, fcall, e, st, tainted, _depth))
        finally:
            self._cur_schema_keys = prev
        return out

    def hook_complete_keys(self, schema: ClassInfo):
        """Keys certainly present in the mapping a pre_load hook returns.

        Recognised: `X = <...>.split(...)`; `if len(X) != len(self.fields): raise ...` (or `<`);
        `return dict(zip(self.fields, X, ...))`  ->  every schema field is a key.
        """
        hooks = []
        for c in schema.repo_mro():
            for fl in c.methods.values():
                for f in fl:
                    if any(d.split("(")[0].split(".")[-1] == "pre_load" for d in f.decorator_names):
                        hooks.append(f)
        if not hooks:
            return None
        # a hook whose returned mapping is built in a way that is not modelled gives no verdict on the keys it has
        # (neither "all fields" nor "some missing"): a field deserialiser that reads other fields out of that mapping
        # stops the rule with an analysis error (see _field_load)
        unmodelled = ("<unmodelled>", schema.name)
        if len(hooks) != 1:
            return unmodelled
        f = hooks[0]
        rets = [n for n in self.I.own_nodes(f) if isinstance(n, ast.Return)]
        if len(rets) != 1 or not isinstance(rets[0].value, ast.Call):
            return unmodelled
        r = rets[0].value
        if not (isinstance(r.func, ast.Name) and r.func.id == "dict" and len(r.args) == 1 and isinstance(r.args[0], ast.Call)):
            return unmodelled
        z = r.args[0]
        from .prov import Canon as _Canon

        if not (isinstance(z.func, ast.Name) and z.func.id == "zip" and len(z.args) == 2 and _Canon(self.I, f, "").canon(z.args[0]) == "self.fields" and isinstance(z.args[1], ast.Name)):
            return unmodelled
        lst = z.args[1].id
        guard = False
        # the return is reached only when len(<lst>) equals (is not below) len(self.fields) - whatever the statement
        # form of that test (raise-guard before the return, or the return inside the positive branch)
        from .cfg import CFG as _CFG

        if len(self.I.local_assigns(f).get(lst) or []) == 1:
            g_ = _CFG(f.node)
            cn = _Canon(self.I, f, "")
            retn = g_.nodes_where(lambda x: x.contains(rets[0]))
            want_a = cn.canon(ast.parse(f"len({lst})", mode="eval").body)
            for t in g_.nodes:
                if t.kind != "test" or not retn or not all(g_.dominates(t, r_) for r_ in retn):
                    continue
                te, neg = t.ast, False
                while isinstance(te, ast.UnaryOp) and isinstance(te.op, ast.Not):
                    te, neg = te.operand, not neg
                if not (isinstance(te, ast.Compare) and len(te.ops) == 1):
                    continue
                a, b, op = cn.canon(te.left), cn.canon(te.comparators[0]), type(te.ops[0])
                if (a, b) == ("len(self.fields)", want_a):
                    a, b = b, a
                    op = {ast.Lt: ast.Gt, ast.Gt: ast.Lt, ast.LtE: ast.GtE, ast.GtE: ast.LtE}.get(op, op)
                if (a, b) != (want_a, "len(self.fields)"):
                    continue
                pol = g_.polarity(t, retn)
                if pol is None:
                    continue
                if neg:
                    pol = not pol
                if (op in (ast.Eq, ast.GtE) and pol is True) or (op in (ast.NotEq, ast.Lt) and pol is False):
                    guard = True
        if not guard:
            return None
        names = self.schema_field_names(schema)
        meta = schema.nested_classes.get("Meta")
        if meta is not None and "fields" in meta.attrs:
            try:
                names = list(self.I.folder.fold(schema.module, meta.attrs["fields"]))
            except Exception:  # noqa: BLE001
                return None
        return tuple(names or ())

    def _field_load(self, fm: Module, fcall: ast.Call, e: ast.Call, st: St, tainted: bool, depth: int) -> dict:
        fr = st.fr
        out: dict = {}
        # validate=<function of the repository> (or a list of them): marshmallow calls it with the deserialised value
        # and turns only ValidationError into a field error - anything else the function raises leaves Schema.load
        for kw in fcall.keywords:
            if kw.arg != "validate":
                continue
            for ve in (kw.value.elts if isinstance(kw.value, (ast.List, ast.Tuple)) else [kw.value]):
                vd = self.prog.resolve_expr(fm, ve) if isinstance(ve, (ast.Name, ast.Attribute)) else None
                if vd is not None and vd.kind == "func":
                    vf = vd.obj
                    first = [p for p in vf.positional_params if p not in ("self", "cls")][:1]
                    sub = self.escapes(Frame(self.I.make_callee(vf, vf.cls), fr.V, (), frozenset(first) if tainted else frozenset()))
                    out = self.merge(out, self._through(sub, fr))
        d = self.prog.resolve_expr(fm, fcall.func)
        if d is None:
            return out
        if d.kind == "class":
            fc: ClassInfo = d.obj
            if any(isinstance(b, str) and b.startswith("marshmallow.fields") for b in fc.mro()):
                des = fc.find_method("_deserialize")
                if des is not None:
                    # value/data come from the (possibly short / ill-typed) input mapping
                    facts = frozenset()
                    pp = des.positional_params
                    unmodelled = bool(self._cur_schema_keys) and self._cur_schema_keys[0] == "<unmodelled>"
                    if self._cur_schema_keys and len(pp) >= 4 and not unmodelled:
                        facts = frozenset(("in", repr(k), pp[3]) for k in self._cur_schema_keys)
                    sub = self.escapes(Frame(self.I.make_callee(des, fc), fr.V, (), frozenset(), facts))
                    if unmodelled and len(pp) >= 4 and any(x == S.KE and site_.kind == "subscript" and site_.text.startswith(pp[3] + "[") for (x, site_) in sub):
                        raise AnalysisError(f"the mapping returned by the pre_load hook of {self._cur_schema_keys[1]} is not built as dict(zip(self.fields, <list>)): whether it has the keys that {fc.name}._deserialize reads is not modelled")
                    out = self.merge(out, self._through(sub, fr))
            return out
        if d.kind == "external":
            nm = d.obj
            if nm.endswith(("fields.Nested",)):
                if fcall.args:
                    nd = self.prog.resolve_expr(fm, fcall.args[0])
                    if nd is not None and nd.kind == "class":
                        out = self.merge(out, self.mm_load(e, st, _schema=nd.obj, _tainted=tainted, _depth=depth + 1))
                    else:
                        raise AnalysisError(f"Nested schema {norm(fcall.args[0])} not resolved")
            elif nm.endswith(("fields.Dict", "fields.List", "fields.Tuple")):
                for sub in list(fcall.args) + [kw.value for kw in fcall.keywords if kw.arg in ("keys", "values", "cls_or_instance")]:
                    if isinstance(sub, ast.Call):
                        out = self.merge(out, self._field_load(fm, sub, e, st, tainted, depth))
            # built-in scalar fields: ValidationError only (already included)
        return out

    def mm_dump(self, e: ast.Call, st: St) -> dict:
        fr = st.fr
        schema = self.schema_class_of_call(e, fr)
        if schema is None:
            raise AnalysisError(f"Schema.dump on a receiver that is not a repository schema at {fr.module.relpath}:{e.lineno}")
        out: dict = {}
        # A3: an object of the annotated class whose constructor stores every schema field dumps to a mapping with all fields
        complete = False
        if e.args:
            oc = self._repo_class_of_type(self.prog.type_of(fr.module, e.args[0]))
            if oc is not None:
                attrs = set(self.I.stored_params(oc).values())
                names = set(self.schema_field_names(schema) or [])
                complete = bool(names) and names <= attrs
        for c in schema.repo_mro():
            for fl in c.methods.values():
                for f in fl:
                    if any(d.split("(")[0].split(".")[-1] in ("post_dump", "pre_dump") for d in f.decorator_names):
                        pp = f.positional_params
                        facts = frozenset([("allfields", pp[1])]) if complete and len(pp) > 1 else frozenset()
                        sub = self.escapes(Frame(self.I.make_callee(f, schema), fr.V, (), frozenset(), facts))
                        out = self.merge(out, self._through(sub, fr))
            for nm, val in c.attr_order:
                fe = self.field_expr(c.module, val)
                if fe is None:
                    continue
                fm, fcall = fe
                d = self.prog.resolve_expr(fm, fcall.func)
                if d is not None and d.kind == "class":
                    ser = d.obj.find_method("_serialize")
                    if ser is not None:
                        sub = self.escapes(Frame(self.I.make_callee(ser, d.obj), fr.V))
                        out = self.merge(out, self._through(sub, fr))
        return out

    # ------------------------------------------------------------------ failure accounting

    def check_complete(self) -> None:
        problems = []
        for k, v in self.missing_summaries.items():
            problems.append(f"external callee without summary: {k} (first seen {v})")
        for k, v in self.unknown_calls.items():
            problems.append(f"unresolved: {k} ({v})")
        if problems:
            raise AnalysisError("; ".join(problems[:12]) + (f" … +{len(problems) - 12} more" if len(problems) > 12 else ""))

    def stats(self) -> dict:
        return {
            "frames_analysed": self.frames_analysed,
            "call_sites_seen": len(self.call_sites_seen),
            "call_sites_unresolved": len(self.call_sites_unresolved),
            "obligations": self.obligations,
            "guard_discharges": len(self.discharged),
            "external_summaries_consulted": len(self.summaries_used),
            "suppressions_used": list(self.suppressions_used),
        }
