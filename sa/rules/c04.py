"""C04 Registry is a faithful record of what the network presented and reported."""

from __future__ import annotations

import ast

from ..cfg import CFG
from ..interp import Callee, Frame
from ..model import AnalysisError, FuncInfo, norm
from ..prov import Canon, canon, message_param
from .common import Ctx, OnlyRule, callee_names, fkey
from . import tables

NODE_T = "aiomysensors.model.node.Node"
CHILD_T = "aiomysensors.model.node.Child"
MUTATORS = {"pop", "popitem", "clear", "update", "setdefault", "__setitem__", "__delitem__"}
REG_METHODS = {"add_child", "set_child_value", "remove_child"}

NUMERIC = ("round(float(In.payload))", "int(In.payload)", "int(float(In.payload))", "round(float(In.payload), 0)")

# expected registry writes per handler name (canonical provenance terms), read off the statement
EXPECTED = {
    "handle_presentation": {
        ("STORE gateway.nodes[In.node_id] = Node(In.node_id, In.message_type, In.payload)",),
        ("CALL gateway.nodes[In.node_id].add_child(In.child_id, In.message_type, description=In.payload)", "CALL gateway.nodes[In.node_id].add_child(In.child_id, In.message_type, In.payload)"),
    },
    "handle_set": {("CALL gateway.nodes[In.node_id].set_child_value(In.child_id, In.message_type, In.payload)",)},
    "handle_i_battery_level": {tuple(f"ATTR gateway.nodes[In.node_id].battery_level = {n}" for n in NUMERIC)},
    "handle_i_sketch_name": {("ATTR gateway.nodes[In.node_id].sketch_name = In.payload",)},
    "handle_i_sketch_version": {("ATTR gateway.nodes[In.node_id].sketch_version = In.payload",)},
}
HEARTBEAT = ("ATTR gateway.nodes[In.node_id].heartbeat = int(In.payload)",)
SLEEPING = ("ATTR gateway.nodes[In.node_id].sleeping = True",)


def run(ctx: Ctx, chk) -> None:
    chk.assume("A1", "A3")
    chk.run_rule(prov_reg, ctx)
    chk.run_rule(must_reg, ctx)
    chk.run_rule(node_methods, ctx)
    chk.run_rule(guard_mut, ctx)
    chk.run_rule(who_reg, ctx)
    chk.run_rule(listen1, ctx)
    chk.run_rule(lambda c, k: tables.dispatch_total_rule(c, k, "incoming"), ctx)
    chk.run_rule(reject_set, ctx)
    chk.run_rule(reject_esc, ctx)
    chk.run_rule(reject_reaches, ctx)
    chk.run_rule(reject_names, ctx)
    chk.run_rule(tables.handler_state_rule, ctx)
    chk.run_rule(ctor_identity, ctx)
    chk.run_rule(placeholder_fresh, ctx)


# ---------------------------------------------------------------------------


def reject_names(ctx: Ctx, chk) -> None:
    rule = "REJECT-NAMES"
    chk.rule(rule, "the error for an unknown node or child names it: every `raise MissingNodeError(<x>)` in the package is built from a node id (`<message>.node_id`, a parameter / attribute called node_id), every `raise MissingChildError(<x>)` from a child id - the statement: 'fails with an error that names that node or child'")
    want = {"MissingNodeError": "node_id", "MissingChildError": "child_id"}
    n = 0
    for f in ctx.prog.all_functions():
        raises = [x for x in ctx.own_nodes(f) if isinstance(x, ast.Raise) and isinstance(x.exc, ast.Call) and norm(x.exc.func).rsplit(".", 1)[-1] in want]
        if not raises:
            continue
        cn = Canon(ctx.I, f, "")
        for r in raises:
            cls_ = norm(r.exc.func).rsplit(".", 1)[-1]
            n += 1
            chk.instance(rule)
            key = f"{f.fq}::raise {cls_}"
            if len(r.exc.args) != 1 or r.exc.keywords:
                raise AnalysisError(f"REJECT-NAMES: `{norm(r.exc)[:60]}` in {f.qualname} is not built from one positional argument ({ctx.loc(f, r)})")
            a = cn.canon(r.exc.args[0])
            tail = a.rsplit(".", 1)[-1]
            if tail == want[cls_]:
                chk.ok(rule, key, f"{cls_}({a})", ctx.loc(f, r), sample=n <= 3)
            elif tail in want.values():
                chk.refute(rule, key, f"`{norm(r.exc)[:70]}` in {f.qualname} names the {tail.replace('_id', '')} (`{a}`) in a {cls_}: the error for an unknown {want[cls_].replace('_id', '')} does not say which {want[cls_].replace('_id', '')} is missing", ctx.loc(f, r))
            else:
                raise AnalysisError(f"REJECT-NAMES: the argument `{a[:60]}` of {cls_} in {f.qualname} is not recognised as a node / child id ({ctx.loc(f, r)})")
    chk.floor(rule, "raise sites of MissingNodeError / MissingChildError", n, 2)


LICENSED_REJECTIONS = {
    # handler -> exception classes its own body may raise (what the statement and C05/C11 name): a report is refused
    # only because its node / child is unknown or its payload is not the number it must be
    "handle_presentation": {"MissingNodeError"},
    "handle_set": {"MissingNodeError", "MissingChildError"},
    "handle_req": {"MissingNodeError", "MissingChildError"},
    "handle_i_battery_level": {"MissingNodeError", "InvalidMessageError"},
    "handle_i_sketch_name": {"MissingNodeError"},
    "handle_i_sketch_version": {"MissingNodeError"},
    "handle_i_heartbeat_response": {"MissingNodeError", "InvalidMessageError"},
    "handle_i_pre_sleep_notification": {"MissingNodeError"},
}


def ctor_identity(ctx: Ctx, chk) -> None:
    rule = "CTOR-ID"
    chk.rule(rule, "Node and Child store every constructor argument as it was given (self.<attr> = <param>, containers defaulting to empty): what a handler hands to the constructor - the presented type, library version, description - is what the registry holds")
    n = 0
    for cfq in ("aiomysensors.model.node.Node", "aiomysensors.model.node.Child"):
        c = ctx.cls(cfq)
        init = c.find_method("__init__")
        if init is None:
            raise AnalysisError(f"anchor vanished: {cfq}.__init__")
        selfn = init.positional_params[0]
        for st in ctx.own_nodes(init):
            if not isinstance(st, (ast.Assign, ast.AnnAssign)):
                continue
            tg = st.targets[0] if isinstance(st, ast.Assign) else st.target
            if not (isinstance(tg, ast.Attribute) and isinstance(tg.value, ast.Name) and tg.value.id == selfn) or st.value is None:
                continue
            used = [x.id for x in ast.walk(st.value) if isinstance(x, ast.Name) and x.id in init.params and x.id != selfn]
            if not used:
                continue
            n += 1
            chk.instance(rule)
            key = f"{init.fq}::self.{tg.attr}"
            v = st.value
            p = used[0]
            ann = norm(init.param_annotation(p)) if init.param_annotation(p) is not None else ""
            container = any(k in ann for k in ("dict", "Dict", "list", "List", "Mapping")) or "None" in ann
            identity = isinstance(v, ast.Name) and v.id == p
            # int(<int parameter>): value-preserving normalisation of an IntEnum member to its number
            if isinstance(v, ast.Call) and isinstance(v.func, ast.Name) and v.func.id == "int" and len(v.args) == 1 and not v.keywords and isinstance(v.args[0], ast.Name) and v.args[0].id == p and ann == "int":
                identity = True
            # `param or {}` / `{} if param is None else param` for an optional container parameter
            dflt = False
            if container and isinstance(v, ast.BoolOp) and isinstance(v.op, ast.Or) and len(v.values) == 2 and isinstance(v.values[0], ast.Name) and v.values[0].id == p and isinstance(v.values[1], (ast.Dict, ast.List)) and not (v.values[1].keys if isinstance(v.values[1], ast.Dict) else v.values[1].elts):
                dflt = True
            if container and isinstance(v, ast.IfExp) and sorted([norm(v.body), norm(v.orelse)]) in (sorted([p, "{}"]), sorted([p, "[]"])):
                dflt = True
            if identity or dflt:
                chk.ok(rule, key, f"self.{tg.attr} = {norm(v)[:40]}", ctx.loc(init, st), sample=n <= 2)
            else:
                chk.refute(rule, key, f"`{norm(st)[:70]}` does not store the argument as given: a value the network presented (e.g. an empty library version or description) is replaced by something else in the registry", ctx.loc(init, st))
    chk.floor(rule, "constructor parameters stored by Node / Child", n, 10)


def reject_esc(ctx: Ctx, chk) -> None:
    rule = "REJECT-ESC"
    chk.rule(rule, "nothing else stops a report from being recorded: for every protocol version, the exceptions that can propagate out of a reporting handler (its wrappers, helpers and the replies it sends included - interprocedural escape analysis) are the rejections the statement names for it, a payload / version the handler it delegates to refuses, or a transport error of a reply; any other exception (from a log call, a lookup, a conversion) aborts the handler before or after the registry write, so the registry is no longer what the network reported")
    from ..interp import Frame

    eea = ctx.eea()
    cells = tables.handler_cells(ctx)
    transport = "aiomysensors.exceptions.TransportError"
    extra = {"handle_presentation": {"InvalidMessageError"}}  # a gateway presentation carries the version report (C05)
    n = 0
    seen = set()
    for V in ctx.versions:
        for cell, cal in cells[V].items():
            if cal is None:
                continue
            name = cal.chain()[-1].func.name
            lic = LICENSED_REJECTIONS.get(name)
            if lic is None:
                continue
            n += 1
            esc = eea.escapes(Frame(cal, V))
            for (exc, site), _path in sorted(esc.items(), key=lambda kv: (kv[0][1].loc(), kv[0][0])):
                short = exc.rsplit(".", 1)[-1]
                key = f"{site.key()}::{short}"
                if key in seen:
                    continue
                seen.add(key)
                chk.instance(rule)
                if short in lic or short in extra.get(name, ()) or eea.issub(exc, transport):
                    chk.ok(rule, key, f"{short}: a rejection the statement names (or the failure of a reply)", site.loc(), sample=False)
                else:
                    chk.refute(rule, key, f"{short} can propagate out of {name} (protocol {V}) from `{site.text[:70]}`: the statement lets this handler refuse a report only with {sorted(lic)}; this exception aborts the handler for some well-formed reports, which are then not recorded (or recorded but not yielded)", site.loc(), version=V)
    chk.floor(rule, "reporting handler cells", n, 30)


def reject_reaches(ctx: Ctx, chk) -> None:
    rule = "REJECT-REACHES"
    chk.rule(rule, "a message that refers to an unknown node or child fails with the error that names it: on the way from the reporting handlers to Gateway.listen (handlers, decorator wrappers, listen itself) no `except` clause that can catch MissingNodeError / MissingChildError completes without raising, and no `with` statement around the handler call can swallow it (contextlib.suppress, a manager whose exit returns a truthy value) - whatever the gateway's state")
    from .c05 import _always_reraises, _catches, suppressing_withs

    errs = ("aiomysensors.exceptions.MissingNodeError", "aiomysensors.exceptions.MissingChildError")
    funcs = [f for f in tables.all_handler_defs(ctx, include_wrappers=True)]
    # ... and every definition on the dispatch chains (decorator wrappers however they are applied)
    cells = tables.handler_cells(ctx)
    for V in ctx.versions:
        for cal in cells[V].values():
            if cal is None:
                continue
            for f in tables.chain_defs(ctx, cal, V):
                if f not in funcs:
                    funcs.append(f)
    funcs.append(ctx.func("aiomysensors.gateway.Gateway.listen"))
    n = 0
    for f in funcs:
        fi = ctx.inl(f, lambda h: not h.name.startswith("handle_"))
        pm = {c_: p_ for p_ in ast.walk(fi.node) for c_ in ast.iter_child_nodes(p_)}
        for h in [x for x in ctx.own_nodes(fi) if isinstance(x, ast.ExceptHandler)]:
            tr = pm.get(h)
            if not isinstance(tr, ast.Try) or not any(isinstance(x, ast.Await) for b in tr.body for x in ast.walk(b)):
                continue
            if not any(_catches(ctx, fi, h, e) for e in errs):
                continue
            n += 1
            chk.instance(rule)
            key = f"{f.fq}::except {norm(h.type) if h.type is not None else ''}"
            if _always_reraises(h):
                chk.ok(rule, key, "the clause ends in a raise on every path", ctx.loc(fi, h), sample=n <= 2)
            else:
                chk.refute(rule, key, f"`except {norm(h.type) if h.type is not None else ''}` in {f.qualname} can catch the error for an unknown node / child and complete without raising: the message is yielded as if it had been handled", ctx.loc(fi, h))
        seen_w = set()
        for w, why in suppressing_withs(ctx, fi, errs[0]):
            if id(w) in seen_w:
                continue
            seen_w.add(id(w))
            n += 1
            chk.instance(rule)
            chk.refute(rule, f"{f.fq}::with::{norm(w.items[0].context_expr)[:50]}", f"the `with` statement in {f.qualname} can swallow the error for an unknown node / child ({why}): the message is yielded as if it had been handled and nobody learns that it referred to something that is not in the registry", ctx.loc(fi, w))
    chk.instance(rule)
    chk.ok(rule, "aiomysensors::scanned", f"{len(funcs)} handler / wrapper definitions and Gateway.listen scanned, {n} clause(s) / with statement(s) can see the rejection", "src/aiomysensors/model/protocol", sample=False)
    chk.floor(rule, "handler and wrapper definitions scanned", len(funcs), 25)


def reject_set(ctx: Ctx, chk) -> None:
    rule = "REJECT-SET"
    chk.rule(rule, "a reporting handler (presentation, set, req, battery, sketch, heartbeat, pre-sleep) refuses a received message only for the reasons the statement names - unknown node, unknown child, a payload that is not the required number; every other well-formed report is recorded (no further `raise` of another error class in the handler or the private helpers it calls)")
    n = 0
    for f0 in tables.all_handler_defs(ctx):
        lic = LICENSED_REJECTIONS.get(f0.name)
        if lic is None:
            continue
        f = ctx.inl(f0, lambda h: not h.name.startswith("handle_"))
        for node in ctx.own_nodes(f):
            if not isinstance(node, ast.Raise) or node.exc is None:
                continue
            x = node.exc.func if isinstance(node.exc, ast.Call) else node.exc
            nm = norm(x).rsplit(".", 1)[-1]
            if isinstance(node.exc, ast.Name) and not nm[:1].isupper():
                continue  # re-raise of a caught exception object
            n += 1
            chk.instance(rule)
            key = f"{f0.fq}::raise {nm}"
            if nm in lic:
                chk.ok(rule, key, f"{nm} is a rejection the statement names for {f0.name}", ctx.loc(f, node), sample=n <= 2)
            else:
                chk.refute(rule, key, f"{f0.qualname} refuses a report with {nm} (`{norm(node)[:70]}`): the statement lets this handler refuse a message only with {sorted(lic)}; a report rejected for another reason is not recorded although the network presented it", ctx.loc(f, node))
    chk.floor(rule, "raise sites in reporting handlers", n, 8)


def registry_events(ctx: Ctx, f: FuncInfo) -> list[tuple[str, ast.AST]]:
    """Canonical registry write events of one function body."""
    I = ctx.I
    out = []
    cn = Canon(I, f)
    for n in ctx.own_nodes(f):
        if isinstance(n, (ast.Assign, ast.AugAssign, ast.AnnAssign)):
            targets = n.targets if isinstance(n, ast.Assign) else [n.target]
            val = n.value
            for t in targets:
                if isinstance(t, ast.Subscript):
                    base = cn.canon(t.value)
                    if base.endswith(".nodes") or base == "self.nodes" or ".children" in base or base.endswith(".values"):
                        if base.startswith(("gateway.nodes", "self.nodes", "self.children", "gateway.nodes[")) or ".nodes[" in base or base.startswith("self."):
                            if _is_registry_expr(ctx, f, t.value):
                                out.append((f"STORE {base}[{cn.canon(t.slice)}] = {cn.canon(val) if val is not None else '?'}", n))
                elif isinstance(t, ast.Attribute):
                    if _is_registry_obj(ctx, f, t.value):
                        base = cn.canon(t.value)
                        out.append((f"ATTR {base}.{t.attr} = {cn.canon(val) if val is not None else '?'}", n))
        elif isinstance(n, ast.Call) and isinstance(n.func, ast.Attribute):
            if n.func.attr in REG_METHODS and _is_registry_obj(ctx, f, n.func.value):
                args = ", ".join([cn.canon(a) for a in n.args] + [f"{k.arg}={cn.canon(k.value)}" for k in n.keywords])
                out.append((f"CALL {cn.canon(n.func.value)}.{n.func.attr}({args})", n))
            elif n.func.attr in MUTATORS and _is_registry_expr(ctx, f, n.func.value):
                args = ", ".join(cn.canon(a) for a in n.args)
                out.append((f"MUTATE {cn.canon(n.func.value)}.{n.func.attr}({args})", n))
        elif isinstance(n, ast.Delete):
            for t in n.targets:
                if isinstance(t, ast.Subscript) and _is_registry_expr(ctx, f, t.value):
                    out.append((f"DELETE {cn.canon(t.value)}[{cn.canon(t.slice)}]", n))
    return out


def _type(ctx: Ctx, f: FuncInfo, e: ast.expr) -> str:
    return ctx.prog.type_of(f.module, e) or ""


def _is_registry_obj(ctx: Ctx, f: FuncInfo, e: ast.expr) -> bool:
    t = _type(ctx, f, e)
    return t.split(" | ")[0] in (NODE_T, CHILD_T)


def _is_registry_expr(ctx: Ctx, f: FuncInfo, e: ast.expr) -> bool:
    t = _type(ctx, f, e)
    if t.startswith((f"builtins.dict[builtins.int, {NODE_T}", f"builtins.dict[builtins.int, {CHILD_T}", f"dict[int, {NODE_T}", f"dict[int, {CHILD_T}")):
        return True
    if t.startswith(("builtins.dict[builtins.int, builtins.str", "dict[int, str")) and isinstance(e, ast.Attribute) and e.attr == "values":
        return True
    return False


def prov_reg(ctx: Ctx, chk) -> None:
    rule = "PROV-REG"
    chk.rule(rule, "the terms each handler writes to the registry equal the table of the statement: node presentation (re)creates Node(node, type, payload) with no children, child presentation add_child(child, type, description=payload), set -> set_child_value(child, type, payload), battery/sketch/heartbeat update the same-named attribute from the payload")
    I = ctx.I
    cells = tables.handler_cells(ctx)
    n = 0
    seen_defs = set()
    for V in ctx.versions:
        for cell, callee in cells[V].items():
            if callee is None:
                continue
            name = callee.chain()[-1].func.name
            want = _expected_for(ctx, V, cell, name)
            if want is None:
                continue
            n += 1
            chk.instance(rule)
            got: list[tuple[str, FuncInfo, ast.AST]] = []
            fs = tables.chain_and_helpers(ctx, callee, V)
            written_out: set = set()
            fis = []
            for f in fs:
                fi = ctx.inl(f, lambda h: not h.name.startswith("handle_"))  # helper bodies are judged where they are called
                fis.append((f, fi))
                written_out |= set(getattr(fi, "inlined", []))
            for f, fi in fis:
                if f.qualname in written_out and f is not callee.chain()[-1].func:
                    continue  # a helper whose statements already appear in its caller
                evs = registry_events(ctx, fi)
                # the transient use of the sleeping mark (cleared while the node is served, set again on every way out)
                # leaves the registry as the statement says once the message is handled: what it does to commands
                # sent meanwhile is C09's subject.  Such a pair counts as the one final `sleeping = True`.
                trans = [(ev, node) for ev, node in evs if ".sleeping = " in ev and not ev.endswith(".sleeping = True")]
                if trans:
                    g_ = CFG(fi.node)
                    trues = [x for x in g_.nodes if x.kind == "stmt" and any(x.ast is node for ev, node in evs if ev.endswith(".sleeping = True"))]
                    restored = bool(trues) and all(g_.reach_avoiding(g_.nodes_of(node), lambda x: x is g_.exit, lambda x: x in trues, from_succ=True) is None for _ev, node in trans)
                    if restored:
                        once = False
                        keep = []
                        for ev, node in evs:
                            if (ev, node) in trans:
                                continue
                            if ev.endswith(".sleeping = True"):
                                if once or any(e2.endswith(".sleeping = True") for e2, _f2, _n2 in got):
                                    continue
                                once = True
                            keep.append((ev, node))
                        evs = keep
                for ev, node in evs:
                    got.append((_fold_field_none_tests(ev), f, node))
            key = f"{name}@{V}"
            missing = [alts for alts in want if not any(g[0] in alts for g in got)]
            extra = [g for g in got if not any(g[0] in alts for alts in want)]
            dup = [alts for alts in want if sum(1 for g in got if g[0] in alts) > 1]
            if not missing and not extra and not dup:
                chk.ok(rule, key, "; ".join(g[0] for g in got) or "no registry write", got[0][1].where if got else "", sample=(name, ) not in seen_defs and len(seen_defs) < 4)
                seen_defs.add((name,))
            else:
                _unmodelled_effects(ctx, name, V, want, extra, [fi for _f, fi in fis])
                for alts in missing:
                    f0 = callee.chain()[-1].func
                    chk.refute(rule, f"{name}::missing::{alts[0]}", f"handler {name} (protocol {V}) does not perform the registry write `{alts[0]}`; it performs {[g[0] for g in got] or 'none'}", f0.where, version=V)
                for ev, f, node in extra:
                    chk.refute(rule, f"{f.fq}::{ev}", f"registry write `{ev}` in {f.qualname} is not what the statement specifies for {name}: expected {[a[0] for a in want]}", ctx.loc(f, node), version=V)
                for alts in dup:
                    chk.refute(rule, f"{name}::duplicate::{alts[0]}", f"the write `{alts[0]}` is performed more than once along the handler chain of {name} (protocol {V})", callee.chain()[-1].func.where, version=V)
    chk.floor(rule, "handler-table cells with registry effects", n, 25)


def _fold_field_none_tests(ev: str) -> str:
    """`A if In.<field> is None else B` -> B (and the `is not None` form -> A): the six fields of a decoded message are
    required and typed (DECL-1), never None - a helper that defaults its optional parameters this way stores B."""
    if " if In." not in ev or " is " not in ev:
        return ev
    head, _, body = ev.partition(" ")
    try:
        tree = ast.parse(body, mode="exec")
    except SyntaxError:
        return ev

    class _F(ast.NodeTransformer):
        def visit_IfExp(self, n):
            self.generic_visit(n)
            t = n.test
            if isinstance(t, ast.Compare) and len(t.ops) == 1 and isinstance(t.ops[0], (ast.Is, ast.IsNot)) and isinstance(t.comparators[0], ast.Constant) and t.comparators[0].value is None and isinstance(t.left, ast.Attribute) and isinstance(t.left.value, ast.Name) and t.left.value.id == "In" and t.left.attr in ("node_id", "child_id", "command", "ack", "message_type", "payload"):
                return n.orelse if isinstance(t.ops[0], ast.Is) else n.body
            return n

    return f"{head} {norm(_F().visit(tree).body[0])}" if tree.body else ev


_PURE_CALLS = ("int", "float", "round", "str", "len", "min", "max", "abs", "bool", "get", "Node", "Child", "dict", "list", "tuple")


def _unmodelled_effects(ctx: Ctx, name: str, V: str, want, extra, fis) -> None:
    """Before a difference to the table is reported: a write whose term goes through repository code the comparison
    does not look into (a value object, a conditional expression that depends on a run-time value), or a handler that
    reaches the registry through a private collaborator class of the package, is not *known* to differ - no verdict."""
    from .common import callee_names

    allowed = set(_PURE_CALLS)
    for alts in want:
        for a in alts:
            try:
                for n_ in ast.walk(ast.parse(a.split(" ", 1)[1] if " " in a else a, mode="exec")):
                    if isinstance(n_, ast.Call):
                        allowed.add(n_.func.id if isinstance(n_.func, ast.Name) else n_.func.attr if isinstance(n_.func, ast.Attribute) else "")
            except SyntaxError:
                continue
    for ev, f, node in extra:
        body = ev.split(" ", 1)[1] if " " in ev else ev
        try:
            tr_ = ast.parse(body, mode="exec")
        except SyntaxError:
            continue
        for n_ in ast.walk(tr_):
            if isinstance(n_, ast.Call):
                nm_ = n_.func.id if isinstance(n_.func, ast.Name) else n_.func.attr if isinstance(n_.func, ast.Attribute) else ""
                if nm_ not in allowed:
                    raise AnalysisError(f"registry writes: the write `{ev[:90]}` of {name} (protocol {V}) goes through `{nm_}(...)`, which the comparison with the table does not look into")
    for fi in fis:
        for n_ in ctx.own_nodes(fi):
            if not (isinstance(n_, ast.Call) and isinstance(n_.func, (ast.Name, ast.Attribute))):
                continue
            try:
                names = callee_names(ctx, fi, n_)
            except AnalysisError:
                continue
            for nm in names:
                if not nm.startswith("aiomysensors."):
                    continue
                try:
                    h = ctx.func(nm)
                except (AnalysisError, KeyError):
                    try:
                        c_ = ctx.cls(nm)
                    except (AnalysisError, KeyError):
                        continue
                    if c_.name.startswith("_"):
                        raise AnalysisError(f"registry writes: {name} (protocol {V}) reaches the registry through the private collaborator class {c_.name} (`{norm(n_)[:60]}`), which is not written out: its writes are not compared with the table")
                    continue
                if h is not None and h.cls is not None and h.cls.name.startswith("_"):
                    raise AnalysisError(f"registry writes: {name} (protocol {V}) reaches the registry through the private collaborator class {h.cls.name} (`{norm(n_)[:60]}`), which is not written out: its writes are not compared with the table")


def must_reg(ctx: Ctx, chk) -> None:
    rule = "MUST-REG"
    chk.rule(rule, "every normal path through every definition on the chain of a reporting handler passes through one of the specified registry writes or through the delegation to the next chain element (wrapped function, super() handler, version handler): no received report is accepted (returned, yielded) without being recorded")
    I = ctx.I
    cells = tables.handler_cells(ctx)
    done = set()
    n = 0
    for V in ctx.versions:
        for cell, callee in cells[V].items():
            if callee is None:
                continue
            name = callee.chain()[-1].func.name
            want = _expected_for(ctx, V, cell, name)
            if not want:
                continue
            chain = tables.chain_defs(ctx, callee, V)
            alts = {a for alt in want for a in alt}
            for f in chain:
                if (f, name) in done:
                    continue
                done.add((f, name))
                fi = ctx.inl(f, lambda h: not h.name.startswith("handle_"))
                g = CFG(fi.node)
                ev_nodes = []
                for ev, node in registry_events(ctx, fi):
                    if _fold_field_none_tests(ev) in alts:
                        ev_nodes += g.nodes_where(lambda x, node=node: x.contains(node))
                # delegation: super().<same>(...), the wrapped function of a decorator wrapper, another handler of the class
                deleg = []
                wrapped_params = ctx.I.wrapped_param_names(f)
                for c in ctx.own_nodes(fi):
                    if not isinstance(c, ast.Call):
                        continue
                    fn = c.func
                    is_super = isinstance(fn, ast.Attribute) and isinstance(fn.value, ast.Call) and norm(fn.value.func) == "super"
                    is_wrapped = isinstance(fn, ast.Name) and fn.id in wrapped_params
                    is_handler = isinstance(fn, ast.Attribute) and isinstance(fn.value, ast.Name) and fn.value.id in ("cls", "self") and fn.attr.startswith("handle_")
                    if is_super or is_wrapped or is_handler:
                        deleg += g.nodes_where(lambda x, c=c: x.contains(c))
                n += 1
                chk.instance(rule)
                key = f"{f.fq}::records::{name}"
                stop = set(ev_nodes) | set(deleg)
                p = g.reach_avoiding([g.entry], lambda x: x is g.exit, lambda x: x in stop, labels_skip=("exc",), from_succ=False)
                if p is None:
                    chk.ok(rule, key, "every normal path records the report or delegates to the next chain element", f.where, sample=n <= 3)
                else:
                    # a write that is there but is spelled through repository code the table comparison does not look
                    # into is not a missing write: no verdict (same test as PROV-REG)
                    _unmodelled_effects(ctx, name, V, want, [(ev, f, node) for ev, node in registry_events(ctx, fi) if _fold_field_none_tests(ev) not in alts], [fi])
                    chk.refute(rule, key, f"a normal path through {f.qualname} returns without recording the report and without delegating ({' -> '.join(g.path_text(p)[1:5])}): a received {name[7:]} message is yielded as handled but the registry does not reflect it", f.where, version=V)
    chk.floor(rule, "chain definitions of reporting handlers", n, 8)


def _expected_for(ctx: Ctx, V: str, cell, name: str):
    if name in EXPECTED:
        return EXPECTED[name]
    if name == "handle_i_heartbeat_response":
        return {HEARTBEAT, SLEEPING} if V in ("2.0", "2.1") else {HEARTBEAT}
    if name == "handle_i_pre_sleep_notification":
        return {SLEEPING}
    return None


def node_methods(ctx: Ctx, chk) -> None:
    rule = "PROV-NODE"
    chk.rule(rule, "Node.add_child / set_child_value store under children[child_id] / values[value_type] by plain assignment (latest wins) with the given arguments")
    node = ctx.cls(NODE_T)
    want = {
        "add_child": ("STORE self.children[child_id] = Child(child_id, child_type, description=description, values=values)", "STORE self.children[child_id] = Child(child_id, child_type, description=description)"),
        "set_child_value": ("STORE self.children[child_id].values[value_type] = value",),
    }
    for mname, alts in want.items():
        f = node.find_method(mname)
        if f is None:
            raise AnalysisError(f"anchor vanished: Node.{mname}")
        chk.instance(rule)
        f = ctx.inl(f)  # the store may sit in a private helper of the node (a guarded-access collaborator, written out)
        evs = [e for e, _ in registry_events(ctx, f)]
        if len(evs) == 1 and evs[0] in alts:
            chk.ok(rule, f.fq, evs[0], f.where)
        else:
            chk.refute(rule, f.fq, f"Node.{mname} performs {evs or 'no store'}; the statement requires `{alts[0]}` (plain assignment: the latest report wins)", f.where)
    # Node.__init__ starts with the given children or none, Child.__init__ with given values or none
    for cname, attr, prm in ((NODE_T, "children", "children"), (CHILD_T, "values", "values")):
        c = ctx.cls(cname)
        init = c.find_method("__init__")
        chk.instance(rule)
        st = [n for n in init.node.body if isinstance(n, ast.Assign) and norm(n.targets[0]) == f"self.{attr}"]
        from .common import param_or_empty_forms

        ok = len(st) == 1 and norm(st[0].value) in param_or_empty_forms(prm)
        if ok:
            chk.ok(rule, f"{init.fq}::self.{attr}", norm(st[0]), init.where, sample=False)
        else:
            chk.refute(rule, f"{init.fq}::self.{attr}", f"{cname.rsplit('.', 1)[-1]}.__init__ initialises {attr} with `{norm(st[0].value) if st else '?'}` instead of `{prm} or {{}}`: a re-presented node would keep or share children", init.where)


# ---------------------------------------------------------------------------


def guard_mut(ctx: Ctx, chk) -> None:
    rule = "GUARD-MUT"
    chk.rule(rule, "in every handler that refers to a node (child) of the incoming message, every use of gateway.nodes[In.node_id] (.children[In.child_id]) is dominated by the membership test whose failing branch raises MissingNodeError(In.node_id) (MissingChildError(In.child_id)); no registry write precedes the raise")
    I = ctx.I
    n_uses = 0
    users: set = set()
    for f in tables.all_handler_defs(ctx):
        msg = message_param(f)
        if msg is None:
            continue
        f0 = f
        # a membership guard extracted into a helper is judged where it is called
        f = ctx.inl(f, lambda h: not h.name.startswith("handle_"))
        cn = Canon(I, f)
        g = None
        for node in ctx.own_nodes(f):
            if isinstance(node, ast.Subscript) and isinstance(node.ctx, ast.Load):
                base = cn.canon(node.value)
                key = cn.canon(node.slice)
                kind = None
                if base == "gateway.nodes":
                    kind = "node"
                elif base.endswith(".children") and base.startswith("gateway.nodes["):
                    kind = "child"
                if kind is None:
                    continue
                # creation sites store, they do not load; loads need the guard
                n_uses += 1
                users.add(f0.fq)
                chk.instance(rule)
                if g is None:
                    g = CFG(f.node)
                stmt_nodes = [x for x in g.nodes_where(lambda x, node=node: x.contains(node))]
                ukey = f"{f.fq}::{base}[{key}]::{norm(_stmt_of(ctx, f, node))[:60]}"
                if not stmt_nodes:
                    continue
                ok_all = True
                why = ""
                for sn in stmt_nodes:
                    ok, why = _dominated_by_guard(ctx, f, g, sn, cn, base, key, kind)
                    if not ok:
                        ok_all = False
                        break
                if not ok_all and not f.name.startswith("handle_"):
                    # a helper: the guard may dominate every call of the helper instead
                    callers_ok, ncalls = _callers_guard(ctx, f, base, key, kind)
                    if callers_ok and ncalls:
                        ok_all = True
                        why = ""
                if not ok_all:
                    # the guard may have been hoisted into a decorator of the handler: it then dominates the call of
                    # the wrapped function in that decorator's wrapper (same message, same gateway)
                    for dec in f0.decorators:
                        d = I.decorator_def(f0, dec)
                        if not isinstance(d, FuncInfo):
                            continue
                        w0 = I.wrapper_of(d)
                        wi = ctx.inl(w0, lambda h: not h.name.startswith("handle_"))
                        wparams = I.wrapped_param_names(w0)
                        dcalls = [x for x in ctx.own_nodes(wi) if isinstance(x, ast.Call) and isinstance(x.func, ast.Name) and x.func.id in wparams]
                        if not dcalls:
                            continue
                        gw = CFG(wi.node)
                        cnw = Canon(I, wi)
                        dn = gw.nodes_where(lambda x, dcalls=dcalls: any(x.contains(c) for c in dcalls))
                        if dn and all(_dominated_by_guard(ctx, wi, gw, x, cnw, base, key, kind)[0] for x in dn):
                            ok_all = True
                            why = ""
                            break
                if ok_all:
                    chk.ok(rule, ukey, f"dominated by `{key} not in {base}` -> raise Missing{kind.capitalize()}Error({key})", ctx.loc(f, node), sample=n_uses <= 3)
                else:
                    chk.refute(rule, ukey, why, ctx.loc(f, node))
        # argument provenance of every Missing*Error raised in the handler
        for node in ctx.own_nodes(f):
            if isinstance(node, ast.Raise) and isinstance(node.exc, ast.Call):
                nm = norm(node.exc.func)
                if nm in ("MissingNodeError", "MissingChildError"):
                    chk.instance(rule)
                    want = "In.node_id" if nm == "MissingNodeError" else "In.child_id"
                    got = cn.canon(node.exc.args[0]) if node.exc.args else "?"
                    k = fkey(f, node)
                    if got == want:
                        chk.ok(rule, k, f"{nm}({want})", ctx.loc(f, node), sample=False)
                    else:
                        chk.refute(rule, k, f"`{norm(node)}` names {got}; the error must name the missing {'node' if nm == 'MissingNodeError' else 'child'} ({want})", ctx.loc(f, node))
    chk.floor(rule, "handlers that use a node / child of the incoming message", len(users), 7)


def _callers_guard(ctx: Ctx, helper: FuncInfo, base: str, key: str, kind: str):
    """Every call `cls.<helper>(…, message, …)` in handler code is dominated by the membership guard in its caller."""
    n = 0
    for g_ in tables.all_handler_defs(ctx):
        calls = [c for c in ctx.own_nodes(g_) if isinstance(c, ast.Call) and isinstance(c.func, ast.Attribute) and c.func.attr == helper.name and isinstance(c.func.value, ast.Name) and c.func.value.id in ("cls", "self")]
        if not calls:
            continue
        cfg = CFG(g_.node)
        cn = Canon(ctx.I, g_)
        msg = message_param(g_)
        for c in calls:
            n += 1
            if msg is None or not any(isinstance(a, ast.Name) and a.id == msg for a in c.args):
                return False, n
            cnodes = cfg.nodes_where(lambda x, c=c: x.contains(c))
            for sn in cnodes:
                ok, _why = _dominated_by_guard(ctx, g_, cfg, sn, cn, base, key, kind)
                if not ok:
                    return False, n
    return True, n


def _stmt_of(ctx: Ctx, f: FuncInfo, node: ast.AST) -> ast.AST:
    cur = node
    while cur in ctx.prog.parents and not isinstance(cur, ast.stmt):
        cur = ctx.prog.parents[cur]
    return cur


def _dominated_by_guard(ctx, f, g: CFG, use, cn: Canon, base: str, key: str, kind: str):
    tests = g.nodes_where(lambda x: x.kind == "test")
    for t in tests:
        te = t.ast
        if not (isinstance(te, ast.Compare) and len(te.ops) == 1 and isinstance(te.ops[0], (ast.NotIn, ast.In))):
            continue
        if cn.canon(te.comparators[0]) != base or cn.canon(te.left) != key:
            continue
        if t is use or not g.dominates(t, use):
            continue
        miss_label = "t" if isinstance(te.ops[0], ast.NotIn) else "f"
        starts = [s for s, lab in t.succ if lab == miss_label]
        if g.reach_avoiding(starts, lambda x, use=use: x is use, lambda x: False, from_succ=False) is not None:
            continue
        # the missing branch raises the right error
        raises = []
        stack = list(starts)
        seen = set()
        while stack:
            x = stack.pop()
            if x in seen or x.kind in ("exit", "raise"):
                continue
            seen.add(x)
            if isinstance(x.ast, ast.Raise):
                raises.append(x)
                continue
            stack.extend(s for s, lab in x.succ if lab != "exc")
        want = "MissingNodeError" if kind == "node" else "MissingChildError"
        if raises and all(isinstance(r.ast.exc, ast.Call) and norm(r.ast.exc.func) == want for r in raises):
            return True, ""
        return False, f"the membership test `{norm(te)}` does not raise {want} on its failing branch"
    return False, f"`{base}[{key}]` is read without a dominating `{key} in {base}` test: a message naming an unknown {kind} fails with KeyError / mutates the registry instead of raising Missing{kind.capitalize()}Error"


# ---------------------------------------------------------------------------


def who_reg(ctx: Ctx, chk) -> None:
    rule = "WHO-REG"
    chk.rule(rule, "the registry (Gateway.nodes, Node and Child objects) is written only by the handlers of the statement, Node/Child methods, the id allocator and Persistence.load; Gateway.nodes is never rebound and Persistence shares the same dict")
    allowed_funcs = set()
    for f in tables.all_handler_defs(ctx):
        if f.name in EXPECTED or f.name in ("handle_i_heartbeat_response", "handle_i_pre_sleep_notification", "handle_i_id_request"):
            allowed_funcs.add(f.fq)
    for c in (NODE_T, CHILD_T):
        for fl in ctx.cls(c).methods.values():
            for f in fl:
                allowed_funcs.add(f.fq)
    allowed_funcs.add("aiomysensors.persistence.Persistence.load")
    # helpers that the reporting handlers delegate to
    cells = tables.handler_cells(ctx)
    for V in ctx.versions:
        for cell, cal in cells[V].items():
            if cal is None:
                continue
            defs = tables.chain_and_helpers(ctx, cal, V)
            if any(d.fq in allowed_funcs for d in defs):
                for d in defs:
                    if not d.name.startswith("handle_") and d.cls is not None and "MessageHandler" in d.cls.name:
                        allowed_funcs.add(d.fq)
    # a private method whose only callers are allowed writers of the same class is part of them (extracted helper)
    for f in ctx.prog.all_functions():
        if f.cls is None or not f.name.startswith("_") or f.name.startswith("__") or f.fq in allowed_funcs:
            continue
        callers = []
        for fl in f.cls.methods.values():
            for g_ in fl:
                if g_ is not f and any(isinstance(x, ast.Call) and isinstance(x.func, ast.Attribute) and x.func.attr == f.name and isinstance(x.func.value, ast.Name) and x.func.value.id in ("self", "cls") for x in ctx.own_nodes(g_)):
                    callers.append(g_)
        others = [g_ for g_ in ctx.prog.all_functions() if g_.cls is not f.cls and any(isinstance(x, ast.Attribute) and x.attr == f.name for x in ctx.own_nodes(g_))]
        if callers and not others and all(g_.fq in allowed_funcs for g_ in callers):
            allowed_funcs.add(f.fq)
    # a private module-level function (private name, or any function of a private module) every reference to which is
    # in an allowed writer is part of them (a helper shared by two handlers, possibly of another protocol module)
    changed = True
    while changed:
        changed = False
        for f in ctx.prog.all_functions():
            if f.cls is not None or f.parent is not None or f.fq in allowed_funcs:
                continue
            if not (f.name.startswith("_") or f.module.name.rsplit(".", 1)[-1].startswith("_")) or f.name.startswith("__"):
                continue
            users = []
            for g_ in ctx.prog.all_functions():
                if g_ is f:
                    continue
                for x in ctx.own_nodes(g_):
                    if isinstance(x, ast.Name) and x.id == f.name and isinstance(x.ctx, ast.Load):
                        d = ctx.prog.resolve_expr(g_.module, x)
                        if d is not None and d.kind == "func" and d.obj is f:
                            users.append(g_)
                            break
            if users and all(g_.fq in allowed_funcs for g_ in users):
                allowed_funcs.add(f.fq)
                changed = True
    n = 0
    for f in ctx.prog.all_functions():
        if f.module.name.startswith("aiomysensors.cli"):
            continue
        for ev, node in registry_events(ctx, f):
            n += 1
            chk.instance(rule)
            if f.fq in allowed_funcs:
                chk.ok(rule, f"{f.fq}::{ev}", "owner may write the registry", ctx.loc(f, node), sample=n <= 2)
            else:
                chk.refute(rule, f"{f.fq}::{ev}", f"{f.qualname} writes the registry (`{ev}`) but is not one of the reporting handlers, Node/Child methods, the id allocator or Persistence.load", ctx.loc(f, node))
    chk.floor(rule, "registry write sites", n, 12)
    # rebinding of `nodes`
    gw = ctx.cls("aiomysensors.gateway.Gateway")
    for f in ctx.prog.all_functions():
        for node in ctx.own_nodes(f):
            if isinstance(node, (ast.Assign, ast.AnnAssign)):
                targets = node.targets if isinstance(node, ast.Assign) else [node.target]
                for t in targets:
                    if isinstance(t, ast.Attribute) and t.attr == "nodes":
                        chk.instance(rule)
                        k = fkey(f, node)
                        if f.name == "__init__":
                            chk.ok(rule, k, "bound once in __init__", ctx.loc(f, node), sample=False)
                        else:
                            chk.refute(rule, k, f"`{norm(node)[:80]}` rebinds the registry outside __init__: Persistence and the gateway no longer share one dict", ctx.loc(f, node))
    init = gw.find_method("__init__")
    chk.instance(rule)
    pc = [x for x in ctx.own_nodes(init) if isinstance(x, ast.Call) and norm(x.func) == "Persistence"]
    if len(pc) == 1 and pc[0].args and norm(pc[0].args[0]) == "self.nodes":
        chk.ok(rule, f"{init.fq}::Persistence(self.nodes, ...)", "persistence aliases the registry dict", ctx.loc(init, pc[0]))
    else:
        chk.refute(rule, f"{init.fq}::Persistence(self.nodes, ...)", "Persistence is not constructed over the gateway's own registry dict: restored nodes are invisible to the handlers", ctx.loc(init, init.node))


# ---------------------------------------------------------------------------


def listen1(ctx: Ctx, chk) -> None:
    rule = "LISTEN-1"
    chk.rule(rule, "the listen loop body is one transport.read, one load, one dispatch and one yield of the dispatch result on its single path; every handler returns its message parameter or the awaited result of the next chain element; no handler writes a field of the incoming message")
    listen0 = ctx.func("aiomysensors.gateway.Gateway.listen")
    # private helpers of the gateway (decode step, dispatch step) are analysed where they are called
    listen = ctx.inl(listen0)
    loops = [n for n in listen.node.body if isinstance(n, ast.While)]
    if len(loops) != 1 or not (isinstance(loops[0].test, ast.Constant) and loops[0].test.value is True):
        raise AnalysisError("LISTEN-1: `while True` loop of Gateway.listen not found")
    lp = loops[0]
    cnl = Canon(ctx.I, listen, "")
    inner = [n for n in ast.walk(lp)]
    reads = [n for n in inner if isinstance(n, ast.Call) and cnl.canon(n.func) == "self.transport.read"]
    loads = [n for n in inner if isinstance(n, ast.Call) and cnl.canon(n.func).endswith("_schema.load")]
    yields = [n for n in inner if isinstance(n, (ast.Yield, ast.YieldFrom))]
    dispatch = tables.dispatch_calls(ctx, listen, tables.DISPATCH, within=lp)
    nested_loops = [n for n in inner if isinstance(n, (ast.For, ast.While, ast.AsyncFor)) and n is not lp]
    conds = [n for n in lp.body if isinstance(n, ast.If)]
    chk.instance(rule)
    key = f"{listen0.fq}::loop-shape"
    problems = []
    if len(reads) != 1:
        problems.append(f"{len(reads)} transport reads per iteration")
    if len(loads) != 1:
        problems.append(f"{len(loads)} schema loads per iteration")
    if len(dispatch) != 1:
        problems.append(f"{len(dispatch)} handler dispatches per iteration")
    if len(yields) != 1:
        problems.append(f"{len(yields)} yields per iteration (each handled line must be yielded exactly once)")
    if nested_loops or conds:
        problems.append("loop body is not a single straight path")
    if not problems:
        from .common import reaching_defs

        g = CFG(listen.node)

        def strip(e):
            return e.value if isinstance(e, ast.Await) else e

        def flows_from(user: ast.AST, e: ast.expr | None, producer: ast.Call) -> bool:
            """The value of expression e (evaluated in the statement containing `user`) is the result of `producer`:
            e is that call, or a local whose only reaching definition is an assignment of it."""
            if e is None:
                return False
            e = strip(e)
            if e is producer:
                return True
            if isinstance(e, ast.Attribute) and isinstance(e.value, ast.Name):
                # a field of a record built from the value (`incoming.message`)
                at = g.nodes_where(lambda x: x.contains(user))
                ds = reaching_defs(g, e.value.id, at[0]) if at else []
                if len(ds) == 1 and isinstance(ds[0].ast, (ast.Assign, ast.AnnAssign)) and isinstance(strip(ds[0].ast.value), ast.Call):
                    rc = strip(ds[0].ast.value)
                    d_ = ctx.prog.resolve_expr(listen.module, rc.func) if isinstance(rc.func, (ast.Name, ast.Attribute)) else None
                    flds = ctx.I.record_fields(d_.obj) if d_ is not None and d_.kind == "class" else None
                    if flds and e.attr in flds:
                        arg = next((k.value for k in rc.keywords if k.arg == e.attr), None)
                        if arg is None and flds.index(e.attr) < len(rc.args):
                            arg = rc.args[flds.index(e.attr)]
                        if arg is not None:
                            return flows_from(ds[0].ast, arg, producer)
                return False
            if isinstance(e, ast.Name):
                at = g.nodes_where(lambda x: x.contains(user))
                if not at:
                    return False
                ds = reaching_defs(g, e.id, at[0])
                if len(ds) == 1 and isinstance(ds[0].ast, (ast.Assign, ast.AnnAssign)) and ds[0].ast.value is not None:
                    v = strip(ds[0].ast.value)
                    if v is producer:
                        return True
                    if isinstance(v, ast.Name):
                        return flows_from(ds[0].ast, v, producer)
            return False

        y, d, ld, rdc = yields[0], dispatch[0], loads[0], reads[0]
        if not flows_from(y, y.value, d):
            problems.append("the yielded value is not the dispatch result")
        if not (len(d.args) >= 2 and flows_from(d, d.args[1], ld)):
            problems.append("the dispatched message is not the decoded line")
        if not (ld.args and flows_from(ld, ld.args[0], rdc)):
            problems.append("the decoded text is not the line just read")
        # the protocol whose handlers are used is the gateway's protocol at this very step, not a remembered one
        getter_calls = [c for c in inner if isinstance(c, ast.Call) and tables.DISPATCH in callee_names(ctx, listen, c)]
        for gc in getter_calls:
            a0 = gc.args[0] if gc.args else None
            names = [x for x in ast.walk(a0) if isinstance(x, ast.Name) and x.id != "self"] if a0 is not None else []
            outside = []
            for nm in names:
                at = g.nodes_where(lambda x: x.contains(gc))
                for dnode in reaching_defs(g, nm.id, at[0]) if at else []:
                    if not any(x is dnode.ast for x in inner):
                        outside.append(nm.id)
            if a0 is None or cnl.canon(a0) not in ("self.protocol", "self._protocol") or outside:
                problems.append(f"the handlers are looked up in `{norm(a0) if a0 is not None else '?'}`{' (bound before the loop)' if outside else ''}, not in the gateway's protocol of this step: a version learnt while listening is ignored")
    if problems:
        chk.refute(rule, key, "; ".join(problems), ctx.loc(listen0, lp))
    else:
        chk.ok(rule, key, "read -> load -> dispatch -> yield, once each, each value flowing into the next", ctx.loc(listen0, lp))
    # handler return values and message immutability
    n = 0
    for f in tables.all_handler_defs(ctx, include_wrappers=True):
        msg = message_param(f)
        if msg is None:
            continue
        if f.node.returns is not None and norm(f.node.returns).strip("'\"") not in ("Message", "_Message", "MessageT"):
            continue  # a helper that does not produce the handled message (e.g. a registry getter)
        n += 1
        chk.instance(rule)
        bad = None
        f_src = f
        f = ctx.inl(f, lambda h: not h.name.startswith("handle_"))  # `return cls._helper(gateway, message, ...)` written out
        for node in ctx.own_nodes(f):
            if isinstance(node, ast.Return):
                v = node.value
                if v is None:
                    bad = (node, "returns None")
                    break
                if isinstance(v, ast.Name) and v.id == msg:
                    continue
                if isinstance(v, ast.Await) and isinstance(v.value, ast.Call):
                    c = v.value
                    # the call must forward the message parameter
                    if any(isinstance(a, ast.Name) and a.id == msg for a in c.args):
                        continue
                bad = (node, f"returns `{norm(v)[:60]}`")
                break
            if isinstance(node, (ast.Assign, ast.AugAssign)):
                targets = node.targets if isinstance(node, ast.Assign) else [node.target]
                for t in targets:
                    if isinstance(t, ast.Attribute) and isinstance(t.value, ast.Name) and t.value.id == msg:
                        bad = (node, f"writes field {t.attr} of the incoming message")
                    if isinstance(t, ast.Name) and t.id == msg:
                        # message = await <next>(…, message, …) is the chaining idiom
                        v = node.value
                        ok = isinstance(v, ast.Await) and isinstance(v.value, ast.Call) and any(isinstance(a, ast.Name) and a.id == msg for a in v.value.args)
                        if not ok:
                            bad = (node, f"rebinds the message to `{norm(node.value)[:60]}`")
        k = f"{f.fq}::returns-message"
        if bad is None:
            chk.ok(rule, k, "returns the message it was given (or the result of the next chain element)", f.where, sample=n <= 2)
        else:
            chk.refute(rule, k, f"{f.qualname} {bad[1]}: the yielded message no longer carries the decoded field values", ctx.loc(f, bad[0]))
    chk.floor(rule, "handler definitions", n, 25)


def placeholder_fresh(ctx: Ctx, chk) -> None:
    """The placeholder of an id request is stored under a key the registry does not hold (else it overwrites a
    presented node): the allocation analysis of C11 (FRESH-1), applied to the store of the placeholder."""
    from . import c11

    I = ctx.I
    cells = tables.handler_cells(ctx)
    proxy = OnlyRule(chk, "FRESH-1", "PLACEHOLDER-FRESH", " - the placeholder stored under that id then replaces a node the network had presented (its type, version, children and values are lost)", "the placeholder node of an id request is stored under an id that is not a key of the registry (max + c, or a candidate filtered by `not in gateway.nodes`): a registered node is never replaced by a placeholder")
    done = set()
    for V in ctx.versions:
        idreq = next((v for v, n in I.folder.enum_canonical(I.vclass(V, "Internal")).items() if n == "I_ID_REQUEST"), None)
        cal = cells[V].get(("internal", idreq))
        if cal is None:
            continue
        f = cal.chain()[-1].func
        if f in done:
            continue
        done.add(f)
        c11.check_allocator(ctx, proxy, f, V)
    if not done:
        raise AnalysisError("PLACEHOLDER-FRESH: anchor vanished: id request handler")
