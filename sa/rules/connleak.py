"""CONN-LEAK-1 (C16): a transport's connect() that fails leaves no background task behind.

For every built-in transport: if the connect path creates a task (directly or in a `self._x()` step it awaits),
then every statement of connect() that can raise *after* that step completed is covered by a handler that tears
the task down again (awaits disconnect / _disconnect, or cancels the task) before the error leaves connect().
Gateway.__aenter__ does not call disconnect() when connect() raises, so nothing else would stop that task.
"""

from __future__ import annotations

import ast

from ..cfg import CFG
from ..model import AnalysisError, norm
from . import lifecycle
from .common import Ctx, callee_names, fkey

TRANSPORT = "aiomysensors.transport.Transport"


def _creates_task(ctx: Ctx, f, depth: int = 0) -> bool:
    if any(g is f for g, _c in lifecycle.create_task_sites(ctx)):
        return True
    if depth >= 2:
        return False
    for c in ctx.own_nodes(f):
        if isinstance(c, ast.Call) and isinstance(c.func, ast.Attribute) and isinstance(c.func.value, ast.Name) and c.func.value.id == "self":
            for nm in callee_names(ctx, f, c):
                try:
                    h = ctx.func(nm)
                except (AnalysisError, KeyError):
                    continue
                for impl in ctx.I.implementations(h):
                    if impl is not f and _creates_task(ctx, impl, depth + 1):
                        return True
    return False


def conn_leak(ctx: Ctx, chk) -> None:
    rule = "CONN-LEAK-1"
    chk.rule(rule, "for every built-in transport: once a step of connect() has created a background task, every later statement of connect() that can raise is covered by a handler that disconnects / cancels that task before the error propagates (Gateway.__aenter__ does not call disconnect() after a failed connect)")
    base = ctx.cls(TRANSPORT)
    n = 0
    seen = set()
    for c in [base] + list(ctx.prog.subclasses(base)):
        f = c.find_method("connect")
        if f is None or f.is_abstract() or f in seen:
            continue
        seen.add(f)
        fi = ctx.inl(f, lambda h: False)  # no inlining: the steps are judged through their resolved implementations
        g = CFG(fi.node)
        steps = []
        step_impls = []
        for x in g.nodes:
            if x.ast is None or x.kind not in ("stmt", "test", "with-enter"):
                continue
            for p_ in x.parts():
                for call in ast.walk(p_):
                    if isinstance(call, ast.Call) and isinstance(call.func, ast.Attribute) and isinstance(call.func.value, ast.Name) and call.func.value.id == "self":
                        for nm in callee_names(ctx, f, call):
                            try:
                                h = ctx.func(nm)
                            except (AnalysisError, KeyError):
                                continue
                            if any(_creates_task(ctx, impl) for impl in ctx.I.implementations(h)):
                                steps.append(x)
                                step_impls.append((x, [impl for impl in ctx.I.implementations(h) if any(g_ is impl for g_, _c in lifecycle.create_task_sites(ctx))]))
        direct = [x for x in g.nodes if x.ast is not None and any(c_ is cc for g_, cc in lifecycle.create_task_sites(ctx) if g_ is f for p_ in x.parts() for c_ in ast.walk(p_))]
        steps = list(dict.fromkeys(steps + direct))
        n += 1
        chk.instance(rule)
        key = f"{f.fq}::no-task-left"
        if not steps:
            chk.ok(rule, key, "connect() creates no background task", f.where, sample=n <= 2)
            continue

        def tears_down(x) -> bool:
            for p_ in x.parts():
                for call in ast.walk(p_):
                    if isinstance(call, ast.Call) and isinstance(call.func, ast.Attribute) and (call.func.attr in ("disconnect", "_disconnect") and norm(call.func.value) == "self" or call.func.attr == "cancel" and "task" in norm(call.func.value).lower()):
                        return True
            return False

        stops = [x for x in g.nodes if x.ast is not None and x.kind in ("stmt", "with-enter") and tears_down(x)]
        bad = None
        # a step that itself fails after it created the task (the task is started before the connection attempt that
        # can fail): the error leaves the step with the task running, and connect() must tear it down
        for s, impls in step_impls:
            exc_succ = [z for z, lab in s.succ if lab == "exc"]
            if not exc_succ or g.reach_avoiding(exc_succ, lambda z: z is g.raise_exit, lambda z: z in stops, from_succ=False) is None:
                continue
            for impl in impls:
                gi = CFG(impl.node)
                made = [x for x in gi.nodes if x.ast is not None and x.kind in ("stmt", "test", "with-enter") and any(c_ is cc for g_, cc in lifecycle.create_task_sites(ctx) if g_ is impl for p_ in x.parts() for c_ in ast.walk(p_))]
                stops_i = [x for x in gi.nodes if x.ast is not None and x.kind in ("stmt", "with-enter") and tears_down(x)]
                for mk in made:
                    after = set()
                    stack = [y for y, lab in mk.succ if lab != "exc"]
                    while stack:
                        y = stack.pop()
                        if y in after:
                            continue
                        after.add(y)
                        stack.extend(z for z, lab in y.succ if lab != "exc")
                    for y in sorted(after, key=lambda z: z.id):
                        ex = [z for z, lab in y.succ if lab == "exc"]
                        if not ex or y in stops_i or y.ast is None or y.kind in ("join", "dispatch"):
                            continue
                        if not any(isinstance(q, ast.Await) for p_ in y.parts() for q in ast.walk(p_)):
                            continue
                        if gi.reach_avoiding(ex, lambda z: z is gi.raise_exit, lambda z: z in stops_i, from_succ=False) is not None and bad is None:
                            bad = (mk, y)
        for s in steps:
            after = set()
            stack = [y for y, lab in s.succ if lab != "exc"]
            while stack:
                y = stack.pop()
                if y in after:
                    continue
                after.add(y)
                stack.extend(z for z, lab in y.succ if lab != "exc")
            for y in sorted(after, key=lambda z: z.id):
                exc_succ = [z for z, lab in y.succ if lab == "exc"]
                if not exc_succ or y in stops or y.ast is None or y.kind in ("join", "dispatch"):
                    continue
                if isinstance(y.ast, ast.Raise) and y.ast.exc is None:
                    continue
                # pure local computation (no call, no await) is not a failure point of the connection
                if not any(isinstance(q, (ast.Await, ast.Call)) for p_ in y.parts() for q in ast.walk(p_)):
                    continue
                if not any(isinstance(q, ast.Await) for p_ in y.parts() for q in ast.walk(p_)):
                    continue  # synchronous helper calls: building coroutine objects / parsing constants
                p = g.reach_avoiding(exc_succ, lambda z: z is g.raise_exit, lambda z: z in stops, from_succ=False)
                if p is not None and bad is None:
                    bad = (s, y)
        if bad is None:
            chk.ok(rule, key, "every failure after the task was created runs disconnect/cancel before it propagates", ctx.loc(f, steps[0].ast))
        else:
            s, y = bad
            chk.refute(rule, key, f"`{s.text()[:50]}` starts a background task; if `{y.text()[:60]}` then raises, the error leaves {f.qualname} with that task still running (and the connection open) - the gateway context is never entered, so nothing will ever disconnect it", ctx.loc(f, y.ast))
    chk.floor(rule, "transport connect() implementations", n, 2)
