"""Shared context and helpers for the per-property rule modules."""

from __future__ import annotations

import ast
from typing import Callable, Iterable

from ..eea import EEA, Site, St
from ..interp import Callee, Frame, Interp
from ..model import AnalysisError, ClassInfo, Folder, FuncInfo, Module, Program, norm
from ..report import Check

BASE_ERROR = "aiomysensors.exceptions.AIOMySensorsError"


class Ctx:
    def __init__(self, root: str) -> None:
        self.root = root
        self.prog = Program(root)
        self.I = Interp(self.prog)
        self.folder: Folder = self.I.folder
        self._eea: dict[bool, EEA] = {}
        from . import sleepbuf

        sleepbuf.prepare(self)

    def eea(self, prune: bool = True) -> EEA:
        if prune not in self._eea:
            self._eea[prune] = EEA(self.I, prune=prune)
        return self._eea[prune]

    @property
    def versions(self) -> list[str]:
        return list(self.I.versions)

    def func(self, fq: str) -> FuncInfo:
        return self.prog.func(fq)

    def cls(self, fq: str) -> ClassInfo:
        return self.prog.cls(fq)

    def module(self, name: str) -> Module:
        return self.prog.module(name)

    def own_nodes(self, f: FuncInfo):
        return self.I.own_nodes(f)

    def inl(self, f: FuncInfo, want=None) -> FuncInfo:
        """f with its statement-level calls of small same-module helpers written out (see sa/inline.py)."""
        from ..inline import inline

        return inline(self, f, want)

    def loc(self, f_or_m, node: ast.AST) -> str:
        m = f_or_m.module if isinstance(f_or_m, FuncInfo) else f_or_m
        m = self.prog.origin(m, node)  # a statement of a helper written out into f is located where it was written
        return f"{m.relpath}:{getattr(node, 'lineno', 0)}"


def short(exc: str) -> str:
    return exc.rsplit(".", 1)[-1]


def escape_rule(
    ctx: Ctx,
    chk: Check,
    rule: str,
    entries: Iterable[tuple[str, dict]],
    allowed: Callable[[str, Site], bool],
    eea: EEA,
) -> None:
    """entries: (entry label, escapes dict).  Each escaping (exception, site) is one obligation."""
    seen: set = set()
    for label, esc in entries:
        chk.instance(rule)
        for (exc, site), path in sorted(esc.items(), key=lambda kv: (kv[0][1].loc(), kv[0][0])):
            key = f"{site.key()}::{short(exc)}"
            if (key, label.split("@")[0]) in seen:
                continue
            seen.add((key, label.split("@")[0]))
            if allowed(exc, site):
                chk.ok(rule, key, f"{short(exc)} is permitted here", site.loc())
            else:
                chk.refute(
                    rule,
                    key,
                    f"{exc} can escape from {label.split('@')[0]} - raised at {site.loc()} by `{site.text}` ({site.kind})",
                    site.loc(),
                    path=[p.replace('aiomysensors.', '') for p in path],
                    exception=exc,
                    entry=label,
                )
    # obligations discharged by an enclosing handler (converted or absorbed before they can escape)
    done = getattr(eea, "_caught_reported", set())
    fresh = [(k, v) for k, v in eea.caught_log.items() if k not in done]
    for (exc, site), how in sorted(fresh, key=lambda kv: (kv[0][1].loc(), kv[0][0])):
        done.add((exc, site))
        chk.ok(rule, f"{site.key()}::{short(exc)}::handled", f"{short(exc)} from `{site.text[:60]}` is caught by {how}", site.loc(), sample=False)
    eea._caught_reported = done
    hs = [s_ for s_ in chk.samples if s_.get("rule") == rule + "/handled"]
    for (exc, site), how in sorted(fresh, key=lambda kv: (kv[0][1].loc(), kv[0][0]))[: max(0, 4 - len(hs))]:
        chk.samples.append({"rule": rule + "/handled", "construct": f"{short(exc)} at {site.loc()} `{site.text[:70]}`", "verdict": "discharged", "by": how})
    eea.check_complete()
    st = eea.stats()
    chk.notes.setdefault("eea", {})[rule] = st
    for k, v in eea.summaries_used.items():
        chk.trusted.append(f"summary {k}: {v}")
    for d in eea.discharged[:6]:
        if len([s for s in chk.samples if s.get("rule") == rule + "/guard"]) < 3:
            chk.samples.append({"rule": rule + "/guard", "construct": d["what"], "loc": d["site"], "verdict": "discharged", "by": d["by"]})


def find_calls(ctx: Ctx, f: FuncInfo, pred: Callable[[ast.Call], bool]) -> list[ast.Call]:
    return sorted((n for n in ctx.own_nodes(f) if isinstance(n, ast.Call) and pred(n)), key=lambda n: (n.lineno, n.col_offset))


def callee_tail(call: ast.Call) -> str:
    fn = call.func
    if isinstance(fn, ast.Attribute):
        return fn.attr
    if isinstance(fn, ast.Name):
        return fn.id
    return ""


def fkey(f: FuncInfo, node: ast.AST | str) -> str:
    return f"{f.fq}::{norm(node)[:140]}"


def callee_names(ctx: Ctx, f: FuncInfo, call: ast.Call, V: str | None = None) -> set[str]:
    """Resolved callee names of a call site: external full names and repository function names."""
    fr = Frame(Callee(f, f.cls, ()), V)  # the raw definition (not its decorator wrappers): the call site lives in f's own body
    out = set()
    for t in ctx.I.resolve_call(call, fr):
        if t.kind == "external" and t.fullname:
            out.add(t.fullname)
        elif t.kind == "repo" and t.frame is not None:
            out |= ctx.prog.aliases_of(t.frame.func)  # the defining name and every re-export of it
        elif t.kind == "ctor" and t.cls is not None:
            out |= ctx.prog.aliases_of(t.cls)
    return out


def prune_diff(ctx: Ctx, chk: Check, entries: list[tuple[FuncInfo, str | None]]) -> None:
    """Thorough tier: the same escape analysis without three-valued pruning; escapes that exist only then are listed."""
    from ..eea import EEA

    e1 = ctx.eea(True)
    e2 = EEA(ctx.I, prune=False)
    only = []
    for f, V in entries:
        a = set(e1.escapes_of(f, V))
        for k in e2.escapes_of(f, V):
            if k not in a:
                only.append(f"{short(k[0])} at {k[1].loc()} ({k[1].text[:50]}) from {f.qualname}@{V}")
    chk.notes["escapes_only_without_pruning"] = {"count": len(only), "items": sorted(set(only))[:20], "frames_analysed_without_pruning": e2.frames_analysed}


def param_or_empty_forms(prm: str) -> set[str]:
    """Normalised spellings of "the given mapping, or a fresh empty one when none / an empty one was given"."""
    return {
        f"{prm} or {{}}",
        f"{prm} if {prm} else {{}}",
        f"{prm} if {prm} is not None else {{}}",
        f"{{}} if not {prm} else {prm}",
        f"{{}} if {prm} is None else {prm}",
        f"{prm} or dict()",
        f"dict({prm}) if {prm} else {{}}",
    }


def reaching_defs(g, name: str, at) -> list:
    """CFG statement nodes binding `name` (assignment, walrus, for target, with-as) that can reach CFG node `at`
    without another binding of the name in between."""
    import ast as _ast

    def binds(n) -> bool:
        a = n.ast
        if a is None:
            return False
        roots = [a]
        if n.kind == "test" or isinstance(a, _ast.expr):
            roots = [a]
        for r in roots:
            if isinstance(r, (_ast.For, _ast.AsyncFor)):
                tg = [r.target]
            elif isinstance(r, (_ast.With, _ast.AsyncWith)):
                tg = [i.optional_vars for i in r.items if i.optional_vars is not None]
            elif isinstance(r, _ast.Assign):
                tg = list(r.targets)
            elif isinstance(r, (_ast.AnnAssign, _ast.AugAssign)):
                tg = [r.target]
            else:
                tg = []
            for t in tg:
                if any(isinstance(x, _ast.Name) and x.id == name for x in _ast.walk(t)):
                    return True
            if isinstance(r, (_ast.If, _ast.While, _ast.Try, _ast.For, _ast.AsyncFor, _ast.With, _ast.AsyncWith, _ast.FunctionDef, _ast.AsyncFunctionDef)):
                scan = [r.test] if isinstance(r, (_ast.If, _ast.While)) else [r.iter] if isinstance(r, (_ast.For, _ast.AsyncFor)) else [i.context_expr for i in r.items] if isinstance(r, (_ast.With, _ast.AsyncWith)) else []
            else:
                scan = [r]
            for sc in scan:
                if any(isinstance(x, _ast.NamedExpr) and x.target.id == name for x in _ast.walk(sc)):
                    return True
        return False

    defs = [n for n in g.nodes if n.kind in ("stmt", "test") and binds(n)]
    out = []
    for d in defs:
        if g.reach_avoiding([d], lambda x: x is at, lambda x: x is not d and x is not at and x in defs) is not None:
            out.append(d)
    return out


def state_attrs(ctx) -> dict:
    """{'protocol': attr, 'version': attr}: the attributes of Gateway behind its public `protocol` and
    `protocol_version` properties (the private names are the maintainers' to choose)."""
    cached = getattr(ctx, "_state_attrs", None)
    if cached is not None:
        return cached
    out = {"protocol": "_protocol", "version": "_protocol_version"}
    gw = ctx.cls("aiomysensors.gateway.Gateway")
    for key, prop in (("protocol", "protocol"), ("version", "protocol_version")):
        for c in gw.repo_mro():
            getters = [f for f in c.methods.get(prop, []) if not f.is_setter()]
            if not getters:
                continue
            g = ctx.inl(getters[0])
            rets = [n.value for n in ctx.own_nodes(g) if isinstance(n, ast.Return) and n.value is not None]
            if len(rets) == 1 and isinstance(rets[0], ast.Attribute) and isinstance(rets[0].value, ast.Name) and rets[0].value.id == g.positional_params[0]:
                out[key] = rets[0].attr
            break
    ctx._state_attrs = out
    return out


class OnlyRule:
    """Forward one rule of another property's rule function to this check under a new name; drop the rest."""

    def __init__(self, chk, src: str, dst: str, suffix: str, text: str, only_keys: str | None = None) -> None:
        self._chk, self._src, self._dst, self._suffix, self._text = chk, src, dst, suffix, text
        self._only = only_keys  # forward only the obligations whose key contains this text
        self.notes: dict = {}
        self.tier = chk.tier

    def rule(self, rule: str, text: str) -> None:
        if rule == self._src:
            self._chk.rule(self._dst, self._text)

    def instance(self, rule: str, n: int = 1) -> None:
        if rule == self._src:
            self._chk.instance(self._dst, n)

    def ok(self, rule: str, construct: str, why: str, loc: str = "", sample: bool = True) -> None:
        if rule == self._src and (self._only is None or self._only in construct):
            self._chk.ok(self._dst, construct, why, loc, sample=sample)

    def refute(self, rule: str, key: str, what: str, loc: str = "", path=None, **extra) -> None:
        if rule == self._src and self._only is not None and self._only not in key:
            self._chk.ok(self._dst, key, "not part of this property (judged by the property the rule belongs to)", loc, sample=False)
            return
        if rule == self._src:
            self._chk.refute(self._dst, key, what + self._suffix, loc, path, **extra)

    def floor(self, *a, **k) -> None:
        pass

    def assume(self, *a) -> None:
        pass

    def run_rule(self, fn, *args) -> None:
        fn(*args, self)


def schema_attrs(ctx: Ctx) -> set[str]:
    """Attributes of the gateway object every store into which is a fresh `MessageSchema()` (the codec instance,
    whatever it is called; collaborator objects of the gateway are flattened into it at parse time)."""
    gw = ctx.cls("aiomysensors.gateway.Gateway")
    stores: dict[str, list] = {}
    for fl in gw.methods.values():
        for f in fl:
            for n in ctx.own_nodes(f):
                if isinstance(n, (ast.Assign, ast.AnnAssign)) and n.value is not None:
                    for t in n.targets if isinstance(n, ast.Assign) else [n.target]:
                        for t2 in ast.walk(t):
                            if isinstance(t2, ast.Attribute) and isinstance(t2.value, ast.Name) and t2.value.id == "self" and isinstance(t2.ctx, ast.Store):
                                stores.setdefault(t2.attr, []).append((f, n.value))
    out = set()
    for a, vs in stores.items():
        ok = True
        for f, v in vs:
            d = ctx.prog.resolve_expr(ctx.prog.origin(f.module, v), v.func) if isinstance(v, ast.Call) and isinstance(v.func, (ast.Name, ast.Attribute)) and not v.args and not v.keywords else None
            if not (d is not None and d.kind == "class" and d.obj.fq == "aiomysensors.model.message.MessageSchema"):
                ok = False
        if ok:
            out.add(a)
    return out


def reachable_funcs(ctx: Ctx, f: FuncInfo, depth: int = 3) -> dict:
    """fq -> FuncInfo of f and the functions of the package it (transitively, up to `depth` calls) reaches."""
    seen = {f.fq: f}
    work = [(f, 0)]
    while work:
        g_, d_ = work.pop()
        for n in ctx.own_nodes(g_):
            if not (isinstance(n, ast.Call) and isinstance(n.func, (ast.Name, ast.Attribute))):
                continue
            try:
                names = callee_names(ctx, g_, n)
            except AnalysisError:
                continue
            for nm in sorted(names):
                if not nm.startswith("aiomysensors.") or nm in seen:
                    continue
                try:
                    h = ctx.func(nm)
                except (AnalysisError, KeyError):
                    continue
                if h is None:
                    continue
                seen[nm] = h
                if d_ + 1 < depth:
                    work.append((h, d_ + 1))
    return seen
