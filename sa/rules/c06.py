"""C06 Writes are exactly the specified reactions, addressed to the asker, unbuffered."""

from __future__ import annotations

import ast

from ..cfg import CFG
from ..interp import Callee, Const, Frame, UNKNOWN
from ..model import AnalysisError, FuncInfo, norm
from ..prov import Canon, message_param
from . import sleepbuf as sb, tables
from .common import Ctx, fkey

FIELDS = ("node_id", "child_id", "command", "ack", "message_type", "payload")
VWRAP = "aiomysensors.model.protocol.protocol_14.handle_missing_protocol_version"
MWRAP = "aiomysensors.model.protocol.protocol_20.handle_missing_node_child"
SEND = "aiomysensors.gateway.Gateway.send"
WAKE_TYPES = {"2.0": (22,), "2.1": (22,), "2.2": (32,)}


def run(ctx: Ctx, chk) -> None:
    chk.assume("A1", "A3")
    chk.run_rule(reply_table, ctx)
    chk.run_rule(unbuf1, ctx)
    chk.run_rule(wrap_exact, ctx)
    chk.run_rule(wrap_cond, ctx)
    chk.run_rule(writers1, ctx)
    chk.run_rule(dispatch1, ctx)
    chk.run_rule(lambda c, k: tables.dispatch_total_rule(c, k, "incoming"), ctx)
    chk.run_rule(tables.handler_state_rule, ctx)
    # "version unknown" is read from gateway.protocol_version by the version-query wrapper: the flag must only be
    # set by a report that was accepted (same rule as C03 / C05)
    from .c03 import state1

    chk.run_rule(state1, ctx)
    chk.run_rule(reply_delivered, ctx)
    chk.run_rule(tz_untouched, ctx)


def tz_untouched(ctx: Ctx, chk) -> None:
    rule = "TZ-UNTOUCHED"
    chk.rule(rule, "the time reply is the controller's *local* time, i.e. it depends on the process's time zone: no code of the package (library or its CLI) changes that zone - no store into os.environ['TZ'] / os.putenv('TZ', ..) / os.environ.update(TZ=..) and no time.tzset()")
    n = 0
    bad = 0

    def full_name(m, local: dict, e) -> str:
        d = ctx.prog.resolve_expr(m, e) if isinstance(e, (ast.Name, ast.Attribute)) else None
        if d is not None and d.kind == "external":
            return d.obj
        # names imported inside the function
        parts = []
        cur = e
        while isinstance(cur, ast.Attribute):
            parts.append(cur.attr)
            cur = cur.value
        if isinstance(cur, ast.Name) and cur.id in local:
            return ".".join([local[cur.id]] + parts[::-1])
        return ""

    for f in list(ctx.prog.all_functions()) + [None]:
        mods = [f.module] if f is not None else list(ctx.prog.modules.values())
        for m in mods:
            nodes = list(ctx.own_nodes(f)) if f is not None else [x for st in m.tree.body if not isinstance(st, (ast.FunctionDef, ast.AsyncFunctionDef, ast.ClassDef)) for x in ast.walk(st)]
            local: dict = {}
            for node in nodes:
                if isinstance(node, ast.Import):
                    for a in node.names:
                        local[a.asname or a.name.split(".")[0]] = a.name if a.asname else a.name.split(".")[0]
                elif isinstance(node, ast.ImportFrom) and node.module and not node.level:
                    for a in node.names:
                        local[a.asname or a.name] = f"{node.module}.{a.name}"
            for node in nodes:
                what = None
                if isinstance(node, (ast.Assign, ast.AugAssign, ast.Delete)):
                    tg = node.targets if isinstance(node, (ast.Assign, ast.Delete)) else [node.target]
                    for t in tg:
                        if isinstance(t, ast.Subscript) and isinstance(t.slice, ast.Constant) and t.slice.value == "TZ":
                            if full_name(m, local, t.value) in ("os.environ", "posix.environ"):
                                what = norm(node)[:60]
                elif isinstance(node, ast.Call):
                    full = full_name(m, local, node.func)
                    if full in ("time.tzset",):
                        what = norm(node)[:60]
                    elif full in ("os.putenv", "os.unsetenv") and node.args and isinstance(node.args[0], ast.Constant) and node.args[0].value == "TZ":
                        what = norm(node)[:60]
                    elif full in ("os.environ.update", "os.environ.setdefault", "os.environ.pop", "os.environ.__setitem__") and (any(kw.arg == "TZ" for kw in node.keywords) or any(isinstance(a, ast.Constant) and a.value == "TZ" for a in node.args) or any(isinstance(a, ast.Dict) and any(isinstance(k_, ast.Constant) and k_.value == "TZ" for k_ in a.keys) for a in node.args)):
                        what = norm(node)[:60]
                    if full.startswith(("time.", "os.environ", "os.putenv")):
                        n += 1
                if what is not None:
                    bad += 1
                    chk.instance(rule)
                    where = f"{m.relpath}:{node.lineno}"
                    owner = f.fq if f is not None else m.name
                    chk.refute(rule, f"{owner}::{what}", f"`{what}` changes the time zone of the process: from then on the time reply carries that zone's wall clock instead of the controller's local time", where)
    if not bad:
        chk.instance(rule)
        chk.ok(rule, "aiomysensors::no-time-zone-change", f"no store into os.environ['TZ'] and no time.tzset() in {len(ctx.prog.modules)} modules ({n} calls into time / os.environ looked at)", "src/aiomysensors")
    chk.floor(rule, "modules scanned", len(ctx.prog.modules), 10)


def reply_delivered(ctx: Ctx, chk) -> None:
    rule = "REPLY-DELIVERED"
    chk.rule(rule, "a reaction the statement specifies is written: on the way from a handler's gateway.send(reply) to the transport nothing but a transport error can stop the reply - for every protocol version, every exception that can propagate out of an incoming handler through Gateway.send (the outgoing handler and its helpers included - interprocedural escape analysis) is a TransportError; a check in the outgoing path that refuses some replies (an unknown value type, a node that is not registered) makes the controller stay silent where the statement demands a write")
    eea = ctx.eea()
    cells = tables.handler_cells(ctx)
    transport = "aiomysensors.exceptions.TransportError"
    n = 0
    seen = set()
    send_tag = SEND.replace("aiomysensors.", "")
    for V in ctx.versions:
        for cell, cal in cells[V].items():
            if cal is None:
                continue
            name = cal.chain()[-1].func.name
            esc = eea.escapes(Frame(cal, V))
            for (exc, site), path in sorted(esc.items(), key=lambda kv: (kv[0][1].loc(), kv[0][0])):
                if not any(p_.replace("aiomysensors.", "") == send_tag for p_ in path):
                    continue
                short = exc.rsplit(".", 1)[-1]
                key = f"{site.key()}::{short}"
                if key in seen:
                    continue
                seen.add(key)
                n += 1
                chk.instance(rule)
                if eea.issub(exc, transport):
                    chk.ok(rule, key, f"{short}: the write itself failed", site.loc(), sample=n <= 2)
                elif site.kind == "getattr-absent" and site.func == tables.DISPATCH_OUT:
                    # a command without an outgoing handler: the replies are built with the commands the statement
                    # names (internal / set), whose handlers exist - totality of the lookup is C12's EXHAUST-OUT
                    chk.ok(rule, key, "a missing handler for some other command: not on the path of a reply (judged by C12)", site.loc(), sample=False)
                else:
                    chk.refute(rule, key, f"{short} can stop a reply of {name} (protocol {V}) between gateway.send and the transport, at `{site.text[:70]}`: the reaction the statement specifies for the received message is then not written", site.loc(), version=V, path=[p_.replace("aiomysensors.", "") for p_ in path])
    chk.floor(rule, "escapes through Gateway.send", n, 1)
    eea.check_complete()


def message_term(ctx: Ctx, f: FuncInfo, e: ast.expr):
    """6-tuple of canonical field terms of a Message(...) construction (defaults filled in), or None."""
    I = ctx.I
    cn = Canon(I, f)
    t = cn.tree(e)
    mcls = ctx.cls("aiomysensors.model.message.Message")
    if isinstance(t, ast.Call) and isinstance(t.func, ast.Attribute) and norm(t.func.value) == "In" and not t.args and all(k.arg for k in t.keywords):
        # `message.<copy>(field=..)`: a method of Message that rebuilds the message from all its own fields updated by
        # the keywords (`type(self)(**{**vars(self), **changes})`, `replace(self, **changes)`)
        m_ = mcls.find_method(t.func.attr)
        rets_ = [r_ for r_ in ctx.own_nodes(m_) if isinstance(r_, ast.Return)] if m_ is not None else []
        if m_ is not None and len(rets_) == 1 and m_.node.args.kwarg is not None and not m_.positional_params[1:]:
            kw_ = m_.node.args.kwarg.arg
            sf_ = m_.positional_params[0]
            if norm(rets_[0].value) in (f"type({sf_})(**{{**vars({sf_}), **{kw_}}})", f"{mcls.name}(**{{**vars({sf_}), **{kw_}}})", f"replace({sf_}, **{kw_})", f"dataclasses.replace({sf_}, **{kw_})", f"copy.replace({sf_}, **{kw_})"):
                given_ = {k.arg: norm(k.value) for k in t.keywords}
                if set(given_) <= set(FIELDS):
                    return tuple(given_.get(p_, f"In.{p_}") for p_ in FIELDS)
    if not (isinstance(t, ast.Call) and norm(t.func) == "Message"):
        return None
    init = mcls.find_method("__init__")
    pos = init.positional_params[1:]
    given: dict = {}
    for p, a in zip(pos, t.args):
        given[p] = norm(a)
    for kw in t.keywords:
        if kw.arg is None:
            return None
        given[kw.arg] = norm(kw.value)
    out = []
    for p in FIELDS:
        if p in given:
            out.append(given[p])
        else:
            d = init.param_default(p)
            out.append(norm(d) if d is not None else "?")
    return tuple(out)


def handler_code(ctx: Ctx) -> list[FuncInfo]:
    """Handler and wrapper definitions, each with its statement-level helper calls written out (an extracted
    helper that sends is judged as part of the handler that calls it).  The release of parked commands (the flush,
    whatever it is called and wherever it lives) is a writer of its own and is never written out into the wake
    handlers."""
    cached = getattr(ctx, "_c06_handler_code", None)
    if cached is not None:
        return cached
    flush = sb.flush_functions(ctx)
    flush_fqs = {f.fq for f in flush}
    helper = ctx.__dict__.setdefault("_c06_helper", lambda h: not h.name.startswith("handle_") and h.fq not in flush_fqs)
    defs = list(tables.all_handler_defs(ctx, include_wrappers=True))
    for f in flush:
        if f not in defs:
            defs.append(f)  # a flush that moved out of the handler class
    out = [ctx.inl(f, helper) for f in defs]
    ctx._c06_handler_code = out
    return out


def send_sites(ctx: Ctx):
    out = []
    for f in handler_code(ctx):
        for n in ctx.own_nodes(f):
            if isinstance(n, ast.Call) and isinstance(n.func, ast.Attribute) and n.func.attr == "send" and norm(n.func.value) == "gateway":
                out.append((f, n))
    return out


def _ival(ctx: Ctx, V: str, name: str) -> int:
    for n, v in ctx.folder.enum_members(ctx.I.vclass(V, "Internal")):
        if n == name:
            return v
    raise AnalysisError(f"{name} not in Internal of {V}")


def reply_table(ctx: Ctx, chk) -> None:
    rule = "REPLY-TABLE"
    chk.rule(rule, "every Message that reaches gateway.send from handler code equals the reaction the statement specifies for that handler (addressee, child, command, type, payload) and is sent under the specified condition")
    I = ctx.I
    sites = send_sites(ctx)
    chk.floor(rule, "gateway.send sites in handler code", len(sites), 10)
    V0 = "2.2"
    iv = lambda n: _ival(ctx, V0, n)  # noqa: E731
    CMD = ("In.command", "3")
    REG = "gateway.nodes[In.node_id].children[In.child_id].values.get(In.message_type)"
    table = {
        "handle_i_id_request": [("In.node_id", "In.child_id", CMD, "0", str(iv("I_ID_RESPONSE")), "STR(ID)")],
        "handle_i_config": [("In.node_id", "In.child_id", CMD, "0", ("In.message_type", str(iv("I_CONFIG"))), "'M' if gateway.config.metric else 'I'")],
        "handle_i_time": [("In.node_id", "In.child_id", CMD, "0", ("In.message_type", str(iv("I_TIME"))), "str(calendar.timegm(time.localtime()))")],
        "handle_req": [("In.node_id", "In.child_id", "1", "0", "In.message_type", REG)],
        "handle_i_gateway_ready": [("255", ("In.child_id", "255"), CMD, "0", str(iv("I_DISCOVER")), "''")],
        "handle_set": [("In.node_id", "255", "3", "0", str(iv("I_REBOOT")), "''")],
    }
    guards = {
        "handle_req": (f"{REG} is not None",),
        "handle_set": ("gateway.nodes[In.node_id].reboot",),
    }
    wrappers = {
        I.wrapper_of(ctx.func(VWRAP)).fq: ("0", "255", "3", "0", str(iv("I_VERSION")), "''"),
        I.wrapper_of(ctx.func(MWRAP)).fq: ("In.node_id", "255", "3", "0", str(iv("I_PRESENTATION")), "''"),
    }
    flush_fqs = {f.fq for f in sb.flush_functions(ctx)}
    for f, call in sites:
        chk.instance(rule)
        key = fkey(f, call)
        loc = ctx.loc(f, call)
        if f.fq in flush_fqs:
            chk.ok(rule, key, "release of a parked command (C07)", loc, sample=False)
            continue
        arg = call.args[0] if call.args else None
        if isinstance(arg, ast.Name):
            # `x = None if <c> else Message(..)` ... `if x is not None: send(x)`: at the send x is the message
            t_ = Canon(I, f).tree(arg)
            if isinstance(t_, ast.IfExp) and isinstance(t_.body, ast.Constant) and t_.body.value is None:
                g_ = CFG(f.node)
                cnodes_ = g_.nodes_where(lambda x: x.contains(call))
                for tn_ in g_.nodes:
                    if tn_.kind == "test" and norm(tn_.ast) == f"{arg.id} is not None" and cnodes_ and all(g_.dominates(tn_, c_) for c_ in cnodes_):
                        other_ = [s_ for s_, lab_ in tn_.succ if lab_ == "f"]
                        if g_.reach_avoiding(other_, lambda x: x in cnodes_, lambda x, tn_=tn_: x is tn_, from_succ=False) is None:
                            arg = t_.orelse
                            break
        term = message_term(ctx, f, arg) if arg is not None else None
        if term is None and arg is not None and not (isinstance(arg, ast.Name) and arg.id in f.params):
            cn_ = Canon(I, f).canon(arg)
            if " if " in cn_.split("(")[0] or cn_.startswith(("None", "(")) or (cn_.endswith("]") and "(" not in cn_):
                # a value picked at run time (a conditional expression, an element of a table ...): which message it is
                # is not read off this call
                raise AnalysisError(f"REPLY-TABLE: `{norm(call)[:70]}` in {f.qualname} sends `{cn_[:70]}` - not a Message construction visible at the call ({loc})")
        if term is None:
            chk.refute(rule, key, f"`{norm(call)[:80]}` sends something that is not a locally constructed Message: not one of the specified reactions", loc)
            continue
        import re as _re

        if any(_re.search(r"(^|[^\w.])_[A-Z]\w*\(", str(x)) for x in term):
            # a field of the reply is computed through a private collaborator class of the package that is not written
            # out (`_Target(...).child(gateway)...`): what it evaluates to is not compared with the table
            raise AnalysisError(f"REPLY-TABLE: a field of the reply sent by {f.qualname} goes through a private collaborator class (`{[str(x) for x in term if _re.search(r'(^|[^\w.])_[A-Z]', str(x))][0][:70]}`), which is not written out ({loc})")
        if f.fq in wrappers:
            want = wrappers[f.fq]
            if _match(term, want, ""):
                chk.ok(rule, key, f"{term}", loc)
            else:
                chk.refute(rule, key, f"the wrapper sends Message{term}; the statement specifies Message{want}", loc)
            continue
        rows = table.get(f.name)
        if rows is None:
            chk.refute(rule, key, f"{f.qualname} writes Message{term} to the gateway, but the statement specifies no reaction for this handler", loc)
            continue
        idtxt = ""
        if f.name == "handle_i_id_request":
            idtxt = _alloc_text(ctx, f)
        if any(_match(term, row, idtxt) for row in rows):
            chk.ok(rule, key, f"Message{term}", loc)
        else:
            chk.refute(rule, key, f"{f.name} replies Message{term}; the statement specifies Message{_show(rows[0])}", loc)
        # guard
        if f.name in guards:
            chk.instance(rule)
            g = CFG(f.node)
            cn = Canon(I, f)
            cnodes = g.nodes_where(lambda x: x.contains(call))
            def negation(txt: str) -> str:
                if txt.endswith(" is not None"):
                    return txt[: -len(" is not None")] + " is None"
                return f"not {txt}"

            ok = False
            for t in [t for t in g.nodes if t.kind == "test" and cnodes and all(g.dominates(t, c) for c in cnodes)]:
                txt = cn.canon(t.ast)
                pol = sb.branch_polarity(g, t, cnodes)
                # `if <guard>: send` or `if <not guard>: return ... send`
                if (txt in guards[f.name] and pol is True) or (txt in {negation(x) for x in guards[f.name]} and pol is False):
                    ok = True
            if ok:
                chk.ok(rule, key + "::condition", f"sent only if {guards[f.name][0]}", loc)
            else:
                chk.refute(rule, key + "::condition", f"the reaction of {f.name} must be conditional on `{guards[f.name][0]}` and on nothing else", loc)
        else:
            # unconditional reactions: the send is on every normal path of the handler
            chk.instance(rule)
            g = CFG(f.node)
            cnodes = g.nodes_where(lambda x: x.contains(call))
            p = g.reach_avoiding([g.entry], lambda x: x is g.exit, lambda x: x in cnodes, labels_skip=("exc",))
            if p is None:
                chk.ok(rule, key + "::unconditional", "on every normal path of the handler", loc, sample=False)
            else:
                raises = [x for x in p if isinstance(x.ast, ast.Raise)]
                chk.refute(rule, key + "::unconditional", f"a normal path through {f.name} skips the specified reaction ({' -> '.join(g.path_text(p)[1:4])})", loc)


def _alloc_text(ctx: Ctx, f: FuncInfo) -> str:
    _cn0 = Canon(ctx.I, f)
    stores = [n for n in ctx.own_nodes(f) if isinstance(n, ast.Assign) and any(isinstance(t, ast.Subscript) and _cn0.canon(t.value) == "gateway.nodes" for t in n.targets)]
    if len(stores) != 1:
        return "?"
    t = [t for t in stores[0].targets if isinstance(t, ast.Subscript)][0]
    return Canon(ctx.I, f).canon(t.slice)


def _match(term, row, idtxt: str) -> bool:
    for got, want in zip(term, row):
        alts = want if isinstance(want, tuple) else (want,)
        alts = tuple(f"str({idtxt})" if a == "STR(ID)" else a for a in alts)
        if got not in alts:
            return False
    return True


def _show(row) -> str:
    return "(" + ", ".join(w[0] if isinstance(w, tuple) else w for w in row) + ")"


def unbuf1(ctx: Ctx, chk) -> None:
    rule = "UNBUF-1"
    chk.rule(rule, "every gateway.send in handler code passes the literal message_buffer=False (except the single marker-recording send of C10); with False, None reaches the outgoing handlers and their parking branches are definitely not taken, so the line is written immediately")
    I = ctx.I
    sites = send_sites(ctx)
    marker = 0
    for f, call in sites:
        chk.instance(rule)
        flag = sb.send_buffered_flag(call)
        key = fkey(f, call) + "::message_buffer"
        if flag is False:
            chk.ok(rule, key, "message_buffer=False", ctx.loc(f, call), sample=False)
        elif flag is True and f.fq == I.wrapper_of(ctx.func(MWRAP)).fq:
            marker += 1
            chk.ok(rule, key, "the marker-recording send of C10", ctx.loc(f, call))
        else:
            chk.refute(rule, key, f"`{norm(call)[:80]}` is sent with buffering {'enabled by default' if flag == 'default' else flag}: a reaction to a sleeping node is parked instead of written immediately", ctx.loc(f, call))
    if marker > 1:
        chk.refute(rule, "marker-sends", f"{marker} buffered sends in the missing-node wrapper", "")
    sb.none_propagation(ctx, chk, rule)


def wrap_exact(ctx: Ctx, chk) -> None:
    rule = "WRAP-EXACT"
    chk.rule(rule, "for every version and every command the top-level handler chain contains the version-query wrapper exactly once; the query is sent from a `finally` covering the wrapped call (also after a failing handler, and after a handler that itself learned the version)")
    I = ctx.I
    w = I.wrapper_of(ctx.func(VWRAP))
    w_i = ctx.inl(w, lambda h: not h.name.startswith("handle_"))  # the query may be sent by a private helper coroutine
    cells = tables.handler_cells(ctx)
    n = 0
    for V in ctx.versions:
        for cell, cal in cells[V].items():
            if cell[0] != "cmd":
                # sub-handlers run inside the wrapped command handler: they must not be wrapped again
                if cal is not None and any(f is w for f in tables.chain_defs(ctx, cal, V)):
                    chk.instance(rule)
                    chk.refute(rule, f"{cal.chain()[-1].func.fq}::double-wrap", f"{cal.chain()[-1].func.name} is wrapped by the version-query wrapper although it runs inside the wrapped command handler: two version queries per message", cal.chain()[-1].func.where, version=V)
                continue
            n += 1
            chk.instance(rule)
            if cal is None:
                continue
            cnt = sum(1 for f in tables.chain_defs(ctx, cal, V) if f is w)
            key = f"handle_{cell[1]}"
            if cnt == 1:
                chk.ok(rule, f"{key}@{V}", "wrapped exactly once", cal.chain()[-1].func.where, sample=n == 1)
            else:
                chk.refute(rule, f"{key}::wrap-count::{cnt}", f"the handler chain of command {cell[1]} (protocol {V}) contains the version-query wrapper {cnt} times: {'no version query follows these messages' if cnt == 0 else 'several queries per message'}", cal.chain()[-1].func.where, version=V)
    chk.floor(rule, "command cells", n, 25)
    # nothing refuses a message before the version wrapper's try is entered: along the chain, every definition that
    # runs before (outside) the wrapper hands over to the next one before it can raise by itself - a rejection raised
    # outside the wrapper (a guard hoisted into an outer decorator) is not followed by the version query
    seen_outer = set()
    for V in ctx.versions:
        for cell, cal in cells[V].items():
            if cell[0] != "cmd" or cal is None:
                continue
            chain = tables.chain_defs(ctx, cal, V)
            if w not in chain:
                continue
            for f in chain[: chain.index(w)]:
                if f in seen_outer:
                    continue
                seen_outer.add(f)
                chk.instance(rule)
                fi = ctx.inl(f, lambda h: not h.name.startswith("handle_"))
                g = CFG(fi.node)
                wrapped_params = ctx.I.wrapped_param_names(f)
                deleg = [x for x in ctx.own_nodes(fi) if isinstance(x, ast.Call) and ((isinstance(x.func, ast.Attribute) and isinstance(x.func.value, ast.Call) and norm(x.func.value.func) == "super") or (isinstance(x.func, ast.Name) and x.func.id in wrapped_params))]
                dnodes = g.nodes_where(lambda x: any(x.contains(c) for c in deleg))
                early = None
                for r in [x for x in g.nodes if x.kind == "stmt" and isinstance(x.ast, ast.Raise) and x.ast.exc is not None and not (isinstance(x.ast.exc, ast.Name) and not norm(x.ast.exc)[:1].isupper())]:
                    if not any(g.dominates(d, r) for d in dnodes):
                        early = r
                        break
                key = f"{f.fq}::outside-the-version-wrapper"
                if early is None:
                    chk.ok(rule, key, "hands over to the wrapped handler before it can refuse the message itself", f.where, sample=False)
                else:
                    chk.refute(rule, key, f"{f.qualname} runs outside the version-query wrapper and can refuse a message by itself (`{norm(early.ast)[:60]}`) before the wrapped handler - and with it the wrapper's try/finally - is entered: while the version is unknown such a message is not followed by a version query", ctx.loc(fi, early.ast))
    # finally discipline
    chk.instance(rule)
    tries = [t for t in ctx.own_nodes(w_i) if isinstance(t, ast.Try)]
    key = f"{w.fq}::finally"
    ok = False
    for t in tries:
        wrapped_call = [x for b in t.body for x in ast.walk(b) if isinstance(x, ast.Call) and isinstance(x.func, ast.Name) and x.func.id == ctx.func(VWRAP).positional_params[0]]
        sends = [x for b in t.finalbody for x in ast.walk(b) if isinstance(x, ast.Call) and norm(x.func) == "gateway.send"]
        if wrapped_call and sends:
            ok = True
    if ok:
        chk.ok(rule, key, "the query is sent in the finally block of the try that runs the wrapped handler", w.where)
    else:
        chk.refute(rule, key, "the version query is not sent from a `finally` covering the wrapped handler: a message whose handling fails is not followed by a query", w.where)


def wrap_cond(ctx: Ctx, chk) -> None:
    rule = "WRAP-COND"
    chk.rule(rule, "truth table of the wrapper's condition over version in {None, known} x command in {internal, other} x type in {every internal type number of any protocol version, one unused number} (the condition may live in a predicate helper, which is interpreted): a query is sent iff the version is unknown and the message is not a log or gateway-ready message")
    I = ctx.I
    w = ctx.inl(I.wrapper_of(ctx.func(VWRAP)), lambda h: not h.name.startswith("handle_"))  # the query may be sent by a private helper coroutine
    sends = [x for x in ctx.own_nodes(w) if isinstance(x, ast.Call) and norm(x.func) == "gateway.send"]
    if len(sends) != 1:
        raise AnalysisError("WRAP-COND: expected exactly one send in the version wrapper")
    g = CFG(w.node)
    snodes = g.nodes_where(lambda x: x.contains(sends[0]))
    # the finally body exists once per continuation kind: evaluate, per copy of the send, the conjunction of
    # every dominating test with the polarity of the branch that leads to the send
    guard_sets = []
    for sn in snodes:
        gs = []
        for t in g.nodes:
            if t.kind != "test" or not g.dominates(t, sn):
                continue
            t_ok = any(lab == "t" and (s2 is sn or g.reach_avoiding([s2], lambda x, sn=sn: x is sn, lambda x, t=t: x is t, from_succ=False) is not None) for s2, lab in t.succ)
            f_ok = any(lab == "f" and (s2 is sn or g.reach_avoiding([s2], lambda x, sn=sn: x is sn, lambda x, t=t: x is t, from_succ=False) is not None) for s2, lab in t.succ)
            if t_ok and not f_ok:
                gs.append((t.ast, True))
            elif f_ok and not t_ok:
                gs.append((t.ast, False))
        guard_sets.append(gs)
    sigs = {tuple((norm(a), pol) for a, pol in gs) for gs in guard_sets}
    if len(sigs) != 1:
        raise AnalysisError(f"WRAP-COND: the copies of the version query are guarded differently: {sorted(sigs)}")
    guards = guard_sets[0]
    cond = guards[0][0] if guards else None
    # the condition looks at the state *after* the message was handled (the statement: "once a message has been handled
    # and the version is still unknown"): a local that sampled the version before the wrapped handler ran is stale
    order_ = {id(x): i_ for i_, x in enumerate(ast.walk(w.node))}
    wrapped_ = ctx.I.wrapped_param_names(I.wrapper_of(ctx.func(VWRAP)))
    wcalls_ = [x for x in ctx.own_nodes(w) if isinstance(x, ast.Call) and isinstance(x.func, ast.Name) and x.func.id in wrapped_]
    pre_order = []

    def _walk(n_):
        pre_order.append(n_)
        for ch_ in ast.iter_child_nodes(n_):
            _walk(ch_)

    _walk(w.node)
    pos_ = {id(x): i_ for i_, x in enumerate(pre_order)}
    la_ = ctx.I.local_assigns(w)
    for a, _pol in guards:
        for nm_ in [x for x in ast.walk(a) if isinstance(x, ast.Name)]:
            for v_ in la_.get(nm_.id) or []:
                if isinstance(v_, ast.expr) and "protocol_version" in norm(v_) and wcalls_ and all(pos_.get(id(v_), 0) < pos_.get(id(c_), 0) for c_ in wcalls_):
                    chk.instance(rule)
                    chk.refute(rule, f"{w.fq}::stale-version::{nm_.id}", f"the condition of the version query reads `{nm_.id}`, which sampled `{norm(v_)[:60]}` before the wrapped handler ran: a message whose handling makes the version known is still followed by a query (and the other way round)", ctx.loc(w, v_))
    msg = message_param(w)
    V = "1.4"
    log, ready = _ival(ctx, V, "I_LOG_MESSAGE"), _ival(ctx, V, "I_GATEWAY_READY")
    n = 0
    # every internal type number of any protocol version, plus one number that no table uses
    all_types = sorted({v for VV in ctx.versions for v in ctx.folder.enum_canonical(ctx.I.vclass(VV, "Internal"))})
    all_types.append(max(all_types) + 1000)
    for version in (None, "known"):
        for command in (3, 1):
            for mtype in all_types:
                n += 1
                chk.instance(rule)
                env = {"gateway.protocol_version": version, f"{msg}.command": command, f"{msg}.message_type": mtype}
                got = all(bool(_evalcond(ctx, w, a, env)) == pol for a, pol in guards)
                want = version is None and not (command == 3 and mtype in (log, ready))
                cell = f"version={'None' if version is None else 'known'},command={'internal' if command == 3 else 'other'},type={'log' if mtype == log else 'gateway-ready' if mtype == ready else mtype}"
                if got == want:
                    chk.ok(rule, f"cell::{cell}", f"query {'sent' if got else 'not sent'}", ctx.loc(w, cond), sample=n in (1, 7, 70))
                else:
                    chk.refute(rule, f"cell::{cell}", f"for {cell} the wrapper {'sends' if got else 'does not send'} a version query; the statement says it {'must' if want else 'must not'}", ctx.loc(w, cond))


def _evalcond(ctx: Ctx, f: FuncInfo, e: ast.expr, env: dict):
    t = norm(e)
    if t in env:
        return env[t]
    if isinstance(e, ast.Constant):
        return e.value
    if isinstance(e, ast.BoolOp):
        vals = [_evalcond(ctx, f, v, env) for v in e.values]
        return all(vals) if isinstance(e.op, ast.And) else any(vals)
    if isinstance(e, ast.UnaryOp) and isinstance(e.op, ast.Not):
        return not _evalcond(ctx, f, e.operand, env)
    if isinstance(e, ast.Compare) and len(e.ops) == 1:
        a = _evalcond(ctx, f, e.left, env)
        b = _evalcond(ctx, f, e.comparators[0], env)
        op = e.ops[0]
        if isinstance(op, (ast.Is, ast.IsNot)):
            # identity: decided for the singletons None / True / False only.  A field of a decoded message is a
            # plain int / str, never the enum member object, so `message.command is Command.internal` is False
            # for every received message whatever the numbers are.
            if a is None or b is None or isinstance(a, bool) or isinstance(b, bool):
                r = a is b
            elif _is_member_expr(ctx, f, e.left) != _is_member_expr(ctx, f, e.comparators[0]):
                r = False
            else:
                raise AnalysisError(f"WRAP-COND: identity test `{t}` between values that are not singletons")
            return r if isinstance(op, ast.Is) else not r
        if isinstance(op, ast.Eq):
            return a == b
        if isinstance(op, ast.NotEq):
            return a != b
        if isinstance(op, ast.In):
            return a in b
        if isinstance(op, ast.NotIn):
            return a not in b
    if isinstance(e, (ast.Tuple, ast.List, ast.Set)):
        return tuple(_evalcond(ctx, f, x, env) for x in e.elts)
    if isinstance(e, ast.Call) and isinstance(e.func, ast.Name) and e.func.id == "next" and len(e.args) == 2 and isinstance(e.args[0], ast.GeneratorExp) and len(e.args[0].generators) == 1 and isinstance(e.args[0].generators[0].target, ast.Name) and not e.keywords:
        # first element of a filtered scan, or the default
        ge = e.args[0]
        gg = ge.generators[0]
        seq = _evalcond(ctx, f, gg.iter, env)
        if not isinstance(seq, (tuple, list)):
            raise AnalysisError(f"WRAP-COND: cannot evaluate `{t}`: the scanned value is not a sequence")
        for item in seq:
            env3 = dict(env)
            env3[gg.target.id] = item
            if all(_evalcond(ctx, f, c_, env3) for c_ in gg.ifs):
                return _evalcond(ctx, f, ge.elt, env3)
        return _evalcond(ctx, f, e.args[1], env)
    if isinstance(e, ast.Call) and isinstance(e.func, ast.Attribute) and e.func.attr == "get" and 1 <= len(e.args) <= 2 and not e.keywords:
        # lookup in a constant table (enum members count as their numbers: IntEnum members hash and compare as ints)
        try:
            tab = ctx.folder.fold(ctx.prog.origin(f.module, e.func.value), e.func.value)
            if isinstance(tab, dict):
                tab = {ctx.folder.plain(k_): ctx.folder.plain(v_) for k_, v_ in tab.items()}
        except Exception:  # noqa: BLE001
            tab = None
        if isinstance(tab, dict):
            k_ = _evalcond(ctx, f, e.args[0], env)
            d_ = _evalcond(ctx, f, e.args[1], env) if len(e.args) == 2 else None
            return tab.get(k_, d_)
    if isinstance(e, ast.Call):
        # a predicate helper: interpret its body (if/return only) with the arguments renamed to its parameters
        from .common import callee_names

        hs = [ctx.func(nm) for nm in sorted(callee_names(ctx, f, e)) if nm.startswith("aiomysensors.")]
        if len(hs) == 1 and not e.keywords:
            h = hs[0]
            params = [p for p in h.positional_params if p not in ("self", "cls")]
            env2 = {}
            for p, a in zip(params, e.args):
                at = norm(a)
                for k, v in env.items():
                    if k == at or k.startswith(at + "."):
                        env2[p + k[len(at):]] = v
            return _evalbody(ctx, h, h.node.body, env2)
    if isinstance(e, ast.Name):
        d = _single_local_def(f, e.id)
        if d is not None:
            return _evalcond(ctx, f, d, env)
    if isinstance(e, ast.NamedExpr) and isinstance(e.target, ast.Name):
        return _evalcond(ctx, f, e.value, env)
    if isinstance(e, ast.IfExp):
        return _evalcond(ctx, f, e.body if _evalcond(ctx, f, e.test, env) else e.orelse, env)
    try:
        return ctx.folder.plain(ctx.folder.fold(f.module, e))
    except Exception as err:  # noqa: BLE001
        raise AnalysisError(f"WRAP-COND: cannot evaluate `{t}`: {err}") from err


def _single_local_def(f: FuncInfo, name: str):
    """The value expression of a local that is bound exactly once in the function (plain / annotated / walrus)."""
    if name in f.positional_params:
        return None
    defs = []
    for n in ast.walk(f.node):
        if isinstance(n, ast.Assign):
            for tg in n.targets:
                for x in ast.walk(tg):
                    if isinstance(x, ast.Name) and x.id == name:
                        defs.append(n.value if tg is x or (isinstance(tg, ast.Name)) else None)
        elif isinstance(n, (ast.AnnAssign, ast.AugAssign)) and isinstance(n.target, ast.Name) and n.target.id == name:
            defs.append(n.value if isinstance(n, ast.AnnAssign) else None)
        elif isinstance(n, ast.NamedExpr) and isinstance(n.target, ast.Name) and n.target.id == name:
            defs.append(n.value)
        elif isinstance(n, (ast.For, ast.AsyncFor, ast.comprehension)):
            if any(isinstance(x, ast.Name) and x.id == name for x in ast.walk(n.target)):
                defs.append(None)
        elif isinstance(n, (ast.With, ast.AsyncWith)):
            for it in n.items:
                if it.optional_vars is not None and any(isinstance(x, ast.Name) and x.id == name for x in ast.walk(it.optional_vars)):
                    defs.append(None)
        elif isinstance(n, ast.ExceptHandler) and n.name == name:
            defs.append(None)
    if len(defs) == 1 and defs[0] is not None:
        return defs[0]
    return None


def _is_member_expr(ctx: Ctx, f: FuncInfo, e: ast.expr) -> bool:
    """True when the expression folds to an enum member object (as opposed to a plain number / text)."""
    from ..model import EnumVal

    if isinstance(e, ast.Name):
        d = _single_local_def(f, e.id)
        if d is not None:
            return _is_member_expr(ctx, f, d)
    try:
        return isinstance(ctx.folder.fold(f.module, e), EnumVal)
    except Exception:  # noqa: BLE001
        return False


def dispatch1(ctx: Ctx, chk) -> None:
    rule = "DISPATCH-1"
    chk.rule(rule, "in Gateway.listen every normal path from decoding a line to yielding it passes through the handler dispatch of the active protocol: no received message (whatever its ack flag, command or type) bypasses the handlers that produce the specified reactions and the version query")
    listen = ctx.inl(ctx.func("aiomysensors.gateway.Gateway.listen"))  # decode / dispatch helpers written out
    g = CFG(listen.node)
    disp = tables.dispatch_calls(ctx, listen, tables.DISPATCH)
    _cn = Canon(ctx.I, listen, "")
    loads = [n for n in ctx.own_nodes(listen) if isinstance(n, ast.Call) and _cn.canon(n.func).endswith("_schema.load")]
    yields = [n for n in ctx.own_nodes(listen) if isinstance(n, (ast.Yield, ast.YieldFrom))]
    if not loads or not yields:
        raise AnalysisError("DISPATCH-1: load / yield of Gateway.listen not found")
    dn = g.nodes_where(lambda x: any(x.contains(c) for c in disp))
    ln = g.nodes_where(lambda x: any(x.contains(c) for c in loads))
    yn = g.nodes_where(lambda x: any(x.contains(c) for c in yields))
    chk.instance(rule)
    key = f"{listen.fq}::dispatch-before-yield"
    awaited = all(isinstance(ctx.prog.parents.get(c), ast.Await) for c in disp)
    # (`yield await handler(...)`: the statement that yields is the one that dispatches)
    p = g.reach_avoiding(ln, lambda x: x in yn and x not in dn, lambda x: x in dn, labels_skip=("exc",))
    if disp and p is None and awaited:
        chk.ok(rule, key, "every path load -> yield runs the awaited handler dispatch", ctx.loc(listen, disp[0]))
    else:
        why = "the handler returned by get_incoming_message_handler is never called" if not disp else "the dispatch is not awaited" if not awaited else f"a decoded message reaches the yield without being dispatched ({' -> '.join(g.path_text(p)[:5])})"
        chk.refute(rule, key, f"{why}: its specified reaction (reply, reboot, discover, version query) is never written", ctx.loc(listen, (p[-1].ast if p and p[-1].ast is not None else listen.node)))


class _NoReturn(Exception):
    pass


def _evalbody(ctx: Ctx, h: FuncInfo, body, env: dict):
    for st in body:
        if isinstance(st, ast.Expr) and isinstance(st.value, ast.Constant):
            continue
        if isinstance(st, ast.Pass):
            continue
        if isinstance(st, (ast.Assign, ast.AnnAssign)) and all(isinstance(t_, ast.Name) for t_ in (st.targets if isinstance(st, ast.Assign) else [st.target])):
            continue  # a local bound once: looked up through its defining expression when it is used
        if isinstance(st, ast.Return):
            return _evalcond(ctx, h, st.value, env) if st.value is not None else None
        if isinstance(st, ast.If):
            branch = st.body if _evalcond(ctx, h, st.test, env) else st.orelse
            try:
                return _evalbody(ctx, h, branch, env)
            except _NoReturn:
                continue
        raise AnalysisError(f"WRAP-COND: statement `{norm(st)[:60]}` in predicate {h.qualname} not modelled")
    raise _NoReturn


def writers1(ctx: Ctx, chk) -> None:
    rule = "WRITERS-1"
    chk.rule(rule, "the set of handler definitions that can write to the gateway equals the set named in the statement (id request, config, time, req, gateway-ready (>= 2.0 only), set/reboot, the two wrappers, the flush); no other received message produces a write")
    I = ctx.I
    expected = {"handle_i_id_request", "handle_i_config", "handle_i_time", "handle_req", "handle_i_gateway_ready", "handle_set", I.wrapper_of(ctx.func(VWRAP)).fq, I.wrapper_of(ctx.func(MWRAP)).fq} | {f.fq for f in sb.flush_functions(ctx)}
    writers = {}
    for f in handler_code(ctx):
        ws = [n for n in ctx.own_nodes(f) if isinstance(n, ast.Call) and isinstance(n.func, ast.Attribute) and ((n.func.attr == "send" and norm(n.func.value) == "gateway") or (n.func.attr == "write" and "transport" in norm(n.func.value)))]
        if ws:
            writers[f] = ws
    names = set()
    for f, ws in writers.items():
        chk.instance(rule)
        nm = f.name if f.name.startswith("handle_") else f.fq
        names.add(nm)
        if nm in expected or f.fq in expected:
            chk.ok(rule, f"{f.fq}::writes", "one of the specified writers", f.where, sample=False)
        else:
            chk.refute(rule, f"{f.fq}::writes", f"{f.qualname} writes to the gateway (`{norm(ws[0])[:60]}`) but is not one of the reactions the statement lists", ctx.loc(f, ws[0]))
    for e in sorted(expected):
        chk.instance(rule)
        if e in names or any(f.fq == e for f in writers):
            chk.ok(rule, f"{e}::present", "writer present", "", sample=False)
        else:
            chk.refute(rule, f"{e}::present", f"{e} no longer writes its specified reaction", "")
    # per version: the cells with a specified reaction run a writer; every other cell runs none
    cells = tables.handler_cells(ctx)
    wrapper_fqs = {I.wrapper_of(ctx.func(VWRAP)).fq, I.wrapper_of(ctx.func(MWRAP)).fq}
    flush_fqs = {f.fq for f in sb.flush_functions(ctx)}
    writer_defs = {f.fq for f in writers if f.fq not in wrapper_fqs and f.fq not in flush_fqs}
    for V in ctx.versions:
        want_cells = {("cmd", "req"): "handle_req", ("cmd", "set"): "handle_set", ("internal", _ival(ctx, V, "I_ID_REQUEST")): "handle_i_id_request", ("internal", _ival(ctx, V, "I_CONFIG")): "handle_i_config", ("internal", _ival(ctx, V, "I_TIME")): "handle_i_time"}
        if V.startswith("2."):
            want_cells[("internal", _ival(ctx, V, "I_GATEWAY_READY"))] = "handle_i_gateway_ready"
        for cell, cal in cells[V].items():
            if cell == ("cmd", "internal") or cell == ("cmd", "stream"):
                continue
            chk.instance(rule)
            chain = tables.chain_defs(ctx, cal, V) if cal is not None else []
            has = [f for f in chain if f.fq in writer_defs]
            nm = want_cells.get(cell)
            key = f"cell-writer::{cell}"
            if nm is not None:
                if has:
                    chk.ok(rule, f"{key}@{V}", f"{nm} reacts", has[0].where, sample=False)
                else:
                    chk.refute(rule, f"{nm}::no-reaction::{V}", f"under protocol {V} the handler chain of {nm} ({[f.qualname for f in chain]}) contains no definition that writes the specified reaction", chain[0].where if chain else "", version=V)
            elif has and not (cell[0] == "internal" and cell[1] in (w_ for w_ in WAKE_TYPES.get(V, ()))):
                chk.refute(rule, f"{has[0].fq}::unspecified-reaction::{V}", f"under protocol {V} {cell} runs {has[0].qualname}, which writes to the gateway although the statement specifies no reaction for it", has[0].where, version=V)
            else:
                chk.ok(rule, f"{key}@{V}", "no reaction specified, none written", "", sample=False)
    # gateway-ready reaction only in >= 2.0 tables, present there
    for V in ctx.versions:
        chk.instance(rule)
        ready = _ival(ctx, V, "I_GATEWAY_READY")
        cal = cells[V].get(("internal", ready))
        has = cal is not None and any(f.name == "handle_i_gateway_ready" for f in tables.chain_defs(ctx, cal, V))
        key = f"gateway-ready-reaction@{V}"
        if has == V.startswith("2."):
            chk.ok(rule, key, "discover request on gateway-ready" if has else "no reaction to gateway-ready (1.x)", I.vmod(V).relpath, sample=False)
        else:
            chk.refute(rule, f"gateway-ready-reaction::{V}", f"protocol {V} {'sends' if has else 'does not send'} a discover request on gateway-ready; the statement says {'2.0 or newer do' if not has else 'only 2.0 or newer do'}", I.vmod(V).relpath, version=V)
    chk.floor(rule, "writer definitions", len(writers), 8)
