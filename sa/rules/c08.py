"""C08 Sleep buffer loses nothing and repeats nothing when transport writes fail."""

from __future__ import annotations

import ast

from ..interp import Frame
from ..model import AnalysisError, norm
from . import sleepbuf as sb, tables
from .common import Ctx, fkey

TERR = "aiomysensors.exceptions.TransportError"


def run(ctx: Ctx, chk) -> None:
    chk.assume("A1", "A5", "A6")
    chk.run_rule(write_then_forget, ctx)
    chk.run_rule(error_propagates, ctx)
    chk.run_rule(tables.write_sync_rule, ctx)
    chk.run_rule(flush_total, ctx)
    chk.run_rule(sb.buffer_once, ctx)
    chk.run_rule(sb.buffer_plain, ctx)


def write_then_forget(ctx: Ctx, chk, loss_only: bool = False) -> None:
    """loss_only (used by C12): only 'forgotten although not written' is refuted, not 'written again'."""
    rule = "WRITE-THEN-FORGET"
    chk.rule(rule, "in the flush every removal of an entry is dominated by the normal completion of the send of the entry bound in the same iteration (a failed write leaves the entry parked; a written entry is removed before the next one is tried); the buffer is never cleared wholesale")
    flushes = sb.flush_functions(ctx)
    chk.floor(rule, "flush functions", len(flushes), 1)
    for f in flushes:
        try:
            fl = sb.analyse_flush(ctx, f)
        except sb.BatchedFlush as bf:
            if loss_only:
                raise
            chk.instance(rule)
            chk.refute(rule, f"{f.fq}::batched-release", f"the flush releases the buffered commands concurrently / as one batch (`{norm(bf.node)[:70]}`): when one write fails the listener is told at once, but the sibling writes are neither stopped nor awaited - commands whose write completed (or still completes) are still parked when the next wake takes its snapshot, and are written again", ctx.loc(f, bf.node))
            continue
        g = fl.cfg
        if not fl.removes and loss_only:
            continue
        if not fl.removes:
            chk.instance(rule)
            chk.refute(rule, f"{f.fq}::no-removal", "the flush never removes what it wrote: every wake writes the same commands again", f.where)
            continue
        for r in fl.removes:
            chk.instance(rule)
            k = fkey(f, r.ast)
            # wholesale clearing
            sites = [x for x, key in sb.removal_sites(ctx, f, "set_messages") if sb._stmt(ctx, f, x) is r.ast]
            keyed = [key for x, key in sb.removal_sites(ctx, f, "set_messages") if sb._stmt(ctx, f, x) is r.ast and key is not None]
            if not keyed:
                chk.refute(rule, k, f"`{norm(r.ast)[:70]}` clears the buffer wholesale: commands that were not written (failed write, other nodes, concurrent sends) are forgotten", ctx.loc(f, r.ast))
                continue
            key = keyed[0]
            if isinstance(key, sb.HelperKey):
                # the removal happens inside a helper called here: accepted only when the call is dominated by the
                # successful send and the helper removes exactly the key it is handed (the loop's key)
                call = next(x for x, kk in sb.removal_sites(ctx, f, "set_messages") if kk is key)
                why = helper_removal_ok(ctx, f, fl, g, r, call)
                if why is None:
                    chk.ok(rule, k, "removal inside a helper that removes exactly the loop's key, called after the normal completion of the send", ctx.loc(f, r.ast))
                else:
                    chk.refute(rule, k, f"`{norm(call)[:70]}` removes parked commands {key.id}: {why}", ctx.loc(f, r.ast))
                continue
            in_loop = sb._inside(fl.loop, r.ast)
            if not in_loop:
                it_nodes = [x for x in g.nodes if x.kind == "iter" and x.ast is fl.loop]
                after_loop = bool(it_nodes) and all(g.dominates(i, r) for i in it_nodes) and r.line > (fl.loop.end_lineno or 0)
                via_failed = any(g.reach_avoiding([x for x, lab in s.succ if lab == "exc"], lambda y, r=r: y is r, lambda y: False, from_succ=False) is not None for s in fl.sends)
                if loss_only and after_loop and not via_failed:
                    chk.ok(rule, k, "removed only after the whole sending loop completed normally (nothing is forgotten unwritten)", ctx.loc(f, r.ast))
                    continue
                chk.refute(rule, k, f"`{norm(r.ast)[:70]}` removes outside the sending loop: it is not tied to the successful write of that entry", ctx.loc(f, r.ast))
                continue
            if fl.key_name is None or norm(key) != fl.key_name:
                # key must be the loop's key (or derived from the loop's value)
                names = {x.id for x in ast.walk(key) if isinstance(x, ast.Name)}
                roots = {(n_ or "").split(".")[0] for n_ in (fl.key_name, fl.val_name)} - {""}
                if not (names and names <= roots):
                    raise AnalysisError(f"WRITE-THEN-FORGET: removal key `{norm(key)}` is not the loop's entry in {f.fq}")
            doms = [s for s in fl.sends if g.dominates(s, r)]
            if not doms:
                chk.refute(rule, k, f"`{norm(r.ast)[:70]}` is not dominated by the send of its entry: an entry is forgotten although its write did not happen (pop-before-write or a path around the send)", ctx.loc(f, r.ast))
                continue
            s = doms[-1]
            # the removal must not be reachable through the send's exceptional edge
            exc_starts = [x for x, lab in s.succ if lab == "exc"]
            p = g.reach_avoiding(exc_starts, lambda x, r=r: x is r, lambda x, s=s: x is s, from_succ=False)
            if p is not None:
                chk.refute(rule, k, f"the removal is reachable after a *failed* send ({' -> '.join(g.path_text(p)[:4])}): a command whose write failed is forgotten", ctx.loc(f, r.ast))
                continue
            # the send sends the loop's value
            call = sb.is_send(s.ast)
            a0 = call.args[0] if call.args else None
            same_val = a0 is not None and norm(a0) == (fl.val_name or "")
            if not same_val and a0 is not None and isinstance(a0, ast.Name) and fl.val_name:
                # a local bound once, in the loop body, to the loop's value (`buffer_message = entry`)
                binds = [n_ for n_ in ctx.own_nodes(f) if isinstance(n_, ast.Assign) and any(isinstance(t_, ast.Name) and t_.id == a0.id for t_ in n_.targets)]
                stores_ = [n_ for n_ in ctx.own_nodes(f) if isinstance(n_, ast.Name) and n_.id == a0.id and isinstance(n_.ctx, ast.Store)]
                same_val = len(binds) == 1 and len(stores_) == 1 and norm(binds[0].value) == fl.val_name and sb._inside(fl.loop, binds[0])
            if not same_val:
                chk.refute(rule, k, f"the send before the removal sends `{norm(a0) if a0 is not None else ''}`, not the entry that is then removed", ctx.loc(f, s.ast))
                continue
            chk.ok(rule, k, f"dominated by the normal completion of `{norm(s.ast)[:60]}` of the same iteration", ctx.loc(f, r.ast))
        # every send is followed by a removal on the normal path (otherwise: written again at the next wake)
        for s in ([] if loss_only else fl.sends):
            if any(g.dominates(r, s) for r in fl.removes):
                continue  # removed before it is written: reported above as a loss, it cannot also be written twice
            chk.instance(rule)
            k = fkey(f, s.ast) + "::then-remove"
            nxt = [x for x, lab in s.succ if lab != "exc"]
            stop = lambda x: x in fl.removes  # noqa: E731
            it_nodes = [x for x in g.nodes if x.kind == "iter" and x.ast is fl.loop]
            p = g.reach_avoiding(nxt, lambda x: x in it_nodes or x is g.exit, stop, labels_skip=("exc",), from_succ=False)
            if p is None:
                chk.ok(rule, k, "every normal path from the send reaches a removal before the next iteration", ctx.loc(f, s.ast))
            else:
                # a guarded removal (identity re-validation, C09) is the accepted exception: the false branch skips it
                tests = [x for x in p if x.kind == "test"]
                from .c09 import positive_form, revalidation

                def still_there(t):
                    te = positive_form(t.ast)[0]
                    if revalidation(te, "set_messages", fl.key_name or "") is not None:
                        return True
                    return isinstance(te, ast.Compare) and len(te.ops) == 1 and isinstance(te.ops[0], ast.In) and norm(te.left) == (fl.key_name or "") and sb.buffer_attr(te.comparators[0]) == "set_messages"

                if tests and all(still_there(t) for t in tests):
                    chk.ok(rule, k, "removal skipped only when the entry is no longer the one that was written (gone or replaced)", ctx.loc(f, s.ast))
                else:
                    chk.refute(rule, k, f"a normal path from the send reaches the next iteration without removing the entry ({' -> '.join(g.path_text(p)[:4])}): a written command is written again at the next wake", ctx.loc(f, s.ast))
    # no other function removes from set_messages (a helper called only by the flush is judged at its call site above)
    by_flush = {nm for f in flushes for _c, nm in sb.helper_calls(ctx, f, "removes", "set_messages")}
    # a flush judged with its private loop-body helper written out: the helper is part of the flush
    flush_own = set(flushes) | {getattr(f, "original", f) for f in flushes}

    def only_called_by_flush(h) -> bool:
        users = [g_ for g_ in ctx.prog.all_functions() if g_ is not h and any((isinstance(x, ast.Name) and x.id == h.name) or (isinstance(x, ast.Attribute) and x.attr == h.name) for x in ctx.own_nodes(g_))]
        return bool(users) and all(g_ in flush_own for g_ in users)

    part_of_flush = flush_own | {h for f in flushes for h in getattr(f, "inlined_funcs", []) if only_called_by_flush(h)}
    by_other = {nm for f in ctx.prog.all_functions() if f not in part_of_flush for _c, nm in sb.helper_calls(ctx, f, "removes", "set_messages")}
    for f in ctx.prog.all_functions():
        if f in part_of_flush:
            continue
        if f.fq in by_flush and f.fq not in by_other:
            continue
        for node, key in sb.removal_sites(ctx, f, "set_messages"):
            chk.instance(rule)
            par_ = ctx.prog.parents.get(node)
            if isinstance(node, ast.Call) and isinstance(par_, ast.Assign) and len(par_.targets) == 1 and isinstance(par_.targets[0], ast.Subscript) and sb.buffer_attr(par_.targets[0].value) == "set_messages" and key is not None and not isinstance(key, sb.HelperKey) and norm(par_.targets[0].slice) == norm(key):
                # `D[k] = D.pop(k, ...)`: the entry taken out is put back under the same key in the same statement
                # (moved to the end of the dict): nothing parked vanishes - what happens to the *new* message is C07 / C12
                chk.ok(rule, fkey(f, node), "the removed entry is stored again under the same key in the same statement", ctx.loc(f, node), sample=False)
                continue
            chk.refute(rule, fkey(f, node), f"{f.qualname} removes from set_messages outside the flush: parked commands can vanish without being written", ctx.loc(f, node))


def helper_removal_ok(ctx: Ctx, f, fl, g, r, call: ast.Call) -> str | None:
    """None when the helper call at CFG node r is a sound per-entry removal; else the reason it is not."""
    from .common import callee_names

    doms = [s for s in fl.sends if g.dominates(s, r)]
    if not doms:
        return "the call is not dominated by the send of the entry (removed before it is written: a failed write loses the command)"
    s = doms[-1]
    exc_starts = [x for x, lab in s.succ if lab == "exc"]
    if g.reach_avoiding(exc_starts, lambda x: x is r, lambda x: x is s, from_succ=False) is not None:
        return "the call is reachable after a failed send"
    for nm in sorted(callee_names(ctx, f, call)):
        try:
            h = ctx.func(nm)
        except (AnalysisError, KeyError):
            continue
        params = [a.arg for a in h.node.args.posonlyargs + h.node.args.args]
        if params and params[0] in ("self", "cls"):
            params = params[1:]
        amap = dict(zip(params, call.args))
        amap.update({kw.arg: kw.value for kw in call.keywords if kw.arg})
        for _n, key in sb.removal_sites(ctx, h, "set_messages"):
            if not (isinstance(key, ast.Name) and not isinstance(key, sb.HelperKey) and key.id in amap and norm(amap[key.id]) == (fl.key_name or "")):
                return f"{h.qualname} does not remove exactly the key of the entry that was just written"
    return None


def error_propagates(ctx: Ctx, chk) -> None:
    rule = "FLUSH-ERROR"
    chk.rule(rule, "a transport error raised by a write during the flush propagates through send, the flush, the wake handler and its wrappers out of Gateway.listen: no call site on any call path listen -> flush -> Transport.write is enclosed by a handler that catches TransportFailedError without re-raising")
    eea = ctx.eea()
    listen = ctx.func("aiomysensors.gateway.Gateway.listen")
    flushes = sb.flush_functions(ctx)
    flush_fqs = {f.fq for f in flushes}
    FAILED = "aiomysensors.exceptions.TransportFailedError"
    n = 0
    for V in ctx.versions:
        start = Frame(ctx.I.make_callee(listen, listen.cls), V)
        up = tables.call_paths(ctx, start, flush_fqs)
        if not up:
            continue
        # from the flush down to the transport write
        downs = []
        for f in flushes:
            fl_frames = [t for p in up for t in [p[-1]]]
            ffr = None
            for p in up:
                caller, call = p[-1]
                for t in ctx.I.resolve_call(call, caller):
                    if t.frame is not None and t.frame.func is getattr(f, "original", f):
                        ffr = t.frame
            if ffr is None:
                continue
            writes = {x.fq for x in ctx.I.implementations(ctx.func("aiomysensors.transport.Transport.write"))}
            downs += [(ffr, d) for d in tables.call_paths(ctx, ffr, writes, limit=6)]
        for path in up:
            n += 1
            chk.instance(rule)
            blocked = None
            for fr, call in path:
                h = tables.catching_handler(ctx, fr.func, call, FAILED)
                if h is not None:
                    blocked = (fr.func, call, h)
                    break
            names = " > ".join(fr.func.qualname.split(".")[-1] for fr, _c in path)
            key = f"listen>{names}"
            if blocked is None:
                chk.ok(rule, f"{key}@{V}", "no call site on the path is enclosed by a handler catching TransportFailedError", "", sample=n == 1)
            else:
                bf, bc, bh = blocked
                chk.refute(rule, f"{bf.fq}::{norm(bc)[:80]}::swallows", f"`{norm(bc)[:70]}` in {bf.qualname} is enclosed by a handler (line {bh.lineno}) that catches the transport error of a failing flush write and does not re-raise it: the caller of listen never learns that commands were not delivered", ctx.loc(bf, bc), version=V)
        for ffr, path in downs:
            n += 1
            chk.instance(rule)
            blocked = None
            for fr, call in path:
                h = tables.catching_handler(ctx, fr.func, call, FAILED)
                if h is not None:
                    blocked = (fr.func, call, h)
                    break
            names = " > ".join(fr.func.qualname.split(".")[-1] for fr, _c in path)
            key = f"flush>{names}"
            if blocked is None:
                chk.ok(rule, f"{key}@{V}", "write failure propagates up to the flush", "", sample=False)
            else:
                bf, bc, bh = blocked
                chk.refute(rule, f"{bf.fq}::{norm(bc)[:80]}::swallows", f"`{norm(bc)[:70]}` in {bf.qualname} is enclosed by a handler (line {bh.lineno}) that swallows the transport error of a failing write", ctx.loc(bf, bc), version=V)
    chk.floor(rule, "call paths listen -> flush -> write examined", n, 6)


def flush_total(ctx: Ctx, chk) -> None:
    rule = "FLUSH-TOTAL"
    chk.rule(rule, "a wake-up always looks at the buffer itself: every normal path through the flush reaches the loop over the parked entries (no early return on a side marker such as 'nothing is waiting for this node' - after a failed flush the marker and the buffer disagree and the left-over commands are never written)")
    for f in sb.flush_functions(ctx):
        fl = sb.analyse_flush(ctx, f)
        g = fl.cfg
        chk.instance(rule)
        key = f"{f.fq}::always-iterates"
        # the snapshot / iteration statements: the loop header and (for a snapshot) the statement that builds it
        heads = [x for x in g.nodes if x.kind == "iter" and x.ast is fl.loop]
        outer = fl.loop
        while outer in ctx.prog.parents and isinstance(ctx.prog.parents[outer], (ast.For, ast.AsyncFor)):
            outer = ctx.prog.parents[outer]
        if outer is not fl.loop:
            heads = [x for x in g.nodes if x.kind == "iter" and x.ast is outer]
        # exceptional edges that end in a handler of the flush itself are ordinary control flow (`try: marker.remove(n)
        # except KeyError: return message`); an exception that leaves the flush ends in the raise exit, not here
        p = g.reach_avoiding([g.entry], lambda x: x is g.exit, lambda x: x in heads, from_succ=False)
        if p is None:
            chk.ok(rule, key, "every normal path reaches the iteration over the parked entries", ctx.loc(f, fl.loop))
        else:
            chk.refute(rule, key, f"the flush can return without looking at the buffer ({' -> '.join(g.path_text(p)[1:5])}): whatever that shortcut is decided on must agree with the buffer after every failed or interrupted flush, otherwise parked commands are never written", ctx.loc(f, p[-2].ast if len(p) > 1 and p[-2].ast is not None else fl.loop))
