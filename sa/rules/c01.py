"""C01 Wire codec round trip: structural premises from which the round trip follows.

Decides: DELIM-1 (bounded left split), ORDER-1 (one field order everywhere),
DELIM-2 (same delimiter both ways, exactly one newline, only trailing whitespace
removed on load), NORM-1 (constructor stores every field, int() on the four ids).
Does not decide value equality for all payload strings (run-time values).
"""

from __future__ import annotations

import ast

from ..model import AnalysisError, Unfoldable, norm
from . import codec
from .common import Ctx, fkey

INT_FIELDS = ("node_id", "child_id", "command", "message_type")


def run(ctx: Ctx, chk) -> None:
    chk.assume("A3", "A5")
    chk.run_rule(delim1, ctx)
    chk.run_rule(order1, ctx)
    chk.run_rule(delim2, ctx)
    chk.run_rule(strip_scan, ctx)
    norm1(ctx, chk, "NORM-1")
    chk.run_rule(stateless1, ctx)
    chk.run_rule(encid1, ctx)
    chk.run_rule(enc_fresh, ctx)
    # observed at Gateway.listen: the yielded message is the decode of the line just read (same rule as C02)
    from .c02 import decl1, fresh_decode, memoised_codec

    chk.run_rule(fresh_decode, ctx)
    chk.run_rule(memoised_codec, ctx)
    # every well-formed message decodes: the field declarations carry no load-side restriction (a validator runs on
    # load only, never on dump) beyond the ranges of the statement - any integer type, any payload text (same rule as C02)
    chk.run_rule(decl1, ctx)
    chk.run_rule(sent_is_written, ctx)


def sent_is_written(ctx: Ctx, chk) -> None:
    """Observed at Gateway.send vs. transport write: a message that is held for a sleeping node and written at its
    wake is the message that was sent - the outcome analysis of C12 (OUTCOME-1: exactly one of write / park, and what
    is parked is the message itself or a copy of all its fields)."""
    from . import c12
    from .common import OnlyRule

    proxy = OnlyRule(chk, "OUTCOME-1", "SENT-IS-WRITTEN", " - the line written at the node's wake is then not the encoding of the message that was handed to send (a field such as the ack flag falls back to its default)", "the line the transport finally gets for a sent message is the encoding of that message: an outgoing handler writes the encoded line it was given or parks the message itself (or a copy of all its fields), never a re-built message", only_keys="::parks::")
    c12.outcome1(ctx, proxy)


def delim1(ctx: Ctx, chk) -> None:
    rule = "DELIM-1"
    chk.rule(rule, "every site that splits a wire line on ';' isolates the payload as everything after the 5th delimiter from the left (split(';', 5) into six slots)")
    _schema, hooks = schema_hooks(ctx)
    pre = hooks["pre_load"][0] if hooks["pre_load"] else None
    funcs = {f"{codec.SCHEMA}.to_dict"} | ({pre.fq} | {h.fq for h in codec.decode_helpers(ctx, pre)} if pre is not None else set())
    n = codec.check_delim1(ctx, chk, rule, only_funcs=funcs)
    chk.floor(rule, "split sites in MessageSchema.to_dict", n, 1)


def schema_hooks(ctx: Ctx):
    schema = ctx.cls(codec.SCHEMA)
    hooks = {"pre_load": [], "post_load": [], "post_dump": [], "pre_dump": []}
    for fl in schema.mro_methods().values():
        for f in fl:
            for d in f.decorator_names:
                k = d.split("(")[0].split(".")[-1]
                if k in hooks:
                    hooks[k].append(f)
    return schema, hooks


def order1(ctx: Ctx, chk) -> None:
    rule = "ORDER-1"
    chk.rule(rule, "Meta.fields = declared schema fields = Message.__init__ parameters = 'node;child;command;ack;type;payload', and both hooks iterate over the same self.fields")
    I = ctx.I
    schema, hooks = schema_hooks(ctx)
    loc = f"{schema.module.relpath}:{schema.node.lineno}"
    mf = codec.meta_fields(I)
    chk.instance(rule)
    if tuple(mf) == codec.FIELD_ORDER:
        chk.ok(rule, "MessageSchema.Meta.fields", f"= {mf}", loc)
    else:
        chk.refute(rule, "MessageSchema.Meta.fields", f"Meta.fields is {mf}; the wire order is {codec.FIELD_ORDER}", loc)
    declared = tuple(ctx.eea().schema_field_names(schema) or ())
    chk.instance(rule)
    if set(declared) == set(codec.FIELD_ORDER):
        chk.ok(rule, "MessageSchema declared fields", f"= {declared}", loc)
    else:
        chk.refute(rule, "MessageSchema declared fields", f"declared fields {declared} differ from {codec.FIELD_ORDER}", loc)
    msg = ctx.cls(codec.MESSAGE)
    init = msg.find_method("__init__")
    if init is None:
        raise AnalysisError("anchor vanished: Message.__init__")
    params = tuple(init.positional_params[1:])
    chk.instance(rule)
    if params == codec.FIELD_ORDER:
        chk.ok(rule, "Message.__init__ parameters", f"= {params}", ctx.loc(init, init.node))
    else:
        chk.refute(rule, "Message.__init__ parameters", f"Message.__init__ takes {params}; the wire order is {codec.FIELD_ORDER}", ctx.loc(init, init.node))
    # hooks iterate self.fields
    if len(hooks["pre_load"]) != 1 or len(hooks["post_dump"]) != 1 or len(hooks["post_load"]) != 1:
        raise AnalysisError(f"ORDER-1: expected one pre_load, one post_load, one post_dump hook on MessageSchema, found { {k: len(v) for k, v in hooks.items()} }")
    pre, post = hooks["pre_load"][0], hooks["post_dump"][0]
    # pre_load: dict(zip(self.fields, <split result>))
    chk.instance(rule)
    zips = [n for n in ctx.own_nodes(pre) if isinstance(n, ast.Call) and isinstance(n.func, ast.Name) and n.func.id == "zip"]
    from ..prov import Canon

    ok = len(zips) == 1 and len(zips[0].args) == 2 and Canon(I, pre, "").canon(zips[0].args[0]) == "self.fields"
    if ok:
        chk.ok(rule, fkey(pre, zips[0]), "split result zipped onto self.fields in field order", ctx.loc(pre, zips[0]))
    elif zips:
        chk.refute(rule, fkey(pre, zips[0]), f"`{norm(zips[0])}` does not pair the split fields with self.fields in order", ctx.loc(pre, zips[0]))
    else:
        raise AnalysisError(f"ORDER-1: pre_load hook {pre.fq} has no zip(self.fields, ...) - shape not recognised")
    # post_dump: join over [.. for field in self.fields]
    chk.instance(rule)
    comps = [n for r_ in encoded_line_trees(ctx, post) for n in ast.walk(r_) if isinstance(n, (ast.ListComp, ast.GeneratorExp))]
    okc = [c for c in comps if len(c.generators) == 1 and norm(c.generators[0].iter) == "self.fields"]
    if len(okc) == 1:
        c = okc[0]
        tgt = norm(c.generators[0].target)
        elt = norm(c.elt)
        if elt in (f"str(data[{tgt}])", f"data[{tgt}]") and not c.generators[0].ifs:
            chk.ok(rule, fkey(post, c), "fields joined in self.fields order", ctx.loc(post, c))
        else:
            chk.refute(rule, fkey(post, c), f"`{norm(c)}` does not emit str(data[field]) for every field in order", ctx.loc(post, c))
    else:
        # a list of field texts that is modified in place after it was built from the message
        mut = I.mutated_locals(post)
        used = {n.id for r_ in encoded_line_trees(ctx, post) for n in ast.walk(r_) if isinstance(n, ast.Name)}
        hit = sorted(used & set(mut))
        if hit:
            m0 = mut[hit[0]]
            chk.refute(rule, f"{post.fq}::{hit[0]}::modified-after-build", f"the encoder changes the field texts after building them from the message (`{norm(m0)[:70]}`): the emitted line does not spell the message's own field values (e.g. the payload is rewritten)", ctx.loc(post, m0))
        else:
            raise AnalysisError(f"ORDER-1: post_dump hook {post.fq}: join over self.fields not recognised")


def encoded_line_trees(ctx: Ctx, post) -> list:
    """The expressions post_dump can return, with single-assignment locals written out and constants folded."""
    from ..prov import Canon

    cn = Canon(ctx.I, post, "")
    return [cn.tree(r.value) for r in ctx.own_nodes(post) if isinstance(r, ast.Return) and r.value is not None]


def strip_scan(ctx: Ctx, chk) -> None:
    rule = "STRIP-SCAN"
    chk.rule(rule, "on the way from the line to the six field texts (the pre_load hook and every function of the package it reaches) nothing removes *leading* whitespace: no `.strip(` / `.lstrip(` call and no `str.strip` / `str.lstrip` handed to map() or a comprehension - a payload that starts with a blank would come back without it (the statement only exempts trailing whitespace of the line)")
    from .common import callee_names

    schema, hooks = schema_hooks(ctx)
    pre = hooks["pre_load"][0]
    seen = {pre.fq: pre}
    work = [(pre, 0)]
    while work:
        g_, d_ = work.pop()
        for n in ctx.own_nodes(g_):
            if not (isinstance(n, ast.Call) and isinstance(n.func, (ast.Name, ast.Attribute))):
                continue
            try:
                names = callee_names(ctx, g_, n)
            except AnalysisError:
                continue
            for nm in sorted(names):
                if not nm.startswith("aiomysensors.") or nm in seen:
                    continue
                try:
                    h = ctx.func(nm)
                except (AnalysisError, KeyError):
                    continue
                if h is None:
                    continue
                seen[nm] = h
                if d_ < 3:
                    work.append((h, d_ + 1))
    n_ = 0
    for fq, g_ in sorted(seen.items()):
        n_ += 1
        chk.instance(rule)
        bad = None
        for x in ctx.own_nodes(g_):
            if isinstance(x, ast.Attribute) and x.attr in ("strip", "lstrip"):
                par = ctx.prog.parents.get(x)
                called = isinstance(par, ast.Call) and par.func is x
                on_str_class = isinstance(x.value, ast.Name) and x.value.id == "str"
                if called or on_str_class:
                    bad = x
                    break
        if bad is None:
            chk.ok(rule, f"{fq}::no-leading-strip", "no strip / lstrip", g_.where, sample=n_ <= 2)
        else:
            par = ctx.prog.parents.get(bad)
            chk.refute(rule, f"{fq}::{norm(par if isinstance(par, ast.Call) else bad)[:60]}", f"`{norm(par if isinstance(par, ast.Call) else bad)[:70]}` in {g_.qualname} removes leading whitespace on the decode path: a payload that starts with a blank or tab is decoded without it, so encode-then-decode does not return the message", ctx.loc(g_, bad))
    chk.floor(rule, "functions on the decode path", n_, 1)


def delim2(ctx: Ctx, chk) -> None:
    rule = "DELIM-2"
    chk.rule(rule, "split and join use the same delimiter ';'; the dumped string is the join plus exactly one '\\n'; on load only trailing whitespace of the whole line is removed")
    I = ctx.I
    schema, hooks = schema_hooks(ctx)
    pre, post = hooks["pre_load"][0], hooks["post_dump"][0]
    # the returned expression with single-assignment locals written out and constants folded:
    # it must be  f"{<sep>.join(<fields>)}\n"  or  <sep>.join(<fields>) + "\n"
    trees = encoded_line_trees(ctx, post)
    if not trees:
        raise AnalysisError(f"DELIM-2: {post.fq} returns nothing")
    for t in trees:
        chk.instance(rule)
        loc = ctx.loc(post, post.node)
        j = None
        term = None
        if isinstance(t, ast.JoinedStr):
            fvs = [v for v in t.values if isinstance(v, ast.FormattedValue)]
            consts = "".join(str(v.value) for v in t.values if isinstance(v, ast.Constant))
            if len(fvs) == 1 and t.values and t.values[0] is fvs[0] and fvs[0].conversion == -1 and fvs[0].format_spec is None and isinstance(fvs[0].value, ast.Call):
                j, term = fvs[0].value, consts
            else:
                chk.refute(rule, f"{post.fq}::terminator", f"encoded form `{norm(t)[:80]}` is not '<fields>\\n': literal parts {consts!r}, {len(fvs)} interpolations", loc)
                continue
        elif isinstance(t, ast.BinOp) and isinstance(t.op, ast.Add) and isinstance(t.left, ast.Call) and isinstance(t.right, ast.Constant):
            j, term = t.left, t.right.value
        if j is None or not (isinstance(j.func, ast.Attribute) and j.func.attr == "join" and len(j.args) == 1):
            raise AnalysisError(f"DELIM-2: encoded-line shape `{norm(t)[:80]}` not recognised in {post.fq}")
        sepn = j.func.value
        sep = sepn.value if isinstance(sepn, ast.Constant) else None
        if sep is None:
            try:
                sep = I.folder.fold(post.module, sepn)
            except Unfoldable as err:
                raise AnalysisError(f"DELIM-2: cannot fold join separator: {err}") from err
        if sep == ";":
            chk.ok(rule, f"{post.fq}::join-separator", "join separator folds to ';'", loc)
        else:
            chk.refute(rule, f"{post.fq}::join-separator", f"fields are joined with {sep!r}, the wire delimiter is ';'", loc)
        chk.instance(rule)
        if term == "\n":
            chk.ok(rule, f"{post.fq}::terminator", "encoded form is the join followed by exactly one newline", loc)
        else:
            chk.refute(rule, f"{post.fq}::terminator", f"encoded form ends with {term!r} instead of a single newline", loc)
        chk.instance(rule)
        chk.ok(rule, f"{post.fq}::return", "returns the joined string unmodified", loc, sample=False)
    # pre_load: only rstrip() (no args) on the whole line before the split
    helpers = codec.decode_helpers(ctx, pre)
    sites = [s for s in codec.split_sites(I) if s.func is pre or s.func in helpers]
    for s in sites:
        chk.instance(rule)
        from ..prov import Canon

        recv = s.call.func.value
        sf = s.func
        ps_ = [p_ for p_ in sf.positional_params if not (p_ in ("self", "cls") and sf.cls is not None)]
        param = pre.positional_params[1] if sf is pre else (ps_[0] if ps_ else "?")
        rtxt = Canon(I, sf, "").canon(recv)
        key = f"{sf.fq}::{rtxt[:60]}::strip"
        if rtxt == param:
            chk.ok(rule, key, "line split unmodified", ctx.loc(pre, s.call))
        elif rtxt == f"{param}.rstrip()":
            chk.ok(rule, key, "only trailing whitespace (incl. the terminator) removed before the split", ctx.loc(pre, s.call))
        elif _strips_only_line_end(rtxt, param):
            chk.ok(rule, key, "only trailing line-end / whitespace characters (the terminator among them) removed before the split", ctx.loc(pre, s.call))
        else:
            chk.refute(rule, key, f"the line is preprocessed by `{norm(recv)}` before the split: anything but rstrip() alters fields the property keeps (leading blanks, inner characters)", ctx.loc(pre, s.call))
    # no per-field stripping of the zipped values
    chk.instance(rule)
    strips = [(g_, n) for g_ in [pre] + helpers for n in ctx.own_nodes(g_) if isinstance(n, ast.Call) and isinstance(n.func, ast.Attribute) and n.func.attr in ("strip", "lstrip", "lower", "upper", "replace", "title")]
    if strips:
        g0, s0 = strips[0]
        chk.refute(rule, fkey(g0, s0) + "::field-transform", f"the decoder transforms field text with `{norm(s0)}` ({g0.qualname}): a payload is no longer the text after the 5th delimiter (leading blanks, case, inner characters are lost)", ctx.loc(g0, s0))
    else:
        chk.ok(rule, f"{pre.fq}::no-field-transform", "no strip/lower/replace on field text", ctx.loc(pre, pre.node))


def _strips_only_line_end(rtxt: str, param: str) -> bool:
    """`<param>.rstrip(<constant of whitespace characters that include the newline>)`: the terminator the encoder adds is
    removed and nothing but trailing whitespace can go with it (payloads are free of trailing whitespace)."""
    try:
        e = ast.parse(rtxt, mode="eval").body
    except SyntaxError:
        return False
    if not (isinstance(e, ast.Call) and isinstance(e.func, ast.Attribute) and e.func.attr == "rstrip" and norm(e.func.value) == param and len(e.args) == 1 and not e.keywords):
        return False
    a = e.args[0]
    return isinstance(a, ast.Constant) and isinstance(a.value, str) and "\n" in a.value and all(ch.isspace() for ch in a.value)


_ACCESS_HOOKS = ("__setattr__", "__getattribute__", "__getattr__")


def _pure_forward(f) -> bool:
    """`def __setattr__(self, name, value): super().__setattr__(name, value)` (optionally after a docstring)."""
    body = [s for s in f.node.body if not (isinstance(s, ast.Expr) and isinstance(s.value, ast.Constant))]
    if len(body) != 1:
        return False
    s = body[0]
    v = s.value if isinstance(s, (ast.Expr, ast.Return)) else None
    if not isinstance(v, ast.Call) or not isinstance(v.func, ast.Attribute) or v.func.attr != f.name or v.keywords:
        return False
    recv = v.func.value
    if not (isinstance(recv, ast.Call) and norm(recv.func) == "super") and norm(recv) != "object":
        return False
    args = [norm(a) for a in v.args]
    params = f.positional_params
    return args in (params[1:], params)


def _plain_attributes(ctx: Ctx, chk, rule: str, msg, fields) -> None:
    methods = msg.mro_methods()
    for hook in _ACCESS_HOOKS:
        chk.instance(rule)
        key = f"{msg.fq}::{hook}"
        fs = methods.get(hook, [])
        bad = [f for f in fs if not _pure_forward(f)]
        if bad:
            chk.refute(rule, key, f"Message defines {hook}: a value stored in / read from a field goes through `{bad[0].qualname}` and is not the value that was given (e.g. the payload stripped or re-typed on every assignment) - a constructed message and the message decoded from its own line then differ", ctx.loc(bad[0], bad[0].node))
        else:
            chk.ok(rule, key, "no attribute-access hook on Message" if not fs else "a pure forward to the default", f"{msg.module.relpath}:{msg.node.lineno}", sample=False)
    for p in fields:
        chk.instance(rule)
        key = f"{msg.fq}::{p}::descriptor"
        fs = methods.get(p, [])
        cls_attr = [c for c in msg.repo_mro() if p in c.attrs and c.attrs[p] is not None]
        if not fs and not cls_attr:
            chk.ok(rule, key, "a plain instance attribute", f"{msg.module.relpath}:{msg.node.lineno}", sample=False)
            continue
        if cls_attr:
            c = cls_attr[0]
            v = c.attrs[p]
            if isinstance(v, ast.Call) and norm(v.func).split(".")[-1] != "field":
                chk.refute(rule, key, f"field {p} is a class-level `{norm(v)[:50]}` (a descriptor): stores and reads of the field go through it", f"{c.module.relpath}:{v.lineno}")
            else:
                chk.ok(rule, key, "a class-level default value, not a descriptor", f"{c.module.relpath}:{v.lineno}", sample=False)
            continue
        # property: getter returns the private attribute the setter stores the given value (or int(value)) in
        bad_f = None
        for f in fs:
            decos = [norm(d) for d in f.node.decorator_list]
            params = f.positional_params
            if any(d.endswith(".setter") for d in decos):
                st = [s for s in f.node.body if not (isinstance(s, ast.Expr) and isinstance(s.value, ast.Constant))]
                ok = len(st) == 1 and isinstance(st[0], ast.Assign) and len(params) == 2 and norm(st[0].value) in ((params[1], f"int({params[1]})") if p in INT_FIELDS else (params[1],))
            elif "property" in decos:
                st = [s for s in f.node.body if not (isinstance(s, ast.Expr) and isinstance(s.value, ast.Constant))]
                ok = len(st) == 1 and isinstance(st[0], ast.Return) and isinstance(st[0].value, ast.Attribute) and norm(st[0].value.value) == params[0]
            else:
                ok = False
            if not ok:
                bad_f = f
                break
        if bad_f is not None:
            chk.refute(rule, key, f"field {p} is served by `{bad_f.qualname}`, which does not simply store / return the given value", ctx.loc(bad_f, bad_f.node))
        else:
            chk.ok(rule, key, "a property that stores and returns the value unchanged", ctx.loc(fs[0], fs[0].node), sample=False)


def norm1(ctx: Ctx, chk, rule: str) -> None:
    chk.rule(rule, "Message.__init__ stores every parameter in the same-named attribute by identity or int(), int() exactly for node_id, child_id, command, message_type; post_load builds Message(**data); payload is fields.Str, numeric fields deserialise to int")
    I = ctx.I
    msg = ctx.cls(codec.MESSAGE)
    init = msg.find_method("__init__")
    if init is None:
        raise AnalysisError("anchor vanished: Message.__init__")
    selfn = init.positional_params[0]
    stores: dict[str, ast.expr] = {}
    for st in init.node.body:
        if isinstance(st, ast.Assign) and len(st.targets) == 1:
            t = st.targets[0]
            if isinstance(t, ast.Attribute) and isinstance(t.value, ast.Name) and t.value.id == selfn:
                stores[t.attr] = st.value
    for p in init.positional_params[1:]:
        chk.instance(rule)
        key = f"{init.fq}::self.{p}"
        v = stores.get(p)
        if v is None:
            chk.refute(rule, key, f"Message.__init__ does not store parameter {p} in attribute {p}", ctx.loc(init, init.node))
            continue
        via_int = isinstance(v, ast.Call) and isinstance(v.func, ast.Name) and v.func.id == "int" and len(v.args) == 1 and not v.keywords
        src = v.args[0] if via_int else v
        if not (isinstance(src, ast.Name) and src.id == p):
            chk.refute(rule, key, f"attribute {p} is set from `{norm(v)}`, not from parameter {p} (identity or int())", ctx.loc(init, v))
            continue
        if p in INT_FIELDS and not via_int:
            chk.refute(rule, key, f"{p} is stored without int() normalisation (IntEnum / numeric text would not compare equal after a round trip)", ctx.loc(init, v))
            continue
        if p == "payload" and via_int:
            chk.refute(rule, key, "payload is converted with int()", ctx.loc(init, v))
            continue
        chk.ok(rule, key, f"self.{p} = {'int(' + p + ')' if via_int else p}", ctx.loc(init, v), sample=p in ("node_id", "payload"))
    # attribute access on a Message is plain: what __init__ (or anyone) stores in a field is what is read back
    _plain_attributes(ctx, chk, rule, msg, init.positional_params[1:])
    # post_load
    schema, hooks = schema_hooks(ctx)
    pl = hooks["post_load"]
    if len(pl) != 1:
        raise AnalysisError("NORM-1: expected exactly one post_load hook on MessageSchema")
    f = pl[0]
    chk.instance(rule)
    rets = [n for n in ctx.own_nodes(f) if isinstance(n, ast.Return)]
    ok = len(rets) == 1 and isinstance(rets[0].value, ast.Call) and norm(rets[0].value.func) == "Message" and len(rets[0].value.keywords) == 1 and rets[0].value.keywords[0].arg is None and not rets[0].value.args and norm(rets[0].value.keywords[0].value) == f.positional_params[1]
    if ok:
        chk.ok(rule, f"{f.fq}::return", "post_load returns Message(**data)", ctx.loc(f, rets[0]))
    else:
        chk.refute(rule, f"{f.fq}::return", f"post_load returns `{norm(rets[0].value) if rets and rets[0].value else '?'}`, not Message(**data) of the validated fields", ctx.loc(f, rets[0] if rets else f.node))
    # field kinds
    for fname in codec.FIELD_ORDER:
        chk.instance(rule)
        rec = codec.field_decl(ctx, schema, fname)
        key = f"{codec.SCHEMA}.{fname}::kind"
        if rec is None:
            chk.refute(rule, key, f"schema field {fname} is not declared", f"{schema.module.relpath}:{schema.node.lineno}")
            continue
        kind = rec["kind"]
        loc = f"{rec['module'].relpath}:{rec['call'].lineno}"
        if fname == "payload":
            good = kind.endswith(("fields.Str", "fields.String"))
        elif fname in ("child_id", "command"):
            good = kind.startswith("aiomysensors.") or kind.endswith(("fields.Int", "fields.Integer"))
            if good and kind.startswith("aiomysensors."):
                fc = ctx.cls(kind)
                des = fc.find_method("_deserialize")
                ann = norm(des.node.returns) if des is not None and des.node.returns is not None else None
                good = ann == "int"
        else:
            good = kind.endswith(("fields.Int", "fields.Integer"))
        if good:
            chk.ok(rule, key, f"{fname}: {kind}", loc, sample=False)
        else:
            chk.refute(rule, key, f"{fname} is declared as {kind}: the decoded value would not be the {'text' if fname == 'payload' else 'integer'} the line spells", loc)


CACHE_DECORATORS = ("cache", "lru_cache", "cached_property", "functools.cache", "functools.lru_cache", "functools.cached_property")


def encid1(ctx: Ctx, chk, rule: str = "ENC-ID-1") -> None:
    chk.rule(rule, "encoding writes the message's own field values: no field class of MessageSchema overrides _serialize with anything but the identity (return the value it was given, or the base class result for it), and the schema has no pre_dump hook that rewrites the message")
    I = ctx.I
    schema, hooks = schema_hooks(ctx)
    n = 0
    for name in codec.FIELD_ORDER:
        rec = codec.field_decl(ctx, schema, name)
        if rec is None:
            raise AnalysisError(f"anchor vanished: MessageSchema.{name}")
        n += 1
        chk.instance(rule)
        key = f"MessageSchema.{name}::_serialize"
        kind = rec["kind"]
        d = I.prog.lookup_fullname(kind) if isinstance(kind, str) and kind.startswith("aiomysensors") else None
        if d is None or d.kind != "class":
            chk.ok(rule, key, f"library field {kind}: serialises the attribute value", ctx.loc(schema.module, rec["call"]), sample=False)
            continue
        ser = d.obj.find_method("_serialize")
        if ser is None:
            chk.ok(rule, key, f"{d.obj.name} does not override _serialize", ctx.loc(schema.module, rec["call"]), sample=n <= 2)
            continue
        vparam = ser.positional_params[1] if len(ser.positional_params) > 1 else None
        bad = None
        for r in [x for x in ctx.own_nodes(ser) if isinstance(x, ast.Return)]:
            v = r.value
            if isinstance(v, ast.Name) and v.id == vparam:
                continue
            if isinstance(v, ast.Call) and isinstance(v.func, ast.Attribute) and v.func.attr == "_serialize" and isinstance(v.func.value, ast.Call) and norm(v.func.value.func) == "super" and v.args and isinstance(v.args[0], ast.Name) and v.args[0].id == vparam:
                continue
            bad = r
            break
        if bad is None:
            chk.ok(rule, key, f"{d.obj.name}._serialize returns the value it was given", ser.where)
        else:
            chk.refute(rule, key, f"{d.obj.name}._serialize can return `{norm(bad.value)[:60] if bad.value is not None else None}` instead of the field value: the encoded line does not carry the message's own {name}, so decoding it yields a different message (and replies are not addressed as constructed)", ctx.loc(ser, bad))
    for h in hooks["pre_dump"]:
        chk.instance(rule)
        p1 = h.positional_params[1] if len(h.positional_params) > 1 else None
        rets = [x for x in ctx.own_nodes(h) if isinstance(x, ast.Return)]
        stores = [x for x in ctx.own_nodes(h) if isinstance(x, (ast.Assign, ast.AugAssign)) and any(isinstance(t, (ast.Attribute, ast.Subscript)) for t in (x.targets if isinstance(x, ast.Assign) else [x.target]))]
        if rets and all(isinstance(r.value, ast.Name) and r.value.id == p1 for r in rets) and not stores:
            chk.ok(rule, f"{h.fq}::pre_dump", "returns the object unchanged", h.where)
        else:
            chk.refute(rule, f"{h.fq}::pre_dump", f"the pre_dump hook {h.name} rewrites the message before it is encoded", h.where)
    chk.floor(rule, "schema fields", n, 6)


def stateless1(ctx: Ctx, chk) -> None:
    rule = "STATELESS-1"
    chk.rule(rule, "the codec keeps no state between calls: decoding builds a fresh Message from the line every time (no attribute of the schema or of a field other than context['protocol'] is written after construction, no memoising decorator on a codec function, no module-level cache) - a remembered result would hand out the same mutable Message twice")
    I = ctx.I
    mod = ctx.module(codec.MESSAGE_MOD)
    n = 0
    codec_funcs = [f for f in ctx.prog.all_functions() if f.module is mod]
    for f in codec_funcs:
        n += 1
        chk.instance(rule)
        bad = None
        for d in f.decorator_names:
            if d.split("(")[0] in CACHE_DECORATORS:
                # memoising per *class / protocol object* (a validator built once per enum) remembers nothing about a
                # line or a message; memoising on anything else (text, mappings, messages, untyped) does
                anns = [norm(f.param_annotation(p_)) if f.param_annotation(p_) is not None else "" for p_ in f.params if p_ not in ("self", "cls")]
                per_type = bool(anns) and all(a_.strip("'\"").startswith(("type[", "Type[")) or a_.strip("'\"") in ("ProtocolType", "type") for a_ in anns)
                if not per_type:
                    bad = (f.node, f"is memoised with @{d}")
        is_ctor = f.name == "__init__" and f.cls is not None and f.cls.fq == codec.MESSAGE
        for node in ctx.own_nodes(f):
            if bad:
                break
            targets = []
            if isinstance(node, ast.Assign):
                targets = node.targets
            elif isinstance(node, (ast.AugAssign, ast.AnnAssign)):
                targets = [node.target]
            for t in targets:
                base = t
                while isinstance(base, ast.Subscript):
                    base = base.value
                if isinstance(base, ast.Attribute):
                    root = base
                    while isinstance(root, ast.Attribute):
                        root = root.value
                    owner = norm(base)
                    if isinstance(root, ast.Name) and root.id in ("self", "cls") and not is_ctor:
                        if owner == "self.context" and isinstance(t, ast.Subscript) and f.name == "set_protocol":
                            continue
                        bad = (node, f"stores into `{norm(t)[:60]}`")
                    elif isinstance(root, ast.Name) and root.id in mod.consts:
                        bad = (node, f"stores into the module-level `{norm(t)[:60]}`")
                elif isinstance(base, ast.Name) and isinstance(t, ast.Subscript) and base.id in mod.consts:
                    bad = (node, f"stores into the module-level `{norm(t)[:60]}`")
            if isinstance(node, ast.Call) and isinstance(node.func, ast.Attribute) and node.func.attr in ("setdefault", "update", "append", "add", "__setitem__"):
                root = node.func.value
                while isinstance(root, (ast.Attribute, ast.Subscript)):
                    root = root.value
                if isinstance(root, ast.Name) and ((root.id in ("self", "cls") and not is_ctor) or root.id in mod.consts):
                    bad = (node, f"mutates `{norm(node.func.value)[:60]}`")
            if isinstance(node, ast.Global):
                bad = (node, f"rebinds module globals {node.names}")
        key = f"{f.fq}::stateless"
        if bad is None:
            chk.ok(rule, key, "no state written", f.where, sample=n <= 2)
        else:
            chk.refute(rule, key, f"{f.qualname} {bad[1]}: the codec remembers something between calls, so two decodes can return the same (mutable) Message object or a stale result", ctx.loc(f, bad[0]))
    chk.floor(rule, "codec functions", n, 8)
    # the decode entry point is marshmallow's own load(): an override that adds behaviour is examined above;
    # post_load must construct (not look up) the result
    schema, hooks = schema_hooks(ctx)
    chk.instance(rule)
    pl = hooks["post_load"][0]
    rets = [r for r in ctx.own_nodes(pl) if isinstance(r, ast.Return)]
    fresh = all(isinstance(r.value, ast.Call) and norm(r.value.func) == "Message" for r in rets) and bool(rets)
    if fresh:
        chk.ok(rule, f"{pl.fq}::fresh", "every decode constructs a new Message", pl.where, sample=False)
    else:
        chk.refute(rule, f"{pl.fq}::fresh", "post_load does not construct a new Message for every decode", pl.where)


def enc_fresh(ctx: Ctx, chk) -> None:
    rule = "ENC-FRESH-1"
    chk.rule(rule, "the line Gateway.send hands to the outgoing handler (and so to the transport) is the encoding of the message made in that very call: the 4th argument of the handler dispatch is `self._message_schema.dump(<the message parameter>)` - never a remembered encoding of an earlier state of the (mutable) message object")
    from ..prov import Canon
    from . import tables

    send_raw = ctx.func("aiomysensors.gateway.Gateway.send")
    send = ctx.inl(send_raw)
    calls = tables.dispatch_calls(ctx, send, tables.DISPATCH_OUT)
    if len(calls) != 1:
        raise AnalysisError(f"ENC-FRESH-1: expected one outgoing handler dispatch in Gateway.send, found {len(calls)}")
    c = calls[0]
    cn = Canon(ctx.I, send, "")
    msg = send_raw.positional_params[1]
    chk.instance(rule)
    key = f"{send_raw.fq}::encoded-line"
    if len(c.args) < 4:
        raise AnalysisError("ENC-FRESH-1: the dispatch does not pass the encoded line as 4th argument")
    got = cn.canon(c.args[3])
    want = f"self._message_schema.dump({msg})"
    from .common import schema_attrs
    import re as _re

    m_ = _re.match(r"^self\.(\w+)\.dump\((.*)\)$", got)
    if m_ and m_.group(1) in schema_attrs(ctx) and m_.group(2) == msg:
        want = got  # the gateway's own MessageSchema instance, whatever the attribute is called
    mb_ = _re.match(r"^self\.(\w+)\((.*)\)$", got)
    if mb_ and mb_.group(2) == msg and send_raw.cls is not None:
        # an attribute that holds the bound method `<schema>.dump`, stored once (`self._dump = self._schema.dump`): calling
        # it is calling dump
        stores_ = [n_.value for fl_ in send_raw.cls.methods.values() for f_ in fl_ for n_ in ctx.own_nodes(f_) if isinstance(n_, (ast.Assign, ast.AnnAssign)) and n_.value is not None and any(norm(t_) == f"self.{mb_.group(1)}" for t_ in (n_.targets if isinstance(n_, ast.Assign) else [n_.target]))]
        if len(stores_) == 1 and isinstance(stores_[0], ast.Attribute) and stores_[0].attr == "dump" and isinstance(stores_[0].value, ast.Attribute) and norm(stores_[0].value.value) == "self" and stores_[0].value.attr in schema_attrs(ctx):
            want = got
    if got == want and cn.canon(c.args[1]) == msg:
        chk.ok(rule, key, f"handler(self, {msg}, <buffer>, {want})", ctx.loc(send_raw, c))
    elif (mh_ := _re.match(r"^self\.(\w+)\((\w+)\)$", got)) and send_raw.cls is not None and send_raw.cls.find_method(mh_.group(1)) is not None and any(isinstance(x_, ast.Return) and x_.value is not None and (isinstance(x_.value, ast.Subscript) or (isinstance(x_.value, ast.Call) and isinstance(x_.value.func, ast.Attribute) and x_.value.func.attr in ("get", "pop", "setdefault"))) for x_ in ctx.own_nodes(send_raw.cls.find_method(mh_.group(1)))):
        # a helper of the gateway that can return an encoding it kept from an earlier call
        h_ = send_raw.cls.find_method(mh_.group(1))
        chk.refute(rule, key, f"the encoded line handed on comes from {h_.qualname}, which can return a stored encoding (`return <container>[...]`): a message object that was sent before and changed since is written in its old encoding", h_.where)
    elif not _re.search(r"\.dumps?\(", got):
        # not an encode call at all (a helper that could not be written out, a stored bound method ...): no verdict
        raise AnalysisError(f"ENC-FRESH-1: the encoded line handed on is `{got[:60]}` - its origin is not an encode call visible in Gateway.send (helper not written out)")
    else:
        chk.refute(rule, key, f"the encoded line handed on is `{got[:70]}`, not `{want}` computed in this call: a message object that was sent before and changed since can be written in its old encoding", ctx.loc(send_raw, c))
