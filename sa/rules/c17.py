"""C17 Serial/TCP transport delivers exactly the lines of the byte stream.

Decides EEA-STREAM, CONN-GUARD, FRAME-1, FACTORY-1.  Line framing for every
chunking is delegated whole to asyncio.StreamReader.readuntil (trusted): the
rule checks that it *is* delegated, once, with the right terminator.
"""

from __future__ import annotations

import ast

from ..model import AnalysisError, Unfoldable, norm
from .common import Ctx, callee_names, escape_rule, fkey, short

ST = "aiomysensors.transport.StreamTransport"
TERR = "aiomysensors.exceptions.TransportError"
OSERR = "builtins.OSError"


def run(ctx: Ctx, chk) -> None:
    chk.assume("A1", "A3", "A4", "A5")
    chk.run_rule(eea_stream, ctx)
    chk.run_rule(conn_guard, ctx)
    chk.run_rule(frame1, ctx)
    chk.run_rule(factory1, ctx)
    chk.run_rule(absorb1, ctx)
    chk.run_rule(override1, ctx)
    chk.run_rule(resync1, ctx)
    chk.run_rule(close_graceful, ctx)
    chk.run_rule(init_attrs, ctx)
    chk.run_rule(guard_stable, ctx)


def init_attrs(ctx: Ctx, chk) -> None:
    rule = "INIT-ATTRS"
    chk.rule(rule, "the attributes the stream operations test (`self.reader`, `self.writer`, the skip flag) exist on every transport object before connect: StreamTransport gives each a value in its constructor (or in the class body - a bare annotation creates no attribute), and every subclass constructor calls it; otherwise read / write / disconnect on a transport that was never (or not successfully) connected fail with AttributeError instead of the transport error / silent return the statement asks for")
    st = ctx.cls(ST)
    init = st.find_method("__init__")
    # the constructor chain: a constructor that calls super().__init__() / Base.__init__(self) also runs the next one
    # in the MRO (the stream state may live in a base class / mixin of StreamTransport)
    inits = []
    cur = init
    while cur is not None and cur not in inits:
        inits.append(cur)
        delegates = any(isinstance(x, ast.Call) and isinstance(x.func, ast.Attribute) and x.func.attr == "__init__" for x in ctx.own_nodes(cur))
        cur = st.find_method("__init__", after=cur.cls) if delegates and cur.cls is not None else None
    used = set()
    for name in ("read", "write", "disconnect", "connect"):
        f = st.find_method(name)
        if f is None:
            raise AnalysisError(f"anchor vanished: StreamTransport.{name}")
        for n in ctx.own_nodes(f):
            if isinstance(n, ast.Attribute) and isinstance(n.value, ast.Name) and n.value.id == "self" and isinstance(n.ctx, ast.Load) and st.find_method(n.attr) is None:
                used.add(n.attr)
    n_inst = 0
    for attr in sorted(used):
        n_inst += 1
        chk.instance(rule)
        key = f"{st.fq}.{attr}::initialised"
        in_init = any(isinstance(x, (ast.Assign, ast.AnnAssign)) and any(isinstance(t, ast.Attribute) and t.attr == attr and isinstance(t.value, ast.Name) and t.value.id == "self" for t in (x.targets if isinstance(x, ast.Assign) else [x.target])) and (isinstance(x, ast.Assign) or x.value is not None) for i_ in inits for x in ctx.own_nodes(i_))
        in_body = any(attr in k.attrs for k in st.repo_mro())
        if in_init or in_body:
            chk.ok(rule, key, "assigned in __init__" if in_init else "class-level default", st.module.relpath + f":{st.node.lineno}", sample=n_inst <= 2)
        else:
            chk.refute(rule, key, f"self.{attr} is read by the stream operations but nothing gives it a value before connect() (no assignment in StreamTransport.__init__, no class-level default - an annotation without a value creates no attribute): read / write / disconnect before a successful connect raise AttributeError", st.module.relpath + f":{st.node.lineno}")
    for sub in ctx.prog.subclasses(st):
        si = sub.methods.get("__init__", [None])[-1]
        if si is None:
            continue
        n_inst += 1
        chk.instance(rule)
        key = f"{sub.fq}.__init__::super().__init__()"
        calls = [x for x in ctx.own_nodes(si) if isinstance(x, ast.Call) and isinstance(x.func, ast.Attribute) and x.func.attr == "__init__" and isinstance(x.func.value, ast.Call) and norm(x.func.value.func) == "super"]
        if calls or init is None:
            chk.ok(rule, key, "calls the StreamTransport constructor" if calls else "no base constructor to call", ctx.loc(si, si.node), sample=False)
        else:
            chk.refute(rule, key, f"{sub.name}.__init__ does not call super().__init__(): the stream attributes are never initialised on this transport", ctx.loc(si, si.node))
    chk.floor(rule, "stream attributes and subclass constructors", n_inst, 3)


def close_graceful(ctx: Ctx, chk) -> None:
    rule = "CLOSE-GRACEFUL"
    chk.rule(rule, "bytes handed to a stream are only ever discarded by the peer, never by the transport itself: the stream transports end a connection through writer.close() + wait_closed() (which flush) - no transport.abort() and no SO_LINGER with a zero timeout (close then resets the connection and the kernel drops every byte not yet sent, although write() returned normally)")
    n = 0
    for f in ctx.prog.all_functions():
        if not f.module.name.startswith("aiomysensors.transport") or f.module.name.endswith(".mqtt"):
            continue
        n += 1
        for node in ctx.own_nodes(f):
            if not (isinstance(node, ast.Call) and isinstance(node.func, ast.Attribute)):
                continue
            if node.func.attr == "abort" and not node.args:
                chk.instance(rule)
                chk.refute(rule, fkey(f, node) + "::abort", f"`{norm(node)}` closes the connection without flushing: bytes of earlier writes that are still buffered are never put on the stream", ctx.loc(f, node))
            if node.func.attr == "setsockopt" and any("SO_LINGER" in norm(a) for a in node.args):
                chk.instance(rule)
                chk.refute(rule, fkey(f, node) + "::SO_LINGER", f"`{norm(node)[:80]}` sets SO_LINGER on the connection: with a zero timeout close() resets the connection and the kernel discards the bytes it has not sent yet - lines for which write() returned normally never reach the peer", ctx.loc(f, node))
    chk.instance(rule)
    chk.ok(rule, "transport-package::close-discipline", f"{n} functions of the stream transport modules scanned for abort() / SO_LINGER", "src/aiomysensors/transport/__init__.py")
    chk.floor(rule, "functions of the stream transport modules", n, 8)


def eea_stream(ctx: Ctx, chk) -> None:
    rule = "EEA-STREAM"
    chk.rule(rule, "connect/read/write of the stream transports raise only TransportError subclasses; disconnect lets no exception escape (OS-level errors absorbed)")
    eea = ctx.eea()
    st = ctx.cls(ST)
    entries = []
    for name in ("connect", "read", "write"):
        f = st.find_method(name)
        if f is None:
            raise AnalysisError(f"anchor vanished: StreamTransport.{name}")
        entries.append((f"StreamTransport.{name}", eea.escapes_of(f, None)))
    escape_rule(ctx, chk, rule, entries, lambda exc, site: eea.issub(exc, TERR), eea)
    f = st.find_method("disconnect")
    if f is None:
        raise AnalysisError("anchor vanished: StreamTransport.disconnect")
    escape_rule(ctx, chk, rule, [("StreamTransport.disconnect", eea.escapes_of(f, None))], lambda exc, site: False, eea)
    # positive part: each of the mapped library errors is actually produced (the mapping exists)
    for name, need in (("connect", TERR), ("read", "aiomysensors.exceptions.TransportReadError"), ("write", "aiomysensors.exceptions.TransportFailedError")):
        chk.instance(rule)
        f = st.find_method(name)
        esc = eea.escapes_of(f, None)
        if any(eea.issub(exc, need) for (exc, _s) in esc):
            chk.ok(rule, f"StreamTransport.{name}::maps-to::{short(need)}", f"I/O failures surface as {short(need)}", ctx.loc(f, f.node), sample=False)
        else:
            chk.refute(rule, f"StreamTransport.{name}::maps-to::{short(need)}", f"StreamTransport.{name} never raises {short(need)}: I/O failures are swallowed or unmapped", ctx.loc(f, f.node))
    chk.floor(rule, "entry points", 4, 4)


def conn_guard(ctx: Ctx, chk) -> None:
    rule = "CONN-GUARD"
    chk.rule(rule, "every use of self.reader / self.writer is dominated by an `is None` test whose failing branch raises TransportError (returns, in disconnect)")
    from ..cfg import CFG

    st = ctx.cls(ST)
    n_uses = 0
    for name in ("read", "write", "disconnect"):
        f = st.find_method(name)
        g = CFG(f.node)
        for attr in ("reader", "writer"):
            # the attribute itself or a local bound to it (`writer = self.writer` / tuple assignment)
            names = {f"self.{attr}"}
            for a_ in ctx.own_nodes(f):
                if isinstance(a_, ast.Assign) and len(a_.targets) == 1:
                    tg, vl = a_.targets[0], a_.value
                    pairs = list(zip(tg.elts, vl.elts)) if isinstance(tg, ast.Tuple) and isinstance(vl, ast.Tuple) and len(tg.elts) == len(vl.elts) else [(tg, vl)]
                    for x_, y_ in pairs:
                        if isinstance(x_, ast.Name) and norm(y_) == f"self.{attr}":
                            names.add(x_.id)
            uses = g.nodes_where(lambda n, names=names: n.kind != "test" and any(isinstance(x, ast.Attribute) and isinstance(x.ctx, ast.Load) and norm(x.value) in names and not (isinstance(x.value, ast.Name) and x.value.id == "self") for p_ in n.parts() for x in ast.walk(p_)))
            gtexts = {t_ for nm in names for t_ in (f"{nm} is None", f"not {nm}", f"{nm} is not None", nm)}
            postexts = {t_ for nm in names for t_ in (f"{nm} is not None", nm)}
            guards = g.nodes_where(lambda n, gtexts=gtexts: n.kind == "test" and norm(n.ast) in gtexts)
            for u in uses:
                n_uses += 1
                chk.instance(rule)
                key = f"{f.fq}::self.{attr}::{norm(u.ast)[:80]}"
                ok = False
                for gd in guards:
                    if not g.dominates(gd, u):
                        continue
                    positive = norm(gd.ast) in postexts
                    # the None branch must not reach the use
                    none_label = "f" if positive else "t"
                    starts = [s for s, lab in gd.succ if lab == none_label]
                    p = g.reach_avoiding(starts, lambda x, u=u: x is u, lambda x: False, from_succ=False)
                    if p is not None:
                        continue
                    # and it must raise TransportError (or return, for disconnect)
                    branch_nodes = _branch_nodes(g, starts)
                    raises = [b for b in branch_nodes if isinstance(b.ast, ast.Raise)]
                    returns = [b for b in branch_nodes if isinstance(b.ast, ast.Return)]
                    if name == "disconnect":
                        ok = True  # the None branch ends the call (explicit return or falling off the end) without touching the stream
                    elif raises and all(_raises_transport_error(ctx, f, r.ast) for r in raises) and not returns:
                        ok = True
                if ok:
                    chk.ok(rule, key, "dominated by a None guard that raises TransportError", ctx.loc(f, u.ast), sample=n_uses <= 3)
                else:
                    chk.refute(rule, key, f"`{norm(u.ast)[:80]}` uses self.{attr} without a dominating not-connected guard that raises TransportError: an unconnected transport fails with AttributeError", ctx.loc(f, u.ast))
    chk.floor(rule, "uses of reader/writer", n_uses, 4)


def _branch_nodes(g, starts):
    seen = set()
    stack = list(starts)
    out = []
    while stack:
        n = stack.pop()
        if n in seen or n.kind in ("exit", "raise"):
            continue
        seen.add(n)
        out.append(n)
        for s, lab in n.succ:
            if lab != "exc":
                stack.append(s)
    return out[:6]


def _raises_transport_error(ctx: Ctx, f, r: ast.Raise) -> bool:
    if r.exc is None:
        return False
    x = r.exc.func if isinstance(r.exc, ast.Call) else r.exc
    cls = ctx.eea().exc_class_of(x, _frame(ctx, f))
    return cls is not None and ctx.eea().issub(cls, TERR)


def _frame(ctx, f):
    from ..interp import Frame

    return Frame(ctx.I.make_callee(f, f.cls), None)


def frame1(ctx: Ctx, chk) -> None:
    rule = "FRAME-1"
    chk.rule(rule, "read is exactly one readuntil(b'\\n') whose bytes are returned through .decode() (utf-8) unmodified, no other code reads from the reader; write is exactly writer.write(line.encode()) followed by an awaited drain() inside the OSError mapping, no other code writes to the writer")
    prog = ctx.prog
    st = ctx.cls(ST)
    read = st.find_method("read")
    write = st.find_method("write")
    # all calls on StreamReader / StreamWriter in the package
    reader_calls, writer_calls = [], []
    for f in prog.all_functions():
        for n in ctx.own_nodes(f):
            if isinstance(n, ast.Call):
                fact = prog.call_fact(f.module, n)
                if fact and fact[0]:
                    if fact[0].startswith("asyncio.streams.StreamReader."):
                        reader_calls.append((f, n, fact[0]))
                    elif fact[0].startswith("asyncio.streams.StreamWriter."):
                        writer_calls.append((f, n, fact[0]))
    # --- resynchronisation after an over-long line: in the LimitOverrunError handler the scanned chunk may be dropped
    # with `await reader.readexactly(err.consumed)` (result unused) - judged by RESYNC-2 below, not a second consumer
    # private helpers of the transport that only read() (transitively) calls are part of read(): judged written out
    from ..prov import Canon

    read_i = ctx.inl(read)
    inl_names = set(getattr(read_i, "inlined", []))
    # the written-out copy of a helper may consist of fresh nodes (parameter renaming): match by origin and position
    own_pos = {(getattr(x, "_mod", None), x.lineno, x.col_offset, x.end_col_offset): x for x in ast.walk(read_i.node) if isinstance(x, ast.Call)}

    def _own(n_):
        return own_pos.get((getattr(n_, "_mod", None), n_.lineno, n_.col_offset, n_.end_col_offset))

    pmap: dict = {}
    for par_ in ast.walk(read_i.node):
        for ch_ in ast.iter_child_nodes(par_):
            pmap[ch_] = par_
    reader_calls = [((read, _own(n_), nm_) if (f_.qualname in inl_names and _own(n_) is not None) else (f_, n_, nm_)) for f_, n_, nm_ in reader_calls]
    # a private helper that reads from the stream for read() only, but whose body could not be written out into read()
    # (returns in the middle of it ...): the single-consumer / returned-bytes arguments below are about one function
    # body - no verdict
    for f_, n_, nm_ in reader_calls:
        if f_ is read or not (f_.name.startswith("_") and not f_.name.startswith("__")):
            continue
        callers = [g_ for g_ in prog.all_functions() if g_ is not f_ and any(isinstance(x, ast.Call) and isinstance(x.func, (ast.Name, ast.Attribute)) and (x.func.id if isinstance(x.func, ast.Name) else x.func.attr) == f_.name for x in ctx.own_nodes(g_))]
        if callers and all(g_ is read or (g_.name.startswith("_") and g_.cls is read.cls) for g_ in callers):
            raise AnalysisError(f"FRAME-1: {f_.qualname} reads from the stream on behalf of StreamTransport.read but its body could not be written out into read() ({ctx.loc(f_, n_)}): framing is not decided for this shape")
    cn_r = Canon(ctx.I, read_i, "")
    discards = []
    for f_, n_, nm_ in list(reader_calls):
        if f_ is not read or not nm_.endswith(".readexactly"):
            continue
        par = pmap.get(n_)
        stmt = pmap.get(par) if isinstance(par, ast.Await) else None
        cur = n_
        handler = None
        while cur in pmap and cur is not read_i.node:
            cur = pmap[cur]
            if isinstance(cur, ast.ExceptHandler):
                handler = cur
                break
        if isinstance(stmt, ast.Expr) and handler is not None and handler.type is not None and norm(handler.type).endswith("LimitOverrunError") and len(n_.args) == 1 and cn_r.canon(n_.args[0]) in (f"{handler.name}.consumed",):
            discards.append((n_, handler))
            reader_calls.remove((f_, n_, nm_))
        elif isinstance(stmt, ast.Expr) and handler is not None and handler.name and len(n_.args) == 1 and cn_r.canon(n_.args[0]) == f"{handler.name}.consumed":
            # the same resynchronisation step under a clause that is not spelled `except LimitOverrunError` (a table of
            # exception classes, an isinstance test inside a wider clause): which exceptions reach it is not modelled
            raise AnalysisError(f"FRAME-1: `{norm(n_)}` drops the scanned chunk inside `except {norm(handler.type) if handler.type is not None else ''}` ({ctx.loc(read_i, n_)}): this spelling of the over-long-line clause is not modelled")
    if discards:
        resync2(ctx, chk, read_i, discards)
    # --- single consumer, readuntil(TERMINATOR)
    chk.instance(rule)
    rc = [(f, n, nm) for f, n, nm in reader_calls]
    key = "StreamReader consumers"
    if len(rc) == 1 and rc[0][0] is read and rc[0][2].endswith(".readuntil"):
        f, n, nm = rc[0]
        try:
            term = ctx.folder.fold(f.module, n.args[0]) if n.args else None
        except Unfoldable:
            term = None
        if term == b"\n" and len(n.args) == 1 and not n.keywords:
            chk.ok(rule, fkey(f, n), "single consumer: readuntil(b'\\n')", ctx.loc(f, n))
        else:
            chk.refute(rule, fkey(f, n), f"lines are delimited by {term!r}, not by a single newline b'\\n'", ctx.loc(f, n))
        p = prog.parents.get(n) or pmap.get(n)
        if not isinstance(p, ast.Await):
            chk.refute(rule, fkey(f, n) + "::await", "readuntil(...) is not awaited", ctx.loc(f, n))
    else:
        what = ", ".join(f"{f.qualname}:{nm.rsplit('.', 1)[-1]}" for f, n, nm in rc) or "none"
        if not rc:
            raise AnalysisError("FRAME-1: no StreamReader call found in the package - anchor lost")
        bad = [x for x in rc if not (x[0] is read and x[2].endswith(".readuntil"))]
        f, n, nm = (bad or rc)[0]
        chk.refute(rule, fkey(f, n), f"the byte stream has other/additional consumers than one readuntil in StreamTransport.read ({what}): lines can be split, skipped or reordered", ctx.loc(f, n))
    # --- returned value is <bytes>.decode() of exactly that read
    chk.instance(rule)
    # the decode step may be extracted into a helper: analyse read with such helpers written out
    from ..prov import Canon

    read_i = ctx.inl(read, lambda h: h.name != "_open_connection")
    cn = Canon(ctx.I, read_i, "")
    rets = [n for n in ctx.own_nodes(read_i) if isinstance(n, ast.Return) and n.value is not None]
    good = True
    why = ""
    if not rets:
        good, why = False, "read returns nothing"
    la_r = ctx.I.local_assigns(read_i)
    for r in rets:
        v = r.value
        if isinstance(v, ast.Name) and len(la_r.get(v.id) or []) == 1 and isinstance(la_r[v.id][0], ast.expr):
            v = la_r[v.id][0]  # a local bound once to the decoded line
        if not (isinstance(v, ast.Call) and isinstance(v.func, ast.Attribute) and v.func.attr == "decode"):
            good, why = False, f"returns `{norm(v)}` instead of the decoded line"
            break
        args_ok = (not v.args and not v.keywords) or (len(v.args) == 1 and isinstance(v.args[0], ast.Constant) and str(v.args[0].value).lower().replace("-", "") == "utf8" and not v.keywords)
        if not args_ok:
            good, why = False, f"decodes with `{norm(v)}` (not strict UTF-8)"
            break
        src = v.func.value
        if not isinstance(src, ast.Name):
            good, why = False, f"decodes `{norm(src)}`, not the bytes read"
            break
        if not (rc and cn.canon(src) == cn.canon(rc[0][1])):
            good, why = False, f"`{src.id}` is not exactly the result of the single readuntil"
            break
    if good:
        chk.ok(rule, f"{read.fq}::return", "returns readuntil(...).decode() unmodified", ctx.loc(read, rets[0]))
    else:
        chk.refute(rule, f"{read.fq}::return", why, ctx.loc(read, rets[0] if rets else read.node))
    # --- write: single producer
    chk.instance(rule)
    wr = [(f, n, nm) for f, n, nm in writer_calls if nm.endswith((".write", ".writelines"))]
    if len(wr) == 1 and wr[0][0] is write and wr[0][2].endswith(".write"):
        f, n, nm = wr[0]
        a = n.args[0] if n.args else None
        param = write.positional_params[1]
        ok = isinstance(a, ast.Call) and isinstance(a.func, ast.Attribute) and a.func.attr == "encode" and isinstance(a.func.value, ast.Name) and a.func.value.id == param and ((not a.args and not a.keywords) or (len(a.args) == 1 and isinstance(a.args[0], ast.Constant) and str(a.args[0].value).lower().replace("-", "") == "utf8"))
        if ok and len(n.args) == 1:
            chk.ok(rule, fkey(f, n), "single producer: writer.write(<line>.encode())", ctx.loc(f, n))
        else:
            chk.refute(rule, fkey(f, n), f"`{norm(n)}` does not put exactly the UTF-8 bytes of the given line on the stream", ctx.loc(f, n))
    elif not wr:
        raise AnalysisError("FRAME-1: no StreamWriter.write call found - anchor lost")
    else:
        f, n, nm = [x for x in wr if x[0] is not write][0] if [x for x in wr if x[0] is not write] else wr[1]
        chk.refute(rule, fkey(f, n), "more than one site writes to the stream writer: bytes of different lines can interleave or be duplicated", ctx.loc(f, n))
    # --- drain awaited inside the same try as write, after it
    chk.instance(rule)
    drains = [(f, n) for f, n, nm in writer_calls if nm.endswith(".drain") and f is write]
    key = f"{write.fq}::drain"
    if not drains:
        chk.refute(rule, key, "write() never awaits drain(): I/O errors of the transport do not surface to the caller", ctx.loc(write, write.node))
    else:
        f, n = drains[0]
        awaited = isinstance(prog.parents.get(n), ast.Await)
        in_try = _enclosing_try_catching(ctx, write, n, OSERR)
        w_in_try = wr and wr[0][0] is write and _enclosing_try_catching(ctx, write, wr[0][1], OSERR)
        after = wr and wr[0][0] is write and n.lineno >= wr[0][1].lineno
        # ... and on every path: a drain that is skipped under some condition (buffer looks empty, small message) leaves
        # the write unobserved - a lost connection only ever shows up in drain()
        from ..cfg import CFG as _CFG

        gw_ = _CFG(write.node)
        dn_ = gw_.nodes_where(lambda x: x.contains(n))
        wn_ = gw_.nodes_where(lambda x: wr and x.contains(wr[0][1])) if wr and wr[0][0] is write else []
        skip = gw_.reach_avoiding(wn_, lambda x: x is gw_.exit, lambda x: x in dn_, from_succ=True) if wn_ and dn_ else None
        if awaited and in_try and w_in_try and after and skip is not None:
            chk.refute(rule, key, f"write() can return without awaiting drain() ({' -> '.join(gw_.path_text(skip)[:4])}): asyncio's transport.write() never raises - on a lost connection it discards the data - so the I/O error only ever surfaces in drain(); a write that skips it reports success for bytes that went nowhere", ctx.loc(f, n))
        elif awaited and in_try and w_in_try and after:
            chk.ok(rule, key, "await writer.drain() after write, both inside the OSError mapping", ctx.loc(f, n))
        else:
            chk.refute(rule, key, f"drain is {'not awaited' if not awaited else 'outside the OSError mapping' if not (in_try and w_in_try) else 'before the write'}", ctx.loc(f, n))


def resync2(ctx: Ctx, chk, read, discards) -> None:
    rule = "RESYNC-2"
    chk.rule(rule, "dropping the scanned chunk of an over-long line is only half a resynchronisation: the handler also sets a flag on the transport, and while that flag is set no path from a successful readuntil reaches the return without another readuntil (the rest of the over-long line, up to its terminator, is skipped instead of being delivered as a line)")
    from ..cfg import CFG
    from ..prov import Canon

    g = CFG(read.node)
    cn = Canon(ctx.I, read, "")
    for call, handler in discards:
        chk.instance(rule)
        key = f"{read.fq}::except LimitOverrunError::skips-rest-of-line"
        # locals written out: a helper that takes the transport as `transport` stores `transport._skip_line`
        flags = [cn.canon(t) for st_ in handler.body if isinstance(st_, ast.Assign) and isinstance(st_.value, ast.Constant) and st_.value.value is True for t in st_.targets if isinstance(t, ast.Attribute) and cn.canon(t.value) == "self"]
        if not flags:
            chk.refute(rule, key, f"`{norm(call)[:60]}` drops what readuntil scanned, but nothing remembers that the rest of that line is still to come: the tail of the over-long line (or an empty line) is delivered by the next read as if it were a line of the stream", ctx.loc(read, call))
            continue
        ru = [x for x in g.nodes if x.ast is not None and x.kind in ("stmt", "test", "with-enter") and any(isinstance(c, ast.Call) and isinstance(c.func, ast.Attribute) and c.func.attr == "readuntil" for p_ in x.parts() for c in ast.walk(p_))]
        rets = [x for x in g.nodes if isinstance(x.ast, ast.Return)]

        def truth(tn, flags=flags):
            te = tn.ast
            txt = cn.canon(te)
            for fl in flags:
                if txt == fl:
                    return True
                if txt == f"not {fl}":
                    return False
            return None

        starts = [s_ for r in ru for s_, lab in r.succ if lab != "exc"]
        p = g.reach_avoiding(starts, lambda x: x in rets, lambda x: x in ru, labels_skip=("exc",), from_succ=False, truth=truth)
        resets = [x for x in g.nodes if x.kind == "stmt" and isinstance(x.ast, ast.Assign) and isinstance(x.ast.value, ast.Constant) and x.ast.value.value is False and any(cn.canon(t) in flags for t in x.ast.targets)]
        p_loop = g.reach_avoiding(starts, lambda x: x in ru, lambda x: x in resets or x in rets, labels_skip=("exc",), from_succ=False, truth=truth)
        # ... and the flag is cleared before anything done with the skipped tail can fail: a read() that raises while the
        # flag is still set makes the *next* read discard a line that has nothing to do with the over-long one
        p_exc = g.reach_avoiding(starts, lambda x: x is g.raise_exit, lambda x: x in resets or x in ru, from_succ=False, truth=truth)
        if p is None and p_loop is None and p_exc is not None:
            chk.refute(rule, key, f"after the rest of the over-long line was read, read() can fail before {flags[0]} is cleared ({' -> '.join(g.path_text(p_exc)[:4])}): the error is reported, but the flag stays set and the next read() silently discards the well-formed line that follows", ctx.loc(read, p_exc[0].ast if p_exc and p_exc[0].ast is not None else handler))
            continue
        if p is None and p_loop is not None:
            chk.refute(rule, key, f"the skipped line loops back to readuntil without clearing {flags[0]} ({' -> '.join(g.path_text(p_loop)[:4])}): after one over-long line every following line is skipped and read() never returns again", ctx.loc(read, handler))
        elif p is None:
            chk.ok(rule, key, f"while {flags[0]} is set a successful readuntil is not returned but followed by another one", ctx.loc(read, handler))
        else:
            chk.refute(rule, key, f"although the handler sets {flags[0]}, a line read while it is set still reaches the return ({' -> '.join(g.path_text(p)[:4])})", ctx.loc(read, handler))


def _enclosing_try_catching(ctx: Ctx, f, node: ast.AST, exc: str) -> bool:
    prog = ctx.prog
    cur = node
    eea = ctx.eea()
    while cur in prog.parents:
        par = prog.parents[cur]
        if isinstance(par, ast.Try) and any(cur is b or _contains(b, cur) for b in par.body):
            for h in par.handlers:
                if h.type is None:
                    return True
                elts = h.type.elts if isinstance(h.type, ast.Tuple) else [h.type]
                for x in elts:
                    c = eea.exc_class_of(x, _frame(ctx, f))
                    if c and (eea.issub(exc, c)):
                        return True
        if par is f.node:
            break
        cur = par
    return False


def _contains(root: ast.AST, node: ast.AST) -> bool:
    return any(n is node for n in ast.walk(root))


def factory1(ctx: Ctx, chk) -> None:
    rule = "FACTORY-1"
    chk.rule(rule, "the connection factories hand the configured host/port (TCP) and port/baud rate (serial) to the stream opener, and the constructors store them")
    specs = [
        ("aiomysensors.transport.tcp.TCPTransport", "asyncio.streams.open_connection", {"host": "self.host", "port": "self.port"}, ("host", "port")),
        ("aiomysensors.transport.serial.SerialTransport", "serial_asyncio.open_serial_connection", {"url": "self.port", "baudrate": "self.baud"}, ("port", "baud")),
    ]
    for cfq, opener, want, params in specs:
        c = ctx.cls(cfq)
        f = c.find_method("_open_connection")
        if f is None or f.cls is not c:
            raise AnalysisError(f"anchor vanished: {cfq}._open_connection")
        from ..prov import Canon

        f = ctx.inl(f)  # the opener call may sit in a private module-level helper
        cnf = Canon(ctx.I, f, "")
        calls = [n for n in ctx.own_nodes(f) if isinstance(n, ast.Call) and opener in callee_names(ctx, f, n)]
        chk.instance(rule)
        if len(calls) != 1:
            raise AnalysisError(f"FACTORY-1: expected one call to {opener} in {f.fq}, found {len(calls)}")
        call = calls[0]
        got = {kw.arg: cnf.canon(kw.value) for kw in call.keywords if kw.arg}
        # `**self._settings()` / `**settings`: a parameter object built by a method of the transport that returns a
        # dict display (or a local bound once to one)
        for kw in [k_ for k_ in call.keywords if k_.arg is None]:
            src = kw.value
            if isinstance(src, ast.Name):
                la_ = ctx.I.local_assigns(f).get(src.id) or []
                src = la_[0] if len(la_) == 1 and isinstance(la_[0], ast.expr) else src
            disp = None
            if isinstance(src, ast.Dict):
                disp = (src, cnf)
            elif isinstance(src, ast.Call) and isinstance(src.func, ast.Attribute) and norm(src.func.value) == "self" and not src.args and not src.keywords:
                hm = c.find_method(src.func.attr)
                if hm is not None:
                    rs = [r_.value for r_ in ctx.own_nodes(hm) if isinstance(r_, ast.Return) and r_.value is not None]
                    if len(rs) == 1:
                        rv = rs[0]
                        if isinstance(rv, ast.Name):
                            lh = ctx.I.local_assigns(hm).get(rv.id) or []
                            rv = lh[0] if len(lh) == 1 and isinstance(lh[0], ast.expr) else rv
                        if isinstance(rv, ast.Dict):
                            disp = (rv, Canon(ctx.I, hm, ""))
            if disp is None or any(not (isinstance(k_, ast.Constant) and isinstance(k_.value, str)) for k_ in disp[0].keys):
                raise AnalysisError(f"FACTORY-1: cannot tell which keyword arguments `**{norm(kw.value)[:40]}` passes in {f.fq}")
            for k_, v_ in zip(disp[0].keys, disp[0].values):
                got.setdefault(k_.value, disp[1].canon(v_))
        pos = [cnf.canon(a) for a in call.args]
        names = list(want)
        for i, a in enumerate(pos):
            if i < len(names):
                got.setdefault(names[i], a)
        if all(got.get(k) == v for k, v in want.items()) and isinstance(ctx.prog.parents.get(call), ast.Await):
            chk.ok(rule, fkey(f, call), f"{opener.rsplit('.', 1)[-1]}({', '.join(f'{k}={v}' for k, v in want.items())})", ctx.loc(f, call))
        else:
            chk.refute(rule, fkey(f, call), f"`{norm(call)}` does not pass {want} to the opener", ctx.loc(f, call))
        init = c.find_method("__init__")
        stored = ctx.I.stored_params(c)
        for p in params:
            chk.instance(rule)
            if stored.get(p) == p:
                chk.ok(rule, f"{cfq}.__init__::self.{p}", f"self.{p} = {p}", ctx.loc(init, init.node), sample=False)
            else:
                chk.refute(rule, f"{cfq}.__init__::self.{p}", f"constructor parameter {p} is not stored in self.{p}", ctx.loc(init, init.node))
        # the return value is the opened pair
        chk.instance(rule)
        rets = [n for n in ctx.own_nodes(f) if isinstance(n, ast.Return) and n.value is not None]
        okr = False
        if len(rets) == 1:
            v = rets[0].value
            if isinstance(v, ast.Name):
                la = ctx.I.local_assigns(f).get(v.id) or []
                okr = len(la) == 1 and isinstance(la[0], ast.Await) and la[0].value is call
            elif isinstance(v, ast.Await):
                okr = v.value is call
        if okr:
            chk.ok(rule, f"{f.fq}::return", "returns the opened (reader, writer) pair", ctx.loc(f, rets[0]), sample=False)
        else:
            chk.refute(rule, f"{f.fq}::return", "_open_connection does not return the pair produced by the opener", ctx.loc(f, f.node))


def thorough(ctx: Ctx, chk) -> None:
    from .common import prune_diff

    entries = [(ctx.cls(ST).find_method(n), None) for n in ("connect", "read", "write", "disconnect")]
    prune_diff(ctx, chk, entries)


def absorb1(ctx: Ctx, chk) -> None:
    rule = "ABSORB-1"
    chk.rule(rule, "disconnecting absorbs OS-level errors: every operation disconnect() performs on the stream writer (close, wait_closed, ...) is enclosed by a handler that catches OSError")
    st = ctx.cls(ST)
    f = st.find_method("disconnect")
    if f is None:
        raise AnalysisError("anchor vanished: StreamTransport.disconnect")
    names = {"self.writer", "self.reader"}
    for a_ in ctx.own_nodes(f):
        if isinstance(a_, ast.Assign) and len(a_.targets) == 1:
            tg, vl = a_.targets[0], a_.value
            pairs = list(zip(tg.elts, vl.elts)) if isinstance(tg, ast.Tuple) and isinstance(vl, ast.Tuple) and len(tg.elts) == len(vl.elts) else [(tg, vl)]
            for x_, y_ in pairs:
                if isinstance(x_, ast.Name) and norm(y_) in ("self.writer", "self.reader"):
                    names.add(x_.id)
    n = 0
    for c in ctx.own_nodes(f):
        if isinstance(c, ast.Call) and isinstance(c.func, ast.Attribute) and norm(c.func.value) in names:
            n += 1
            chk.instance(rule)
            k = fkey(f, c) + "::absorbed"
            if _enclosing_try_catching(ctx, f, c, OSERR):
                chk.ok(rule, k, "inside try/except OSError", ctx.loc(f, c))
            else:
                chk.refute(rule, k, f"`{norm(c)}` in disconnect() is outside the OSError handler: an OS-level error while closing (a dead socket, an unplugged serial adapter) escapes from disconnect instead of being absorbed", ctx.loc(f, c))
    chk.floor(rule, "stream operations in disconnect", n, 1)


def override1(ctx: Ctx, chk) -> None:
    rule = "OVERRIDE-1"
    chk.rule(rule, "the concrete stream transports (TCP, serial) provide only the connection factory: read / write / connect / disconnect are those of StreamTransport (FRAME-1, CONN-GUARD, EEA-STREAM are decided on them); an override must not re-frame the byte stream")
    st = ctx.cls(ST)
    n = 0
    for c in ctx.prog.subclasses(st):
        for name in ("read", "write", "connect", "disconnect"):
            n += 1
            chk.instance(rule)
            k = f"{c.fq}.{name}::inherited"
            if name in c.methods and _thin_override(ctx, c.methods[name][-1], name):
                chk.ok(rule, k, f"overrides {name}() only to delegate once to StreamTransport.{name} with the same arguments", c.methods[name][-1].where)
            elif name in c.methods:
                f = c.methods[name][-1]
                chk.refute(rule, k, f"{c.name} overrides {name}(): the bytes on the stream are no longer decided by StreamTransport.{name} (one writer.write of the whole encoded line / one readuntil per read) - e.g. a line written in pieces with suspension points in between interleaves with other writers and a failure leaves a partial line on the wire", f.where)
            else:
                chk.ok(rule, k, f"inherits StreamTransport.{name}", f"{c.module.relpath}:{c.node.lineno}", sample=n <= 2)
    chk.floor(rule, "concrete stream transports x operations", n, 8)


def _thin_override(ctx: Ctx, f, name: str) -> bool:
    """The override awaits super().<name>(<its own parameters>) exactly once on every normal path, outside any loop,
    and (for read) returns exactly that result."""
    from ..cfg import CFG

    sup = [c for c in ctx.own_nodes(f) if isinstance(c, ast.Call) and isinstance(c.func, ast.Attribute) and c.func.attr == name and isinstance(c.func.value, ast.Call) and norm(c.func.value.func) == "super"]
    if len(sup) != 1:
        return False
    c = sup[0]
    params = f.positional_params[1:]
    if [norm(a) for a in c.args] != params or c.keywords or not isinstance(ctx.prog.parents.get(c), ast.Await):
        return False
    cur = c
    while cur in ctx.prog.parents and cur is not f.node:
        cur = ctx.prog.parents[cur]
        if isinstance(cur, (ast.For, ast.AsyncFor, ast.While)):
            return False
    # the parameters are not rebound before the call
    for n in ctx.own_nodes(f):
        if isinstance(n, ast.Name) and isinstance(n.ctx, ast.Store) and n.id in params:
            return False
    g = CFG(f.node)
    cn = g.nodes_where(lambda x: x.contains(c))
    if g.reach_avoiding([g.entry], lambda x: x is g.exit, lambda x: x in cn, labels_skip=("exc",), from_succ=False) is not None:
        return False
    if name == "read":
        rets = [r for r in ctx.own_nodes(f) if isinstance(r, ast.Return)]
        aw = ctx.prog.parents.get(c)
        for r in rets:
            if r.value is aw:
                continue
            if isinstance(r.value, ast.Name):
                la = ctx.I.local_assigns(f).get(r.value.id) or []
                if len(la) == 1 and la[0] is aw:
                    continue
            return False
    return True


def resync1(ctx: Ctx, chk, rule: str = "RESYNC-1") -> None:
    """asyncio contract (trusted, documented): StreamReader.readuntil raises LimitOverrunError WITHOUT consuming -
    "the data will be left in the internal buffer and can be read again"."""
    chk.rule(rule, "an over-long line does not wedge the stream: where read() handles asyncio.LimitOverrunError it consumes the offending data from the reader before raising (readuntil leaves it in the buffer - documented asyncio contract), so that the lines that follow are still delivered by later reads")
    st = ctx.cls(ST)
    read = st.find_method("read")
    if read is None:
        raise AnalysisError("anchor vanished: StreamTransport.read")
    fi = ctx.inl(read, lambda h: h.name != "_open_connection")
    eea = ctx.eea()
    fr = _frame(ctx, read)
    n = 0
    for h in [x for x in ctx.own_nodes(fi) if isinstance(x, ast.ExceptHandler)]:
        elts = h.type.elts if isinstance(h.type, ast.Tuple) else [h.type] if h.type is not None else []
        names = [eea.exc_class_of(x, fr) or norm(x) for x in elts]
        if not any(nm.endswith("LimitOverrunError") for nm in names):
            continue
        n += 1
        chk.instance(rule)
        key = f"{read.fq}::except LimitOverrunError::consumes"
        consuming = [c for b in h.body for c in ast.walk(b) if isinstance(c, ast.Call) and isinstance(c.func, ast.Attribute) and c.func.attr in ("read", "readexactly", "readline", "readuntil") and "reader" in norm(c.func.value)]
        if consuming:
            chk.ok(rule, key, f"`{norm(consuming[0])[:60]}` takes the over-long data out of the buffer", ctx.loc(read, h))
        else:
            chk.refute(rule, key, "the LimitOverrunError handler raises without consuming anything: readuntil left the over-long chunk in the reader's buffer, so every later read() fails on the same data again and the well-formed lines that follow are never delivered (demos/c17_overlong_line_sticks.py)", ctx.loc(read, h))
    chk.instance(rule)
    if n == 0:
        # no handler at all: the error escapes unmapped (EEA-STREAM's business); nothing to decide here
        chk.ok(rule, f"{read.fq}::no LimitOverrunError handler", "no handler for LimitOverrunError in read()", read.where, sample=False)
    else:
        chk.ok(rule, f"{read.fq}::handlers", f"{n} handler(s) examined", read.where, sample=False)


def guard_stable(ctx: Ctx, chk) -> None:
    rule = "GUARD-STABLE"
    chk.rule(rule, "a stream operation that tests `self.reader` / `self.writer` for None once and dereferences the attribute again after it was suspended at an await (the skip loop of read: the second `self.reader.readuntil`, the `readexactly` in the over-long handler) relies on the attribute not being reset while it is suspended: no method other than a constructor stores None into (or deletes) such an attribute - otherwise a read that races a disconnect fails with AttributeError on None instead of a transport error")
    st = ctx.cls(ST)
    classes = [st] + [c for c in ctx.prog.subclasses(st)]
    n_deref = 0
    for attr in ("reader", "writer"):
        # dereferences of self.<attr> that can run after an await of the same call
        late = []
        for name in ("read", "write", "disconnect"):
            f = st.find_method(name)
            if f is None:
                raise AnalysisError(f"anchor vanished: StreamTransport.{name}")
            nodes = list(ctx.own_nodes(f))
            awaits = [n for n in nodes if isinstance(n, ast.Await)]
            loops = [n for n in nodes if isinstance(n, (ast.While, ast.For, ast.AsyncFor))]
            derefs = [n for n in nodes if isinstance(n, ast.Attribute) and isinstance(n.ctx, ast.Load) and norm(n.value) == f"self.{attr}"]
            for d in derefs:
                dpos = (d.lineno, d.col_offset)
                after = any((w.end_lineno, w.end_col_offset) <= dpos for w in awaits)
                in_loop = any(any(x is d for x in ast.walk(lp)) and any(isinstance(x, ast.Await) for x in ast.walk(lp)) for lp in loops)
                if after or in_loop:
                    late.append((f, d))
        n_deref += len(late)
        if not late:
            # the operations work on a local bound before the first await (`reader = self.reader`): a reset of the
            # attribute cannot reach a suspended call; nothing to demand (read / write / disconnect were found above)
            chk.instance(rule)
            chk.ok(rule, f"{st.fq}::self.{attr}::stable-while-suspended", f"no dereference of self.{attr} follows an await of the same call", st.where if hasattr(st, "where") else "", sample=False)
            continue
        stores = []
        for c in classes:
            for mname, lst in c.methods.items():
                if mname in ("__init__", "__new__", "__post_init__"):
                    continue
                for f in lst:
                    for x in ctx.own_nodes(f):
                        if isinstance(x, ast.Delete):
                            stores += [(f, x) for t in x.targets if norm(t) == f"self.{attr}"]
                            continue
                        if isinstance(x, ast.Call) and isinstance(x.func, ast.Name) and x.func.id in ("setattr", "delattr") and len(x.args) >= 2 and norm(x.args[0]) == "self" and isinstance(x.args[1], ast.Constant) and x.args[1].value == attr and (x.func.id == "delattr" or (len(x.args) == 3 and isinstance(x.args[2], ast.Constant) and x.args[2].value is None)):
                            stores.append((f, x))
                            continue
                        if not isinstance(x, (ast.Assign, ast.AnnAssign)) or (isinstance(x, ast.AnnAssign) and x.value is None):
                            continue
                        for tg in x.targets if isinstance(x, ast.Assign) else [x.target]:
                            vl = x.value
                            pairs = list(zip(tg.elts, vl.elts)) if isinstance(tg, ast.Tuple) and isinstance(vl, ast.Tuple) and len(tg.elts) == len(vl.elts) else [(tg, vl)]
                            for a_, b_ in pairs:
                                for t_ in ast.walk(a_) if isinstance(a_, (ast.Tuple, ast.List)) else [a_]:
                                    if norm(t_) != f"self.{attr}":
                                        continue
                                    if isinstance(b_, ast.Constant) and b_.value is None:
                                        stores.append((f, x))
                                    elif isinstance(a_, (ast.Tuple, ast.List)):
                                        ty = str(ctx.prog.type_of(f.module, b_) or "")
                                        if ty and "None" not in ty and "Any" not in ty:
                                            continue  # unpacks a value whose static type has no None component
                                        raise AnalysisError(f"GUARD-STABLE: `{norm(x)[:80]}` stores into self.{attr} through an unpacking the rule does not resolve")
        f0, d0 = late[0]
        chk.instance(rule)
        key = f"{st.fq}::self.{attr}::stable-while-suspended"
        if stores:
            for f, x in stores:
                chk.refute(rule, f"{f.fq}::self.{attr} = None", f"`{norm(x)[:90]}` resets self.{attr} while {short(f0.fq)} may be suspended at an await and dereferences `{norm(d0)}` again when it resumes ({ctx.loc(f0, d0)}): AttributeError on None instead of a transport error", ctx.loc(f, x))
        else:
            chk.ok(rule, key, f"{len(late)} dereference(s) of self.{attr} can follow an await of the same call (first: {ctx.loc(f0, d0)}); no method outside the constructors stores None into self.{attr}", ctx.loc(f0, d0))
