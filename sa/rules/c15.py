"""C15 A crash during save never destroys the previously saved registry."""

from __future__ import annotations

import ast

from ..model import AnalysisError, Unfoldable, norm
from ..prov import Canon
from .common import Ctx, callee_names, fkey

PERS = "aiomysensors.persistence.Persistence"
OPENERS = ("aiofiles.threadpool.open", "builtins.open", "io.open")
REMOVERS = ("os.remove", "os.unlink", "aiofiles.os.remove", "aiofiles.os.unlink", "pathlib.Path.unlink", "os.truncate", "shutil.rmtree")
RESTATERS = ("os.chmod", "os.chown", "os.lchmod", "pathlib.Path.chmod", "shutil.chown")  # change who may write the live file
INDIRECT = ("run_in_executor", "to_thread", "partial", "wrap", "submit")  # callers that take a callable and its arguments
REPLACERS = ("os.replace", "os.rename", "aiofiles.os.replace", "aiofiles.os.rename", "shutil.move", "pathlib.Path.replace", "pathlib.Path.rename")


def run(ctx: Ctx, chk) -> None:
    chk.assume("A5")
    rule = "INPLACE-1"
    chk.rule(rule, "the live persistence path is never opened for writing (w/a/x/+: truncation or partial content becomes visible at once); it may only be the destination of an atomic replace/rename whose source was written and closed before")
    pers = ctx.cls(PERS)
    n = 0
    seen_open: set = set()
    for fl in pers.mro_methods().values():
        for f in fl:
            # file access extracted into a private helper (of the class or the module) is judged where it is called
            f = ctx.inl(f)
            cn = Canon(ctx.I, f)
            for node in ctx.own_nodes(f):
                if not isinstance(node, ast.Call):
                    continue
                names = callee_names(ctx, f, node)
                if not any(o in names for o in OPENERS):
                    continue
                mode = "r"
                if len(node.args) >= 2:
                    mode = _fold(ctx, f, node.args[1])
                for kw in node.keywords:
                    if kw.arg == "mode":
                        mode = _fold(ctx, f, kw.value)
                if mode is None:
                    raise AnalysisError(f"INPLACE-1: cannot fold the open mode at {ctx.loc(f, node)}")
                if id(node) not in seen_open:
                    seen_open.add(id(node))
                    n += 1
                elif f.name.startswith("_"):
                    continue  # the helper's own copy: already judged in its caller
                chk.instance(rule)
                key = fkey(f, node)
                writing = any(c in mode for c in "wax+")
                path = cn.canon(node.args[0]) if node.args else "?"
                live = path in ("self.path", "path or self.path") or (not node.args)
                if not writing:
                    chk.ok(rule, key, f"opened for reading (mode {mode!r})", ctx.loc(f, node))
                    continue
                if live:
                    # keyed by what is opened how (not by the call's full text: further keyword arguments do not make it another defect)
                    key = f"{f.fq}::open({path}, mode={mode!r})"
                    chk.refute(rule, key, f"`{norm(node)}` opens the live persistence file with mode {mode!r}: the file is truncated in place before the new content is written, so a crash at any point of the save leaves an empty or partial file (read error or empty registry at next start)", ctx.loc(f, node))
                    continue
                # written elsewhere: must be followed by an atomic replace onto self.path after the with block closed
                withs = [w for w in ctx.own_nodes(f) if isinstance(w, (ast.With, ast.AsyncWith)) and any(it.context_expr is node for it in w.items)]
                reps = [c for c in ctx.own_nodes(f) if isinstance(c, ast.Call) and any(r in callee_names(ctx, f, c) for r in REPLACERS)]
                ok = False
                for r in reps:
                    args = [cn.canon(a) for a in r.args]
                    if len(args) >= 2 and args[0] == path and args[1] == "self.path" and withs and r.lineno > (withs[0].end_lineno or 0):
                        ok = True
                if ok:
                    chk.ok(rule, key, f"written to {path}, closed, then atomically replaced onto self.path", ctx.loc(f, node))
                else:
                    chk.refute(rule, key, f"`{norm(node)}` writes {path} but it is not atomically moved onto the live path after being closed", ctx.loc(f, node))
    chk.floor(rule, "open() sites in Persistence", n, 2)
    inplace2(ctx, chk)
    chk.run_rule(load_guard, ctx)
    chk.run_rule(inplace3, ctx)
    chk.run_rule(save_serial, ctx)
    chk.run_rule(open_flags, ctx)
    chk.run_rule(live_moved, ctx)
    chk.run_rule(dump_total, ctx)
    # replace targets
    for fl in pers.mro_methods().values():
        for f in fl:
            cn = Canon(ctx.I, f)
            for node in ctx.own_nodes(f):
                if isinstance(node, ast.Call) and any(r in callee_names(ctx, f, node) for r in REPLACERS):
                    chk.instance(rule)
                    args = [cn.canon(a) for a in node.args]
                    if len(args) >= 2 and args[1] == "self.path":
                        chk.ok(rule, fkey(f, node), "replace onto the live path", ctx.loc(f, node))
                    else:
                        chk.refute(rule, fkey(f, node), f"`{norm(node)}` does not move the new file onto the live path", ctx.loc(f, node))


def _callable_and_args(ctx: Ctx, f, node: ast.Call, wanted: tuple):
    """(full name, argument list) when the call runs one of the wanted file-system functions: directly, or by handing
    it with its arguments to run_in_executor / to_thread / partial."""
    names = callee_names(ctx, f, node)
    hit = next((x for x in names if x in wanted), None)
    if hit is not None:
        args = list(node.args)
        if hit.startswith("pathlib.") and isinstance(node.func, ast.Attribute):
            args = [node.func.value] + args  # the path object is the victim / source
        return hit, args
    if isinstance(node.func, (ast.Attribute, ast.Name)) and norm(node.func).rsplit(".", 1)[-1] in INDIRECT:
        for i, a in enumerate(node.args):
            if not isinstance(a, (ast.Name, ast.Attribute)):
                continue
            d = ctx.prog.resolve_expr(f.module, a)
            full = d.obj if d is not None and d.kind == "external" and isinstance(d.obj, str) else None
            if full is None:
                continue
            # resolve_expr reports e.g. os.replace as posix.replace on some builds: compare by the last two parts too
            cand = next((w for w in wanted if w == full or w.rsplit(".", 1)[-1] == full.rsplit(".", 1)[-1] and full.split(".")[0] in ("os", "posix", "nt", "shutil", "aiofiles")), None)
            if cand is not None:
                return cand, list(node.args[i + 1 :])
        # ... or a repository function that does it to the path it is handed (`run_in_executor(ex, _make_writable, self.path)`)
        for i, a in enumerate(node.args):
            if not isinstance(a, (ast.Name, ast.Attribute)):
                continue
            d = ctx.prog.resolve_expr(f.module, a)
            if d is None or d.kind != "func":
                continue
            h = d.obj
            hparams = [p_ for p_ in h.positional_params if p_ not in ("self", "cls")]
            for c in ctx.own_nodes(h):
                if not isinstance(c, ast.Call):
                    continue
                hit2 = next((x for x in callee_names(ctx, h, c) if x in wanted), None)
                if hit2 is None or not c.args or not isinstance(c.args[0], ast.Name) or c.args[0].id not in hparams:
                    continue
                j = hparams.index(c.args[0].id)
                rest = list(node.args[i + 1 :])
                if j < len(rest):
                    return hit2, [rest[j]]
    return None


def live_moved(ctx: Ctx, chk) -> None:
    rule = "LIVE-MOVED"
    chk.rule(rule, "no file-system operation of the persistence moves, removes or truncates the live file itself (os.replace / rename with the live path as *source*, remove / unlink / truncate of it, chmod / chown of it - called directly, handed to an executor, or done by a helper that is handed the path): between that operation and the completion of the new file the registry exists under no name that load() reads, so a crash (or a failing open) there loses it")
    pers = ctx.cls(PERS)
    n = 0
    seen: set = set()
    for fl in pers.mro_methods().values():
        for f0 in fl:
            f = ctx.inl(f0)
            cn = Canon(ctx.I, f)
            for node in ctx.own_nodes(f):
                if not isinstance(node, ast.Call) or id(node) in seen:
                    continue
                got = _callable_and_args(ctx, f, node, REPLACERS + REMOVERS + RESTATERS)
                if got is None:
                    continue
                seen.add(id(node))
                n += 1
                chk.instance(rule)
                full, args = got
                victim = cn.canon(args[0]) if args else "?"
                key = f"{f0.fq}::{full}({victim})"
                if victim in ("self.path", "path or self.path") and full in RESTATERS:
                    chk.refute(rule, key, f"`{norm(node)[:90]}` changes the permissions / owner of the live file so that a save can go on: a file the save could not touch (read-only: every crash point left it intact) is now opened with truncation after all - a crash in that retried save destroys a registry that was safe before", ctx.loc(f, node))
                elif victim in ("self.path", "path or self.path"):
                    what = "moves the live file away" if full in REPLACERS else "removes / truncates the live file"
                    chk.refute(rule, key, f"`{norm(node)[:90]}` {what}: from here until the new file is completely written the registry is not under the path load() reads - a crash or a failing open in between leaves no file (load() then starts with an empty registry and the next save overwrites the copy)", ctx.loc(f, node))
                else:
                    chk.ok(rule, key, f"operates on {victim}, not on the live path", ctx.loc(f, node))
    chk.notes[f"{rule}:operations"] = n


def open_flags(ctx: Ctx, chk) -> None:
    rule = "OPEN-FLAGS"
    chk.rule(rule, "an open() of the persistence file for writing keeps the flags its mode stands for: no `opener=` that builds its own flag word (mode 'w' is O_WRONLY|O_CREAT|O_TRUNC only through the flags handed to the opener - an opener that ignores them does not truncate, so a shorter new document leaves the tail of the old one behind and the file no longer parses)")
    pers = ctx.cls(PERS)
    n = 0
    for fl in pers.mro_methods().values():
        for f0 in fl:
            f = ctx.inl(f0)
            for node in ctx.own_nodes(f):
                if not (isinstance(node, ast.Call) and any(o in callee_names(ctx, f, node) for o in OPENERS)):
                    continue
                n += 1
                op = next((kw.value for kw in node.keywords if kw.arg == "opener"), None)
                chk.instance(rule)
                key = fkey(f0, node) + "::opener"
                if op is None or (isinstance(op, ast.Constant) and op.value is None):
                    chk.ok(rule, key, "no custom opener: the mode's own flags are used", ctx.loc(f, node), sample=False)
                    continue
                d = ctx.prog.resolve_expr(f.module, op) if isinstance(op, (ast.Name, ast.Attribute)) else None
                h = d.obj if d is not None and d.kind == "func" else None
                if h is None and isinstance(op, ast.Lambda):
                    params = [a.arg for a in op.args.args]
                    body_nodes = list(ast.walk(op.body))
                elif h is not None:
                    params = [p for p in h.positional_params if p not in ("self", "cls")]
                    body_nodes = list(ctx.own_nodes(h))
                else:
                    raise AnalysisError(f"OPEN-FLAGS: opener `{norm(op)[:40]}` is not a repository function or lambda")
                flags_param = params[1] if len(params) > 1 else None
                opens = [c for c in body_nodes if isinstance(c, ast.Call) and norm(c.func).rsplit(".", 1)[-1] == "open"]
                passes = bool(opens) and all(flags_param is not None and len(c.args) > 1 and any(isinstance(x, ast.Name) and x.id == flags_param for x in ast.walk(c.args[1])) for c in opens)
                if passes:
                    chk.ok(rule, key, "the opener hands the flags of the mode on to os.open", ctx.loc(f, node))
                else:
                    chk.refute(rule, key, f"`{norm(node)[:70]}`: the opener `{norm(op)[:30]}` does not pass the flags it is given to os.open - the O_TRUNC (and O_CREAT / O_APPEND) of the mode are lost: the new document is written over the old one and whatever is longer in the old one stays behind", ctx.loc(f, node))
    chk.floor(rule, "open() sites of Persistence", n, 2)


def save_serial(ctx: Ctx, chk) -> None:
    rule = "SAVE-SERIAL"
    chk.rule(rule, "two saves never write the file at the same time: a save only ever runs inside the task that awaits it (the saver task, load, stop or the caller) - nothing in the persistence / gateway code runs save() as an independent or shielded task, whose open/write/close would interleave with the final save of stop() on the same file and leave the concatenation of two documents")
    from .c16 import TASK_MAKERS

    mods = ("aiomysensors.persistence", "aiomysensors.gateway")
    n = 0
    for f in ctx.prog.all_functions():
        if f.module.name not in mods:
            continue
        for node in ctx.own_nodes(f):
            if not isinstance(node, ast.Call):
                continue
            names = callee_names(ctx, f, node)
            kind = next((TASK_MAKERS[x] for x in names if x in TASK_MAKERS), None)
            if kind is None:
                continue
            n += 1
            chk.instance(rule)
            key = fkey(f, node) + "::detached-save"
            saves = [x for a in list(node.args) + [k.value for k in node.keywords] for x in ast.walk(a) if isinstance(x, ast.Call) and isinstance(x.func, ast.Attribute) and x.func.attr in ("save", "_save")]
            if saves:
                chk.refute(rule, key, f"`{norm(node)[:70]}` runs a save as its own task ({kind}): cancelling the saver no longer waits for that save, so stop() starts the final save while the detached one is still between open and close - the two writers interleave on one file", ctx.loc(f, node))
            else:
                chk.ok(rule, key, f"{kind}: the task argument is not a save", ctx.loc(f, node), sample=False)
    chk.floor(rule, "task-starting sites in gateway/persistence", n, 1)


def inplace3(ctx: Ctx, chk) -> None:
    rule = "INPLACE-3"
    chk.rule(rule, "the text written into the (already truncated) persistence file can always be encoded: either json.dumps escapes everything outside ASCII (ensure_ascii left at its default), or the file is opened with an explicit Unicode encoding - otherwise one non-ASCII sketch name or value raises UnicodeEncodeError after the truncation and the saved registry is gone")
    pers = ctx.cls(PERS)
    save = pers.find_method("save")
    if save is None:
        raise AnalysisError("anchor vanished: Persistence.save")
    fi = ctx.inl(save)
    dumps = [n for n in ctx.own_nodes(fi) if isinstance(n, ast.Call) and norm(n.func).endswith("dumps")]
    opens = [n for n in ctx.own_nodes(fi) if isinstance(n, ast.Call) and any(o in callee_names(ctx, save, n) for o in OPENERS)]
    if len(dumps) != 1 or len(opens) != 1:
        raise AnalysisError(f"INPLACE-3: expected one json.dumps and one open() in Persistence.save, found {len(dumps)} / {len(opens)}")
    d, o = dumps[0], opens[0]
    opts = {}
    for kw in d.keywords:
        if kw.arg is not None:
            opts[kw.arg] = kw.value
        else:
            # **OPTIONS: a constant dict
            try:
                v = ctx.folder.fold(save.module, kw.value)
            except Unfoldable:
                raise AnalysisError(f"INPLACE-3: cannot fold `**{norm(kw.value)}` of json.dumps") from None
            if not isinstance(v, dict):
                raise AnalysisError(f"INPLACE-3: `**{norm(kw.value)}` is not a constant mapping")
            for k_, v_ in v.items():
                opts[k_] = ast.Constant(value=ctx.folder.plain(v_))
    ascii_only = True
    if "ensure_ascii" in opts:
        ea = opts["ensure_ascii"]
        try:
            ascii_only = bool(ctx.folder.plain(ctx.folder.fold(save.module, ea))) if not isinstance(ea, ast.Constant) else bool(ea.value)
        except Unfoldable:
            ascii_only = False
    enc = None
    pos = ("file", "mode", "buffering", "encoding")
    for i, a in enumerate(o.args):
        if i < len(pos) and pos[i] == "encoding":
            enc = a
    for kw in o.keywords:
        if kw.arg == "encoding":
            enc = kw.value
    enc_v = None
    if enc is not None:
        try:
            enc_v = ctx.folder.plain(ctx.folder.fold(save.module, enc))
        except Unfoldable:
            enc_v = "?"
    chk.instance(rule)
    key = f"{save.fq}::encodable"
    unicode_enc = isinstance(enc_v, str) and enc_v.lower().replace("-", "").replace("_", "") in ("utf8", "utf8sig", "utf16", "utf32", "utf16le", "utf16be")
    errs = next((kw.value for kw in o.keywords if kw.arg == "errors"), None)
    errs_v = None
    if errs is not None:
        try:
            errs_v = ctx.folder.plain(ctx.folder.fold(save.module, errs))
        except Unfoldable:
            errs_v = "?"
    total_handler = errs_v in ("surrogatepass", "backslashreplace", "replace", "ignore", "xmlcharrefreplace", "namereplace")
    if ascii_only:
        chk.ok(rule, key, "json.dumps writes pure ASCII: encodable under every text encoding", ctx.loc(save, d))
    elif unicode_enc and total_handler:
        chk.ok(rule, key, f"non-ASCII text is written, the file is opened with encoding={enc_v!r}, errors={errs_v!r} (unpaired surrogates included)", ctx.loc(save, o))
    elif unicode_enc:
        chk.refute(rule, key, f"json.dumps no longer escapes non-ASCII text (ensure_ascii false) and `{norm(o)[:60]}` encodes strictly as {enc_v!r}: a registry string holding an unpaired surrogate (the JSON escape \\udce9 of an existing file loads to one; with ensure_ascii it was written back as that escape) raises UnicodeEncodeError inside the write - after the file was truncated, so the previously saved registry is destroyed without any crash", ctx.loc(save, d))
    else:
        chk.refute(rule, key, f"json.dumps is told not to escape non-ASCII text (ensure_ascii false) but `{norm(o)[:60]}` opens the file with {'the locale default encoding' if enc_v is None else repr(enc_v)}: under a non-Unicode locale a single non-ASCII character makes the write fail after the file was truncated - the previously saved registry is destroyed without any crash", ctx.loc(save, d))


def load_guard(ctx: Ctx, chk) -> None:
    rule = "LOAD-GUARD"
    chk.rule(rule, "a load that failed is never followed by a save: in Gateway.__aenter__ no path from the exceptional exit of persistence.load() reaches persistence.stop() / save() (the final save would overwrite the unreadable - but possibly recoverable - file with the empty or partially loaded registry)")
    from ..cfg import CFG

    gw = ctx.cls("aiomysensors.gateway.Gateway")
    f = gw.find_method("__aenter__")
    if f is None:
        raise AnalysisError("anchor vanished: Gateway.__aenter__")
    fi = ctx.inl(f)
    g = CFG(fi.node)

    def has_call(n, names):
        return n.ast is not None and n.kind in ("stmt", "test", "with-enter") and any(isinstance(x, ast.Call) and norm(x.func) in names for p_ in n.parts() for x in ast.walk(p_))

    loads = [n for n in g.nodes if has_call(n, ("self.persistence.load",))]
    savers = [n for n in g.nodes if has_call(n, ("self.persistence.stop", "self.persistence.save"))]
    if not loads:
        raise AnalysisError("LOAD-GUARD: persistence.load() not found in Gateway.__aenter__")
    # stop / save handed to something as a callback (exit stack, add_done_callback, finalizer ...) before the load:
    # whoever holds the callback runs it when the load fails
    def registers(n) -> bool:
        if n.ast is None or n.kind not in ("stmt", "test", "with-enter"):
            return False
        for p_ in n.parts():
            for x in ast.walk(p_):
                if isinstance(x, ast.Attribute) and norm(x) in ("self.persistence.stop", "self.persistence.save"):
                    par = ctx.prog.parents.get(x)
                    if not (isinstance(par, ast.Call) and par.func is x):
                        return True
        return False

    regs = [n for n in g.nodes if registers(n)]
    for rg in regs:
        chk.instance(rule)
        key = fkey(f, rg.ast) + "::callback-before-load"
        p = g.reach_avoiding([rg], lambda x: x in loads, lambda x: False)
        if p is None:
            chk.ok(rule, key, "registered only after the load completed", ctx.loc(f, rg.ast))
        else:
            chk.refute(rule, key, f"`{rg.text()[:70]}` hands persistence.stop/save to a callback holder before persistence.load() has succeeded: when the load fails the callback runs and saves the registry as loaded so far over the file that could not be read", ctx.loc(f, rg.ast))
    for ld in loads:
        chk.instance(rule)
        key = f"{f.fq}::load-failure"
        starts = [s_ for s_, lab in ld.succ if lab == "exc"]
        p = g.reach_avoiding(starts, lambda x: x in savers, lambda x: False, from_succ=False) if starts else None
        if p is None:
            chk.ok(rule, key, "a failing load leaves __aenter__ without any save", ctx.loc(f, ld.ast))
        else:
            chk.refute(rule, key, f"when persistence.load() raises, the error path runs `{p[-1].text()[:60]}` ({' -> '.join(g.path_text(p)[:4])}): stop() saves the registry as loaded so far over the file that could not be read - the saved data is destroyed by a failed start-up", ctx.loc(f, p[-1].ast))


def _fold(ctx: Ctx, f, e: ast.expr):
    try:
        v = ctx.folder.fold(f.module, e)
        return v if isinstance(v, str) else None
    except Unfoldable:
        return None


def inplace2(ctx: Ctx, chk) -> None:
    """The window in which the live file is truncated must contain nothing but the write of a precomputed text."""
    rule = "INPLACE-2"
    chk.rule(rule, "while the persistence file is open for writing nothing is computed that can fail or suspend except the write itself: the registry is serialised completely before the file is opened (an exception while dumping must not leave a truncated file)")
    pers = ctx.cls(PERS)
    for fl in pers.mro_methods().values():
        for f in fl:
            for w in ctx.own_nodes(f):
                if not isinstance(w, (ast.With, ast.AsyncWith)):
                    continue
                opens = [it.context_expr for it in w.items if isinstance(it.context_expr, ast.Call) and any(o in callee_names(ctx, f, it.context_expr) for o in OPENERS)]
                writing = False
                for o in opens:
                    mode = "r"
                    if len(o.args) >= 2:
                        mode = _fold(ctx, f, o.args[1]) or "?"
                    for kw in o.keywords:
                        if kw.arg == "mode":
                            mode = _fold(ctx, f, kw.value) or "?"
                    if any(c in mode for c in "wax+?"):
                        writing = True
                if not writing:
                    continue
                chk.instance(rule)
                key = f"{f.fq}::with-body::{norm(opens[0])[:60]}"
                allowed_calls = ("json.dumps",)
                bad = None
                for st in w.body:
                    for c in [x for x in ast.walk(st) if isinstance(x, ast.Call)]:
                        names = callee_names(ctx, f, c)
                        is_write = isinstance(c.func, ast.Attribute) and c.func.attr in ("write", "flush", "close", "fsync")
                        if is_write or any(a in names for a in allowed_calls) or any(n_.startswith("os.fsync") for n_ in names):
                            continue
                        bad = c
                        break
                    if bad is None and not isinstance(st, (ast.Expr, ast.Assign)):
                        bad = st
                    if bad is not None:
                        break
                if bad is None:
                    chk.ok(rule, key, "the block only writes text that was serialised before the file was opened", ctx.loc(f, w))
                else:
                    chk.refute(rule, key, f"`{norm(bad)[:70]}` runs after the persistence file was opened for writing (already truncated): if it raises, the save dies leaving an empty or partial file although no file operation failed", ctx.loc(f, bad))


JSON_SCALAR_FIELDS = ("Int", "Integer", "Str", "String", "Bool", "Boolean", "Float", "Email", "Url", "URL", "UUID", "DateTime", "Date", "Time", "TimeDelta", "IP", "IPv4", "IPv6", "Enum")
UNBOUNDED_NUMBERS = ("decimal.Decimal", "fractions.Fraction")


def _json_able(ctx: Ctx, m, e: ast.expr, depth: int = 0) -> str | None:
    """None when the marshmallow field expression always serialises to a JSON type, else the reason."""
    eea = ctx.eea()
    fe = eea.field_expr(m, e)
    if fe is None:
        if isinstance(e, (ast.Name, ast.Attribute)):
            d = ctx.prog.resolve_expr(m, e)
            if d is not None and d.kind == "class":
                return None  # a schema class (Nested argument)
        return f"`{norm(e)[:40]}` is not a recognised field declaration"
    fm, call = fe
    d = ctx.prog.resolve_expr(fm, call.func)
    kind = (d.obj if d is not None and d.kind == "external" else d.obj.fq if d is not None and d.kind == "class" else norm(call.func)).rsplit(".", 1)[-1]
    kws = {kw.arg: kw.value for kw in call.keywords}
    if d is not None and d.kind == "class":
        ser = d.obj.find_method("_serialize")
        if ser is not None:
            ann = norm(ser.node.returns) if ser.node.returns is not None else None
            return None if ann in ("int", "str", "bool", "float", "int | None", "str | None") else f"{d.obj.name}._serialize is not annotated to return a JSON scalar"
        exts = [b.rsplit(".", 1)[-1] for b in d.obj.external_bases() if b.startswith("marshmallow.fields")]
        kind = exts[0] if exts else kind
    if kind in JSON_SCALAR_FIELDS:
        return None
    if kind == "Decimal":
        return None if "as_string" in kws and isinstance(kws["as_string"], ast.Constant) and kws["as_string"].value is True else "fields.Decimal without as_string=True serialises to a decimal.Decimal object"
    if kind == "Nested":
        return None  # the nested schema's own fields are judged separately
    if kind in ("Dict", "Mapping"):
        for part in ("keys", "values"):
            if part not in kws:
                return f"fields.{kind} without `{part}=`: the {part} are passed through as they are"
            why = _json_able(ctx, fm, kws[part], depth + 1)
            if why:
                return why
        return None
    if kind in ("List", "Tuple"):
        if not call.args and "cls_or_instance" not in kws and "tuple_fields" not in kws:
            return f"fields.{kind} without an inner field"
        inner = call.args[0] if call.args else kws.get("cls_or_instance") or kws.get("tuple_fields")
        if isinstance(inner, (ast.Tuple, ast.List)):
            for x in inner.elts:
                why = _json_able(ctx, fm, x, depth + 1)
                if why:
                    return why
            return None
        return _json_able(ctx, fm, inner, depth + 1)
    return f"fields.{kind} passes the attribute value through as it is"


def dump_total(ctx: Ctx, chk) -> None:
    """Decides the structural part only: *which* operations run between the truncation and the completed write, and
    whether they can fail because of what the registry holds - not the crash behaviour itself."""
    rule = "INPLACE-4"
    chk.rule(rule, "while the persistence file is open for writing (already truncated) nothing but the write itself can fail: when json.dumps runs inside that block, the dumped data is JSON-able by construction - every field of NodeSchema / ChildSchema coerces its attribute to a JSON type (Int / Str / Bool / Nested / Dict with both `keys=` and `values=` fields; no Raw / pass-through field), and no integer of the registry comes from an unbounded number (int(Decimal(..)) / int(Fraction(..)): an integer of more than 4300 digits cannot be printed by json.dumps, while int(<text>) refuses such text already) - otherwise one unusual value raises TypeError / ValueError after the truncation and the saved registry is gone")
    pers = ctx.cls(PERS)
    save = pers.find_method("save")
    if save is None:
        raise AnalysisError("anchor vanished: Persistence.save")
    fi = ctx.inl(save)
    dumps = [n for n in ctx.own_nodes(fi) if isinstance(n, ast.Call) and norm(n.func).endswith("dumps")]
    if len(dumps) != 1:
        raise AnalysisError(f"INPLACE-4: expected one json.dumps in Persistence.save, found {len(dumps)}")
    d = dumps[0]
    # is the dumps evaluated inside a `with <writing open>` block?
    inside = None
    cur: ast.AST = d
    parents = {c: p for p in ast.walk(fi.node) for c in ast.iter_child_nodes(p)}
    while cur in parents:
        prev, cur = cur, parents[cur]
        if isinstance(cur, (ast.With, ast.AsyncWith)) and any(prev is s or prev in ast.walk(s) for s in cur.body):
            for it in cur.items:
                for c in ast.walk(it.context_expr):
                    if isinstance(c, ast.Call) and any(o in callee_names(ctx, fi, c) for o in OPENERS):
                        mode = "r"
                        if len(c.args) >= 2:
                            mode = _fold(ctx, fi, c.args[1]) or "?"
                        for kw in c.keywords:
                            if kw.arg == "mode":
                                mode = _fold(ctx, fi, kw.value) or "?"
                        if any(ch in mode for ch in "wax+?"):
                            inside = c
    chk.instance(rule)
    key = f"{save.fq}::dumps-inside-open"
    if inside is None:
        chk.ok(rule, key, "the text is built before any file is opened for writing: a value json.dumps refuses fails the save, not the file", ctx.loc(fi, d))
        return
    chk.ok(rule, key, f"`{norm(d)[:50]}` runs while `{norm(inside)[:50]}` holds the truncated file: the data must be JSON-able by construction (checked below)", ctx.loc(fi, d))
    # (a) every schema field on the dump path coerces
    n = 0
    for sfq in ("aiomysensors.model.node.NodeSchema", "aiomysensors.model.node.ChildSchema"):
        s = ctx.cls(sfq)
        for name in ctx.eea().schema_field_names(s) or []:
            val = next((c.attrs[name] for c in s.repo_mro() if name in c.attrs), None)
            if val is None:
                continue
            n += 1
            chk.instance(rule)
            owner = next(c for c in s.repo_mro() if name in c.attrs)
            why = _json_able(ctx, owner.module, val)
            k2 = f"{sfq}.{name}::json-able"
            if why is None:
                chk.ok(rule, k2, "serialises to a JSON type whatever the attribute holds (or fails before the file is opened)", f"{owner.module.relpath}:{val.lineno}", sample=name in ("values", "node_id"))
            else:
                chk.refute(rule, k2, f"{s.name}.{name}: {why} - an attribute value that json.dumps cannot print (bytes, Decimal, an object set through the node API) raises TypeError inside the open block of save, after the file was truncated: the previously saved registry is lost", f"{owner.module.relpath}:{val.lineno}")
    chk.floor(rule, "schema fields on the dump path", n, 12)
    # (b) integers of the registry are bounded by the text -> int conversion limit
    m_ = 0
    for f in ctx.prog.all_functions():
        if not f.module.name.startswith(("aiomysensors.model", "aiomysensors.gateway")):
            continue
        for node in ctx.own_nodes(f):
            if isinstance(node, ast.Call) and isinstance(node.func, ast.Name) and node.func.id in ("int", "round") and node.args:
                m_ += 1
                t = ctx.prog.type_of(f.module, node.args[0]) or ""
                if any(u in t for u in UNBOUNDED_NUMBERS):
                    chk.instance(rule)
                    chk.refute(rule, fkey(f, node) + "::unbounded-int", f"`{norm(node)[:60]}` turns a {t.rsplit('.', 1)[-1]} into an integer of any size ('1e5000' is a 5001-digit integer): stored in the registry it makes json.dumps raise ValueError (more than 4300 digits) inside the open block of save, after the file was truncated", ctx.loc(f, node))
    chk.instance(rule)
    chk.ok(rule, "aiomysensors.model::int-conversions", f"{m_} int()/round() conversions in the model / gateway modules looked at: arguments typed {', '.join(UNBOUNDED_NUMBERS)} are refuted", "src/aiomysensors/model", sample=False)
    chk.floor(rule, "int conversions in the model", m_, 8)
