"""C10 Unknown node or child triggers one presentation request per episode (2.x)."""

from __future__ import annotations

import ast

from ..cfg import CFG
from ..interp import Frame
from ..model import AnalysisError, FuncInfo, norm
from ..prov import Canon, message_param
from . import sleepbuf as sb, tables
from .common import Ctx, fkey

MISSING = ("aiomysensors.exceptions.MissingNodeError", "aiomysensors.exceptions.MissingChildError")
WRAPPER = "aiomysensors.model.protocol.protocol_20.handle_missing_node_child"


def run(ctx: Ctx, chk) -> None:
    chk.assume("A1", "A3")
    chk.run_rule(episode1, ctx)
    chk.run_rule(rearm1, ctx)
    chk.run_rule(cover1, ctx)
    chk.run_rule(who_marker, ctx)
    chk.run_rule(sb.buffer_once, ctx)
    chk.run_rule(sb.buffer_plain, ctx)


def _NOT_HANDLER(h: FuncInfo) -> bool:
    return not h.name.startswith("handle_")


def _wrapper(ctx: Ctx) -> FuncInfo:
    deco = ctx.func(WRAPPER)
    return ctx.I.wrapper_of(deco)


def _presentation_value(ctx: Ctx, V: str) -> int:
    for v, n in ctx.folder.enum_canonical(ctx.I.vclass(V, "Internal")).items():
        if n == "I_PRESENTATION":
            return v
    raise AnalysisError(f"I_PRESENTATION not in protocol {V}")


def episode1(ctx: Ctx, chk) -> None:
    rule = "EPISODE-1"
    chk.rule(rule, "in the missing-node/child wrapper: the request is Message(In.node_id, 255, internal, I_PRESENTATION, ''); it is sent unbuffered only if its (node, child, type) key is not in internal_messages; the marker is recorded (buffered send of the same message) only after that send completed normally; the original error is re-raised")
    I = ctx.I
    # the request logic may be extracted into a helper: analyse the wrapper with such helpers written out
    w = ctx.inl(_wrapper(ctx), _NOT_HANDLER)
    g = CFG(w.node)
    cn = Canon(I, w)
    handlers = [n for n in ctx.own_nodes(w) if isinstance(n, ast.ExceptHandler)]
    hs = []
    for h in handlers:
        elts = h.type.elts if isinstance(h.type, ast.Tuple) else [h.type] if h.type is not None else []
        names = {norm(x) for x in elts}
        if {"MissingNodeError", "MissingChildError"} <= names:
            hs.append(h)
    chk.instance(rule)
    if len(hs) != 1:
        chk.refute(rule, f"{w.fq}::handler", "the wrapper has no handler for both MissingNodeError and MissingChildError: a missing node or child does not trigger a presentation request", w.where)
        return
    h = hs[0]
    chk.ok(rule, f"{w.fq}::handler", "except (MissingNodeError, MissingChildError)", ctx.loc(w, h), sample=False)
    body_nodes = [x for b in h.body for x in ast.walk(b)]
    sends = [x for x in body_nodes if isinstance(x, ast.Call) and sb.is_send(ast.Expr(value=x)) is x]
    unbuf = [s for s in sends if sb.send_buffered_flag(s) is False]
    buf = [s for s in sends if sb.send_buffered_flag(s) in (True, "default")]
    # request term
    chk.instance(rule)
    key = f"{w.fq}::request"
    if len(unbuf) != 1:
        chk.refute(rule, key, f"{len(unbuf)} unbuffered sends in the handler; exactly one presentation request must be written", ctx.loc(w, h))
        return
    req = unbuf[0]
    term = cn.canon(req.args[0]) if req.args else ""
    # `x = None if <K in markers> else Message(..)` ... `if x is not None: send(x)`: at the send x is the message and the
    # send is guarded by `K not in markers`
    implied_guard = None
    import re as _re

    m_ = _re.match(r"^None if (.+ in message_buffer\.internal_messages) else (Message\(.*\))$", term)
    if m_ and req.args and isinstance(req.args[0], ast.Name):
        nm_ = req.args[0].id
        rn_ = g.nodes_where(lambda x: x.contains(req))
        for t_ in g.nodes:
            if t_.kind == "test" and norm(t_.ast) == f"{nm_} is not None" and rn_ and all(g.dominates(t_, r_) for r_ in rn_):
                other_ = [s_ for s_, lab_ in t_.succ if lab_ == "f"]
                if g.reach_avoiding(other_, lambda x: x in rn_, lambda x, t_=t_: x is t_, from_succ=False) is None:
                    term, implied_guard = m_.group(2), m_.group(1)
    pv = _presentation_value(ctx, "2.0")
    want_terms = {
        f"Message(node_id=In.node_id, child_id=255, command=3, message_type={pv})",
        f"Message(node_id=In.node_id, child_id=255, command=3, ack=0, message_type={pv}, payload='')",
        f"Message(In.node_id, 255, 3, 0, {pv}, '')",
        f"Message(node_id=In.node_id, child_id=255, command=3, message_type={pv}, payload='')",
    }
    if term in want_terms:
        chk.ok(rule, key, term, ctx.loc(w, req))
    elif not term.startswith("Message("):
        raise AnalysisError(f"EPISODE-1: the request written by the wrapper is `{term[:80]}` - not a Message construction visible at the send ({ctx.loc(w, req)}); this shape is not modelled")
    else:
        chk.refute(rule, key, f"the request is `{term}`; the statement requires a presentation request (internal, I_PRESENTATION, child 255, empty payload) addressed to the node of the rejected message", ctx.loc(w, req))
    # guard on the marker
    chk.instance(rule)
    key = f"{w.fq}::guard"
    req_nodes = g.nodes_where(lambda x: x.contains(req))
    tests = [t for t in g.nodes if t.kind == "test" and req_nodes and all(g.dominates(t, r) for r in req_nodes) and "internal_messages" in norm(t.ast)]
    good = False
    tests = tests + [t for t in g.nodes if t.kind == "test" and req_nodes and all(g.dominates(t, r) for r in req_nodes) and t not in tests]
    for t in tests:
        # canonical form of the test: local flags, predicate helpers and `not` are looked through
        te = cn.tree(t.ast)
        pol = True
        while isinstance(te, ast.UnaryOp) and isinstance(te.op, ast.Not):
            pol = not pol
            te = te.operand
        if not pol and isinstance(te, ast.Compare) and len(te.ops) == 1 and isinstance(te.ops[0], (ast.In, ast.NotIn)):
            te = ast.Compare(left=te.left, ops=[ast.NotIn() if isinstance(te.ops[0], ast.In) else ast.In()], comparators=te.comparators)
        if isinstance(te, ast.Compare) and len(te.ops) == 1 and isinstance(te.ops[0], (ast.NotIn, ast.In)) and sb.buffer_attr(te.comparators[0]) == "internal_messages":
            kc = norm(te.left)
            if kc == f"(In.node_id, 255, {pv})":
                miss = "t" if isinstance(te.ops[0], ast.NotIn) else "f"
                other = [s for s, lab in t.succ if lab != miss and lab != "exc"]
                if g.reach_avoiding(other, lambda x: x in req_nodes, lambda x, t=t: x is t, from_succ=False) is None:
                    good = True
            else:
                chk.refute(rule, key, f"the outstanding-request test uses the key {kc}; the marker of this node is (In.node_id, 255, I_PRESENTATION)", ctx.loc(w, t.ast))
                good = None
    if implied_guard is not None and good is False:
        kc_ = implied_guard.rsplit(" in message_buffer.internal_messages", 1)[0]
        if kc_ == f"(In.node_id, 255, {pv})":
            good = True
        else:
            chk.refute(rule, key, f"the outstanding-request test uses the key {kc_}; the marker of this node is (In.node_id, 255, I_PRESENTATION)", ctx.loc(w, req))
            good = None
    if good:
        chk.ok(rule, key, "request sent only if (In.node_id, 255, I_PRESENTATION) not in internal_messages", ctx.loc(w, req))
    elif good is False:
        chk.refute(rule, key, "the presentation request is not guarded by the outstanding-request marker: every rejected message writes another request", ctx.loc(w, req))
    # marker armed only after the guarded send completed
    chk.instance(rule)
    key = f"{w.fq}::marker"
    if len(buf) != 1:
        chk.refute(rule, key, f"{len(buf)} buffered sends in the handler; exactly one records the outstanding request", ctx.loc(w, h))
    else:
        mk = buf[0]
        mk_nodes = g.nodes_where(lambda x: x.contains(mk))
        same = cn.canon(mk.args[0]) == term if mk.args else False
        # not reachable through the request's exceptional edge
        via_exc = False
        for r in req_nodes:
            exc_starts = [s for s, lab in r.succ if lab == "exc"]
            if g.reach_avoiding(exc_starts, lambda x: x in mk_nodes, lambda x: False, from_succ=False) is not None:
                via_exc = True
        # and after (not before) the request on paths where the request happens
        before = any(g.reach_avoiding([m], lambda x: x in req_nodes, lambda x: False) is not None for m in mk_nodes)
        if same and not via_exc and not before:
            chk.ok(rule, key, "the marker is recorded after the request and is not reachable when the request write failed", ctx.loc(w, mk))
        else:
            why = "records a different message" if not same else "is recorded although the request write failed (reachable through the exceptional edge / finally)" if via_exc else "is recorded before the request is written"
            chk.refute(rule, key, f"the outstanding-request marker {why}: a failed request counts as sent and the node is never asked again", ctx.loc(w, mk))
    # re-raise
    chk.instance(rule)
    key = f"{w.fq}::reraise"
    last = h.body[-1] if h.body else None
    if isinstance(last, ast.Raise) and last.exc is None:
        chk.ok(rule, key, "the original error is re-raised", ctx.loc(w, last))
    else:
        chk.refute(rule, key, "the handler does not end with a bare `raise`: the rejected message is reported as handled", ctx.loc(w, h))
    # the outgoing internal handler records under (node, child, type)
    out_cells = tables.outgoing_cells(ctx)
    cal = out_cells["2.0"].get(("cmd", "internal"))
    chk.instance(rule)
    if cal is None:
        raise AnalysisError("EPISODE-1: no outgoing internal handler")
    f = ctx.inl(cal.chain()[-1].func)  # bookkeeping helpers (a method of the buffer record ...) written out
    cn2 = Canon(I, f)
    st = sb.store_sites(ctx, f, "internal_messages")
    key = f"{f.fq}::marker-key"
    if len(st) == 1 and st[0][1] is not None and cn2.canon(st[0][1]) == "(In.node_id, In.child_id, In.message_type)":
        chk.ok(rule, key, "internal_messages[(In.node_id, In.child_id, In.message_type)] = In", ctx.loc(f, st[0][0]))
    else:
        chk.refute(rule, key, "the buffered internal send does not record the message under (node, child, type): the wrapper's outstanding-request test never matches", f.where)


def rearm1(ctx: Ctx, chk) -> None:
    rule = "REARM-1"
    chk.rule(rule, "under every 2.x protocol the presentation handler removes (In.node_id, In.child_id, I_PRESENTATION) from internal_messages before delegating: for a node presentation (child 255) this is exactly the marker key")
    I = ctx.I
    cells = tables.handler_cells(ctx)
    n = 0
    for V in ctx.versions:
        if not V.startswith("2."):
            continue
        n += 1
        chk.instance(rule)
        pv = _presentation_value(ctx, V)
        cal = cells[V].get(("cmd", "presentation"))
        ok = False
        where = ""
        wrong = None
        for f in [ctx.inl(f_) for f_ in tables.chain_defs(ctx, cal, V)]:
            cn = Canon(I, f)
            for node, key in sb.removal_sites(ctx, f, "internal_messages"):
                where = ctx.loc(f, node)
                if key is None:
                    wrong = "clears all outstanding requests"
                    continue
                kc = cn.canon(key)
                if kc == f"(In.node_id, In.child_id, {pv})":
                    # must precede the delegation to the base handler
                    sup = [x for x in ctx.own_nodes(f) if isinstance(x, ast.Call) and isinstance(x.func, ast.Attribute) and isinstance(x.func.value, ast.Call) and norm(x.func.value.func) == "super"]
                    order_ = {id(x): i_ for i_, x in enumerate(ast.walk(f.node))}
                    top_ = {id(x): i_ for i_, st_ in enumerate(f.node.body) for x in ast.walk(st_)}  # written-out code keeps the line numbers of its definition: order by statement
                    if not sup or top_.get(id(node), 0) < top_.get(id(sup[0]), 0) or (top_.get(id(node), 0) == top_.get(id(sup[0]), 0) and node.lineno < sup[0].lineno):
                        ok = True
                else:
                    wrong = f"removes the key {kc}"
        key = f"presentation-clears-marker@{V}"
        # path form: from the outermost definition down to the one that removes the marker, every normal path of a
        # node presentation (child 255) passes the removal or the delegation to the next definition
        if ok:
            from ..prov import truth3

            assume = {"In.child_id == 255": True}
            for f in [ctx.inl(f_) for f_ in tables.chain_defs(ctx, cal, V)]:
                g_ = CFG(f.node)
                cn = Canon(I, f)
                rem = [x for node, key_ in sb.removal_sites(ctx, f, "internal_messages") if key_ is not None and not isinstance(key_, sb.HelperKey) and cn.canon(key_) == f"(In.node_id, In.child_id, {pv})" for x in g_.nodes_where(lambda y, node=node: y.contains(node))]
                wrapped_params = ctx.I.wrapped_param_names(f)
                deleg = []
                for c_ in ctx.own_nodes(f):
                    if isinstance(c_, ast.Call) and ((isinstance(c_.func, ast.Attribute) and isinstance(c_.func.value, ast.Call) and norm(c_.func.value.func) == "super") or (isinstance(c_.func, ast.Name) and c_.func.id in wrapped_params)):
                        deleg += g_.nodes_where(lambda y, c_=c_: y.contains(c_))
                stop = set(rem) | set(deleg)
                p_ = g_.reach_avoiding([g_.entry], lambda y: y is g_.exit, lambda y: y in stop, labels_skip=("exc",), from_succ=False, truth=lambda t, cn=cn: truth3(cn, t.ast, assume))
                if p_ is not None:
                    ok = False
                    wrong = f"can complete in {f.qualname} without removing the outstanding-request marker and without delegating to the handler that does ({' -> '.join(g_.path_text(p_)[1:5])})"
                    where = f.where
                    break
                if rem:
                    break
        if ok:
            chk.ok(rule, key, f"removes (In.node_id, In.child_id, {pv}) before delegating", where, sample=n == 1)
        else:
            chk.refute(rule, "presentation-clears-marker", f"under protocol {V} the presentation handler {wrong or 'does not remove the outstanding-request marker'}: after the node presented itself a further missing node/child never triggers a request again", where or "src/aiomysensors/model/protocol/protocol_20.py", version=V)
    chk.floor(rule, "2.x protocols", n, 3)


def who_marker(ctx: Ctx, chk) -> None:
    rule = "WHO-MARKER"
    chk.rule(rule, "the outstanding-request markers (MessageBuffer.internal_messages) are removed only by the 2.x presentation handlers, keyed (In.node_id, In.child_id, I_PRESENTATION), and stored only by the outgoing internal handler: any other removal (a version report, a wake-up flush, a clear) re-arms the request inside an episode, any other store suppresses it")
    I = ctx.I
    cells = tables.handler_cells(ctx)
    pres_defs = {}
    for V in ctx.versions:
        if V.startswith("2."):
            for f in tables.chain_defs(ctx, cells[V].get(("cmd", "presentation")), V):
                pres_defs.setdefault(f, set()).add(_presentation_value(ctx, V))
    out_defs = set()
    for V in ctx.versions:
        cal = tables.outgoing_cells(ctx)[V].get(("cmd", "internal"))
        if cal is not None:
            out_defs |= set(tables.chain_defs(ctx, cal, V))
    n = 0
    for f0, f in sb.owner_functions(ctx):
        for node, key in sb.removal_sites(ctx, f, "internal_messages"):
            n += 1
            chk.instance(rule)
            k = fkey(f, node) + "::removal"
            if f0 in pres_defs and key is not None and not isinstance(key, sb.HelperKey) and any(Canon(I, f).canon(key) == f"(In.node_id, In.child_id, {pv})" for pv in pres_defs[f0]):
                chk.ok(rule, k, "removal of the presented node's marker in the presentation handler", ctx.loc(f, node))
            else:
                chk.refute(rule, k, f"`{norm(node)[:70]}` in {f.qualname} removes outstanding-request markers outside the presentation handling of that node: the next rejected message of a node that has not presented itself writes a second request in the same episode", ctx.loc(f, node))
        for st, _k, _v in sb.store_sites(ctx, f, "internal_messages"):
            n += 1
            chk.instance(rule)
            k = fkey(f, st) + "::store"
            if f0 in out_defs:
                chk.ok(rule, k, "marker recorded by the outgoing internal handler", ctx.loc(f, st), sample=False)
            else:
                chk.refute(rule, k, f"`{norm(st)[:70]}` in {f.qualname} records a marker outside the outgoing internal handler: a request that was never written counts as sent", ctx.loc(f, st))
    chk.floor(rule, "marker removals and stores", n, 2)


def cover1(ctx: Ctx, chk) -> None:
    rule = "COVER-1"
    chk.rule(rule, "for every 2.x protocol every handler-table cell that may raise MissingNodeError/MissingChildError is reached through the missing-node/child wrapper; for 1.x no chain contains the wrapper and no presentation request can be written")
    I = ctx.I
    eea = ctx.eea()
    w = _wrapper(ctx)
    cells = tables.handler_cells(ctx)
    n = 0
    for V in ctx.versions:
        for cell, cal in cells[V].items():
            if cal is None:
                continue
            if cell[0] == "cmd" and cell[1] in ("internal",):
                # the sub-dispatcher itself: its cells are checked individually
                continue
            n += 1
            chk.instance(rule)
            chain = tables.chain_defs(ctx, cal, V)
            wrapped = any(f is w for f in chain)
            # does any *raw* def in the chain raise Missing*?
            raises_missing = False
            for f in chain:
                if f is w:
                    continue
                for node in ctx.own_nodes(f):
                    if isinstance(node, ast.Raise) and isinstance(node.exc, ast.Call) and norm(node.exc.func) in ("MissingNodeError", "MissingChildError"):
                        raises_missing = True
                    if isinstance(node, ast.Call) and isinstance(node.func, ast.Attribute) and node.func.attr in ("set_child_value", "remove_child"):
                        raises_missing = True
            name = cal.chain()[-1].func.name
            key = f"{name}@{V}"
            if V.startswith("2."):
                if raises_missing and not wrapped:
                    chk.refute(rule, f"{cal.chain()[-1].func.fq}::unwrapped", f"{name} can reject a message for a missing node/child under protocol {V} but is not wrapped by handle_missing_node_child: no presentation request is written", cal.chain()[-1].func.where, version=V)
                else:
                    chk.ok(rule, key, "wrapped" if wrapped else "cannot raise Missing*", cal.chain()[-1].func.where, sample=n <= 2)
            else:
                if wrapped:
                    chk.refute(rule, f"{name}::wrapped-in-1.x", f"{name} is wrapped by handle_missing_node_child under protocol {V}: presentation requests do not exist before 2.0", cal.chain()[-1].func.where, version=V)
                else:
                    chk.ok(rule, key, "not wrapped (1.x)", cal.chain()[-1].func.where, sample=False)
    chk.floor(rule, "handler-table cells", n, 40)
    # 1.x: no reachable construction of a presentation request
    for V in ctx.versions:
        if V.startswith("2."):
            continue
        chk.instance(rule)
        found = None
        for cell, cal in cells[V].items():
            if cal is None:
                continue
            for f, fr in tables.reachable_defs(ctx, cal, V):
                for node in ctx.own_nodes(f):
                    if isinstance(node, ast.Call) and norm(node.func) == "Message" and "I_PRESENTATION" in norm(node):
                        found = (f, node)
        if found is None:
            chk.ok(rule, f"no-presentation-request@{V}", "no reachable Message(... I_PRESENTATION ...) construction", I.vmod(V).relpath, sample=False)
        else:
            chk.refute(rule, f"{found[0].fq}::presentation-request-in-1.x", f"a presentation request is constructed on a path reachable under protocol {V}", ctx.loc(found[0], found[1]), version=V)
