"""C12 send never silently discards a message."""

from __future__ import annotations

import ast

from ..interp import Absent, Callee, Frame, UNKNOWN
from ..model import AnalysisError, norm
from . import tables
from .common import BASE_ERROR, Ctx, escape_rule, fkey, short

SEND = "aiomysensors.gateway.Gateway.send"
BUFFER = "aiomysensors.gateway.MessageBuffer"


def run(ctx: Ctx, chk) -> None:
    chk.assume("A1", "A3", "A4", "A5", "A6", "A7")
    chk.run_rule(exhaust, ctx)
    chk.run_rule(drain1, ctx)
    chk.run_rule(eea_send, ctx)
    chk.run_rule(not_a_message, ctx)
    chk.run_rule(outcome1, ctx)
    chk.run_rule(send_dispatches, ctx)
    chk.run_rule(key1, ctx)
    from . import sleepbuf as _sb

    chk.run_rule(_sb.buffer_once, ctx)
    chk.run_rule(_sb.buffer_plain, ctx)
    chk.run_rule(lambda c, k: tables.dispatch_total_rule(c, k, "outgoing"), ctx)
    from . import c08

    chk.run_rule(lambda c, k: c08.write_then_forget(c, k, loss_only=True), ctx)
    chk.run_rule(held_kept, ctx)
    chk.run_rule(tables.write_sync_rule, ctx)


def exhaust(ctx: Ctx, chk) -> None:
    rule = "EXHAUST-OUT"
    chk.rule(rule, "for every protocol version and every member of its Command enum a handler handle_<name> exists on the outgoing and on the incoming handler class (the lookup has no default: absence is an AttributeError)")
    I = ctx.I
    n = 0
    for side, cname in (("outgoing", "OutgoingMessageHandler"), ("incoming", "IncomingMessageHandler")):
        for V in ctx.versions:
            cls = I.vclass(V, cname)
            cmd = I.vclass(V, "Command")
            for value, name in sorted(I.folder.enum_canonical(cmd).items()):
                n += 1
                chk.instance(rule)
                key = f"{cname}.handle_{name}"
                m = cls.find_method(f"handle_{name}")
                if m is not None and not m.is_abstract():
                    chk.ok(rule, f"{key}@{V}", f"{m.fq}", f"{m.module.relpath}:{m.node.lineno}", sample=n in (1, 2))
                else:
                    chk.refute(rule, key, f"no {side} handler handle_{name} (command {value}) in protocol {V}{' and the other versions sharing the class' if True else ''}: {'Gateway.send of such a message' if side == 'outgoing' else 'receiving such a message'} fails with AttributeError", f"{cls.module.relpath}:{cls.node.lineno}", version=V)
    chk.floor(rule, "handler-table cells", n, 50)


def drain1(ctx: Ctx, chk) -> None:
    rule = "DRAIN-1"
    chk.rule(rule, "every MessageBuffer collection into which a send path stores a message has a drain: a site that takes entries of that collection and hands them to the transport; otherwise a parked message is never written")
    prog = ctx.prog
    buf = ctx.cls(BUFFER)
    fields = [st.target.id for st in buf.node.body if isinstance(st, ast.AnnAssign) and isinstance(st.target, ast.Name)]
    chk.floor(rule, "MessageBuffer collections", len(fields), 2)
    from . import sleepbuf as sb

    for fld in fields:
        # a drain: a function that iterates entries of the collection (directly, through a local alias, or through a
        # helper that hands them out) and sends them
        drains = sb.flush_functions(ctx, fld)
        for f in prog.all_functions():
            # only stores on a send path (outgoing handlers)
            if f.cls is None or "Outgoing" not in f.cls.name:
                continue
            for st, _k, _v in sb.store_sites(ctx, f, fld):
                chk.instance(rule)
                key = f"{f.fq}::store::{fld}"
                if drains:
                    chk.ok(rule, key, f"drained by {drains[0].qualname} (iterates {fld} and sends)", ctx.loc(f, st))
                else:
                    chk.refute(rule, key, f"a message sent with buffering allowed is parked in MessageBuffer.{fld} by {f.qualname} and no code path ever takes entries of {fld} to the transport: the message is silently never written", ctx.loc(f, st))


def key1(ctx: Ctx, chk) -> None:
    rule = "KEY-1"
    chk.rule(rule, "a buffer keyed (node, child, type) holds messages of one command only: set_messages is stored into only by the outgoing handlers of command `set`, internal_messages only by those of command `internal` (type numbers of different commands overlap, so a message of another command parked there silently replaces - or is replaced by - a parked one)")
    from . import sleepbuf as sb, tables
    from ..prov import Canon

    out_cells = tables.outgoing_cells(ctx)
    owner = {"set_messages": "set", "internal_messages": "internal"}
    n = 0
    for attr, cmd in owner.items():
        allowed = set()
        others = {}
        for V in ctx.versions:
            for cell, cal in out_cells[V].items():
                if cal is None:
                    continue
                for f in tables.chain_defs(ctx, cal, V):
                    if cell == ("cmd", cmd):
                        allowed.add(f)
                    else:
                        others.setdefault(f, set()).add(cell[1])
        for f0, f in sb.owner_functions(ctx):
            for st, key_e, _v in sb.store_sites(ctx, f, attr):
                n += 1
                chk.instance(rule)
                k = fkey(f, st) + "::owner"
                kc = Canon(ctx.I, f).canon(key_e) if key_e is not None else ""
                if f0 in allowed and f0 not in others:
                    chk.ok(rule, k, f"stored by the outgoing `{cmd}` handler only", ctx.loc(f, st), sample=n <= 2)
                elif "In.command" in kc:
                    chk.ok(rule, k, "the key includes the command", ctx.loc(f, st))
                else:
                    who = f"the outgoing handler of command {sorted(others[f0])}" if f0 in others else f.qualname
                    chk.refute(rule, k, f"{who} parks messages in {attr} under {kc or 'a key'}: a `{cmd}` command already parked under the same (node, child, type) is silently replaced and never written (or replaces this message)", ctx.loc(f, st))
    chk.floor(rule, "stores into the sleep buffers", n, 2)


def eea_send(ctx: Ctx, chk) -> None:
    rule = "EEA-SEND"
    chk.rule(rule, "for every protocol version, every exception that can propagate out of Gateway.send derives from AIOMySensorsError")
    eea = ctx.eea()
    send = ctx.func(SEND)
    entries = []
    for V in ctx.versions:
        entries.append((f"Gateway.send@{V}", eea.escapes_of(send, V)))
    escape_rule(ctx, chk, rule, entries, lambda exc, site: eea.issub(exc, BASE_ERROR), eea)
    chk.floor(rule, "version contexts", len(entries), 5)


def not_a_message(ctx: Ctx, chk) -> None:
    rule = "NOT-A-MESSAGE"
    chk.rule(rule, "an object that is not a message is rejected as an invalid message: the dump runs first inside try/except ValidationError -> InvalidMessageError, and the post_dump hook converts a missing field (KeyError) into ValidationError")
    eea = ctx.eea()
    send_raw = ctx.func(SEND)
    fr = Frame(ctx.I.make_callee(send_raw, send_raw.cls), None)
    send = ctx.inl(send_raw)  # the validation step may be extracted into a private helper
    dumps = [n for n in ctx.own_nodes(send) if isinstance(n, ast.Call) and isinstance(n.func, ast.Attribute) and n.func.attr == "dump"]
    if not dumps and send_raw.cls is not None:
        # `self._dump(message)` with `self._dump = self._schema.dump` stored once in __init__
        init_ = send_raw.cls.find_method("__init__")
        alias_ = {}
        for n_ in ctx.own_nodes(init_) if init_ is not None else []:
            if isinstance(n_, (ast.Assign, ast.AnnAssign)) and isinstance(n_.value, ast.Attribute) and n_.value.attr == "dump":
                for t_ in n_.targets if isinstance(n_, ast.Assign) else [n_.target]:
                    if isinstance(t_, ast.Attribute) and norm(t_.value) == "self":
                        alias_.setdefault(t_.attr, []).append(n_)
        dumps = [n for n in ctx.own_nodes(send) if isinstance(n, ast.Call) and isinstance(n.func, ast.Attribute) and norm(n.func.value) == "self" and len(alias_.get(n.func.attr, [])) == 1]
    if len(dumps) != 1:
        raise AnalysisError(f"NOT-A-MESSAGE: expected one schema dump in Gateway.send, found {len(dumps)}")
    d = dumps[0]
    chk.instance(rule)
    key = f"{send.fq}::dump-first"
    # dump precedes the handler dispatch and is wrapped
    from ..cfg import CFG as _CFG

    g_ = _CFG(send.node)
    dn = g_.nodes_where(lambda x: x.contains(d))
    others = []
    for x in g_.nodes:
        if x.ast is None or x in dn or x.kind in ("join", "dispatch", "handler"):
            continue
        calls_ = [c for p_ in x.parts() for c in ast.walk(p_) if isinstance(c, ast.Call) and not (isinstance(c.func, ast.Attribute) and c.func.attr == "debug")]
        if calls_ and not (dn and all(any(g_.dominates(a, x) for a in dn) for _ in [0])):
            others.append(x)
    tr = None
    cur = d
    while cur in ctx.prog.parents and cur is not send.node:
        cur = ctx.prog.parents[cur]
        if isinstance(cur, ast.Try):
            tr = cur
            break
    ok = False
    if tr is not None and not others:
        for h in tr.handlers:
            elts = h.type.elts if isinstance(h.type, ast.Tuple) else [h.type] if h.type is not None else []
            if any((eea.exc_class_of(x, fr) or "") == "marshmallow.exceptions.ValidationError" for x in elts):
                rs = [x for b in h.body for x in ast.walk(b) if isinstance(x, ast.Raise) and isinstance(x.exc, ast.Call)]
                if rs and eea.exc_class_of(rs[0].exc.func, fr) == "aiomysensors.exceptions.InvalidMessageError":
                    ok = True
    if ok:
        chk.ok(rule, key, "dump is the first operation, ValidationError -> InvalidMessageError", ctx.loc(send, d))
    else:
        chk.refute(rule, key, "Gateway.send does not validate the object by dumping it first inside try/except ValidationError -> InvalidMessageError", ctx.loc(send, d))
    # post_dump hook converts KeyError
    from . import c01

    schema, hooks = c01.schema_hooks(ctx)
    post = hooks["post_dump"][0]
    chk.instance(rule)
    key = f"{post.fq}::KeyError->ValidationError"
    ok = False
    for n in ctx.own_nodes(post):
        if isinstance(n, ast.Try):
            for h in n.handlers:
                elts = h.type.elts if isinstance(h.type, ast.Tuple) else [h.type] if h.type is not None else []
                if any(norm(x) in ("KeyError", "LookupError", "Exception") for x in elts):
                    rs = [x for b in h.body for x in ast.walk(b) if isinstance(x, ast.Raise) and isinstance(x.exc, ast.Call)]
                    if rs and norm(rs[0].exc.func) == "ValidationError":
                        ok = True
    if ok:
        chk.ok(rule, key, "missing field -> ValidationError", ctx.loc(post, post.node))
    else:
        chk.refute(rule, key, "the post_dump hook no longer converts a missing field (KeyError) into ValidationError: dumping a non-message raises KeyError", ctx.loc(post, post.node))


def send_dispatches(ctx: Ctx, chk, rule: str = "SEND-DISPATCHES") -> None:
    """Gateway.send itself: it cannot return normally without having run the outgoing handler to completion."""
    chk.rule(rule, "every path through Gateway.send that returns normally has awaited the outgoing handler of the message (the call of what get_outgoing_message_handler returned): no early return - a de-duplication, rate limit, 'already sending' or 'not connected' shortcut - lets send report success for a message that was neither written nor parked")
    from ..cfg import CFG, has_await

    send_raw = ctx.func(SEND)
    send = ctx.inl(send_raw)
    calls = tables.dispatch_calls(ctx, send, tables.DISPATCH_OUT)
    chk.floor(rule, "handler dispatch calls in Gateway.send", len(calls), 1)
    g = CFG(send.node)
    disp = [n for n in g.nodes if n.kind in ("stmt", "test") and any(n.contains(c) for c in calls)]
    chk.instance(rule)
    key = f"{send_raw.fq}::handler-on-every-return"
    for c in calls:
        par = ctx.prog.parents.get(c)
        if not isinstance(par, ast.Await):
            chk.refute(rule, key, f"`{norm(c)[:70]}` is not awaited in place: send returns before the handler has written or parked the message", ctx.loc(send, c))
            return
    p = g.reach_avoiding([g.entry], lambda x: x is g.exit, lambda x: x in disp, labels_skip=("exc",))
    if p is None:
        chk.ok(rule, key, f"the exit of send is reached only through `{norm(calls[0])[:60]}`", ctx.loc(send, calls[0]))
    else:
        chk.refute(rule, key, f"send can return normally without running the outgoing handler ({' -> '.join(g.path_text(p)[1:6])}): the message is then neither written nor parked although the caller is told it was sent - the last value sent is not the last value written", ctx.loc(send, p[-2].ast if len(p) > 1 and p[-2].ast is not None else send.node))


def outcome1(ctx: Ctx, chk) -> None:
    rule = "OUTCOME-1"
    chk.rule(rule, "every normal path through every outgoing handler ends in exactly one outcome: the encoded line is handed to the transport, or the message is parked in a buffer - never neither (silently discarded) and never both")
    from ..cfg import CFG
    from . import sleepbuf as sb, tables
    from .c07 import _paths

    out_cells = tables.outgoing_cells(ctx)
    done = set()
    cells_seen: set = set()
    for V in ctx.versions:
        for cell, cal in out_cells[V].items():
            if cal is None:
                continue
            cells_seen.add(cell)
            for f in tables.chain_defs(ctx, cal, V):
                if f in done:
                    continue
                done.add(f)
                f = ctx.inl(f, lambda h: not h.name.lstrip("_").startswith("handle"))
                chk.instance(rule)
                g = CFG(f.node)
                stores = set()
                for attr in sb.BUFFERS:
                    stores |= {id(sb._stmt(ctx, f, s[0])) for s in sb.store_sites(ctx, f, attr)}
                    stores |= {id(u[0]) for u in sb.inplace_updates(ctx, f, attr) if u[2] == "payload"}
                writes = {id(sb._stmt(ctx, f, n)) for n in ctx.own_nodes(f) if isinstance(n, ast.Call) and norm(n.func).endswith("transport.write")}
                delegates = {id(sb._stmt(ctx, f, n)) for n in ctx.own_nodes(f) if isinstance(n, ast.Call) and isinstance(n.func, ast.Attribute) and isinstance(n.func.value, ast.Call) and norm(n.func.value.func) == "super"}
                bad = None
                paths = _paths(g)
                for p in paths:
                    ev = [("park" if id(x.ast) in stores else "write" if id(x.ast) in writes else "delegate") for x in p if x.kind == "stmt" and (id(x.ast) in stores or id(x.ast) in writes or id(x.ast) in delegates)]
                    # several statements that together park one entry (store, then refresh its fields) are one outcome
                    if not ev or len(set(ev)) != 1 or (ev[0] != "park" and len(ev) != 1):
                        bad = (p, ev)
                        break
                # what is parked is the message being sent (or a copy of it): `D[k] = D.pop(k, message)` keeps the
                # entry that was already there and drops the new message although send returns normally
                from ..prov import Canon

                cn_ = Canon(ctx.I, f)
                for attr in sb.BUFFERS:
                    for st_, k_, v_ in sb.store_sites(ctx, f, attr):
                        if v_ is None or not isinstance(st_, ast.Assign):
                            continue  # setdefault / update forms: judged by BUFFER-ONCE and C09's in-place rule
                        chk.instance(rule)
                        cv = cn_.canon(v_)
                        kk = f"{f.fq}::parks::{norm(st_)[:70]}"
                        if sb.is_message_or_copy(cv):
                            chk.ok(rule, kk, "the message being sent is what is parked", ctx.loc(f, st_), sample=False)
                        else:
                            chk.refute(rule, kk, f"`{norm(st_)[:80]}` parks `{cv[:60]}`, which is not (always) the message being sent: when it evaluates to an entry that was already parked, the new message is neither written nor held although send returns normally - silently discarded", ctx.loc(f, st_))
                key = f"{f.fq}::one-outcome"
                if bad is None and paths:
                    chk.ok(rule, key, f"{len(paths)} path(s), each writes or parks exactly once", f.where, sample=len(done) <= 2)
                else:
                    p, ev = bad if bad else ([], [])
                    chk.refute(rule, key, f"a path through {f.qualname} has outcomes {ev} ({' -> '.join(g.path_text(p)[1:5])}): the message is {'silently discarded' if not ev else 'both parked and written'}", f.where)
    chk.floor(rule, "outgoing commands with a handler", len(cells_seen), 5)


def thorough(ctx: Ctx, chk) -> None:
    from .common import prune_diff

    entries = [(ctx.func(SEND), V) for V in ctx.versions]
    prune_diff(ctx, chk, entries)


def held_kept(ctx: Ctx, chk) -> None:
    """A held message leaves the buffer only when it was handed to the transport: the re-validation analysis of C09
    (ATOM-1) - a removal (or overwriting store) whose key was obtained before an await must check, after the
    await, that the entry is still the one that was written; else a newer message parked meanwhile is dropped."""
    from . import c09
    from .common import OnlyRule

    proxy = OnlyRule(chk, "ATOM-1", "HELD-KEPT", " - the message parked under that key while the write was pending is removed although it was never handed to the transport: send returned normally, the message is held and then silently discarded", "a message held for a sleeping node is removed from the buffer only if it is the very message that was just handed to the transport: every removal from / store into a message buffer whose key was obtained before an await is re-validated after the await against the current entry")
    c09.atom1(ctx, proxy)
