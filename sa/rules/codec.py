"""Wire-codec structure shared by C01, C02, C18 and EEA premises.

DELIM-1 bounded left split, ORDER-1 field order, DELIM-2 delimiter/terminator,
NORM-1 constructor normalisation, DECL-1 declarations, XFIELD-1 cross-field rule
(abstract evaluation over a finite partition of the three integer fields).
"""

from __future__ import annotations

import ast
from dataclasses import dataclass

from ..interp import Interp
from ..model import AnalysisError, ClassInfo, EnumVal, FuncInfo, Module, Unfoldable, norm

MESSAGE_MOD = "aiomysensors.model.message"
SCHEMA = f"{MESSAGE_MOD}.MessageSchema"
MESSAGE = f"{MESSAGE_MOD}.Message"
FIELD_ORDER = ("node_id", "child_id", "command", "ack", "message_type", "payload")  # 'node;child;command;ack;type;payload'
SPLITTERS = {"builtins.str.split", "builtins.str.rsplit", "builtins.str.partition", "builtins.str.rpartition"}


@dataclass
class SplitSite:
    func: FuncInfo
    call: ast.Call
    method: str
    maxsplit: object  # int | None | "unknown"
    use: str  # how the result is consumed
    n_targets: int | None


def meta_fields(I: Interp) -> tuple:
    schema = I.prog.cls(SCHEMA)
    meta = schema.nested_classes.get("Meta")
    if meta is None or "fields" not in meta.attrs:
        raise AnalysisError("anchor vanished: MessageSchema.Meta.fields")
    try:
        v = I.folder.fold(schema.module, meta.attrs["fields"])
    except Unfoldable as err:
        raise AnalysisError(f"cannot fold MessageSchema.Meta.fields: {err}") from err
    return tuple(v)


def fold_sep(I: Interp, f: FuncInfo, e: ast.expr):
    try:
        return I.folder.fold(f.module, e)
    except Unfoldable:
        return None


def fold_count(I: Interp, f: FuncInfo, e: ast.expr):
    """Fold a maxsplit expression; understands len(self.fields) inside the message schema and single-assignment locals."""
    if isinstance(e, ast.Name):
        from ..prov import Canon

        e = Canon(I, f, "").tree(e)
    if isinstance(e, ast.NamedExpr):
        return fold_count(I, f, e.value)  # `(n := len(self.fields)) - 1`: the walrus has the value of its expression
    if isinstance(e, ast.Constant) and isinstance(e.value, int):
        return e.value
    if isinstance(e, ast.BinOp) and isinstance(e.op, (ast.Sub, ast.Add)):
        a, b = fold_count(I, f, e.left), fold_count(I, f, e.right)
        if isinstance(a, int) and isinstance(b, int):
            return a - b if isinstance(e.op, ast.Sub) else a + b
        return "unknown"
    if isinstance(e, ast.Call) and isinstance(e.func, ast.Name) and e.func.id == "len" and len(e.args) == 1:
        a = e.args[0]
        if norm(a) == "self.fields" and f.cls is not None and f.cls.fq == SCHEMA:
            return len(meta_fields(I))
        if isinstance(a, ast.Attribute) and a.attr == "_fields":
            # the field tuple of a NamedTuple record: `len(cls._fields)` in one of its methods, `len(Rec._fields)`
            c_ = None
            if isinstance(a.value, ast.Name) and a.value.id in ("cls", "self") and f.cls is not None:
                c_ = f.cls
            else:
                d_ = I.prog.resolve_expr(f.module, a.value) if isinstance(a.value, (ast.Name, ast.Attribute)) else None
                c_ = d_.obj if d_ is not None and d_.kind == "class" else None
            flds = I.record_fields(c_) if c_ is not None else None
            if flds is not None:
                return len(flds)
        try:
            return len(I.folder.fold(f.module, a))
        except (Unfoldable, TypeError):
            return "unknown"
    try:
        v = I.folder.fold(f.module, e)
        return v if isinstance(v, int) else "unknown"
    except Unfoldable:
        return "unknown"


def decode_helpers(ctx, pre: FuncInfo, depth: int = 2) -> list[FuncInfo]:
    """Functions of the codec module that the pre_load hook calls (directly or through one of them): a split moved
    into a value object's constructor / a module helper is still the decoder's split."""
    out: list[FuncInfo] = []
    todo = [(pre, 0)]
    while todo:
        f, d = todo.pop()
        if d >= depth:
            continue
        for n in ctx.own_nodes(f):
            if isinstance(n, ast.Call) and isinstance(n.func, (ast.Name, ast.Attribute)):
                df = ctx.prog.resolve_expr(ctx.prog.origin(f.module, n), n.func)
                h = None
                if df is not None and df.kind == "func":
                    h = df.obj
                elif isinstance(n.func, ast.Attribute) and isinstance(n.func.value, ast.Name) and n.func.value.id in ("self", "cls") and f.cls is not None:
                    h = f.cls.find_method(n.func.attr)
                if h is not None and h is not pre and h not in out and h.module is pre.module:
                    out.append(h)
                    todo.append((h, d + 1))
    return out


def split_sites(I: Interp, delimiter: str = ";") -> list[SplitSite]:
    prog = I.prog
    out = []
    for f in prog.all_functions():
        for n in I.own_nodes(f):
            if not isinstance(n, ast.Call) or not isinstance(n.func, ast.Attribute):
                continue
            if n.func.attr not in ("split", "rsplit", "partition", "rpartition"):
                continue
            fact = prog.call_fact(f.module, n)
            if not fact or fact[0] not in SPLITTERS:
                continue
            sep = None
            if n.args:
                sep = fold_sep(I, f, n.args[0])
            for kw in n.keywords:
                if kw.arg == "sep":
                    sep = fold_sep(I, f, kw.value)
            if sep != delimiter:
                continue
            maxsplit = None
            if len(n.args) >= 2:
                maxsplit = fold_count(I, f, n.args[1])
            for kw in n.keywords:
                if kw.arg == "maxsplit":
                    maxsplit = fold_count(I, f, kw.value)
            use, nt = _use_of(I, f, n)
            out.append(SplitSite(f, n, n.func.attr, maxsplit, use, nt))
    return sorted(out, key=lambda s: (s.func.module.relpath, s.call.lineno))


def _use_of(I: Interp, f: FuncInfo, call: ast.Call):
    """How the list produced by the split is consumed: unpack:N / zip-fields:N / other."""
    parent = I.prog.parents.get(call)
    if isinstance(parent, ast.Assign) and parent.value is call:
        t = parent.targets[0]
        if isinstance(t, (ast.Tuple, ast.List)):
            return "unpack", len(t.elts)
        if isinstance(t, ast.Name):
            # find uses of the name
            for n in I.own_nodes(f):
                if isinstance(n, ast.Call) and isinstance(n.func, ast.Name) and n.func.id == "zip":
                    if any(isinstance(a, ast.Name) and a.id == t.id for a in n.args):
                        others = [a for a in n.args if not (isinstance(a, ast.Name) and a.id == t.id)]
                        from ..prov import Canon

                        for o in others:
                            if Canon(I, f, "").canon(o) == "self.fields" and f.cls is not None and f.cls.fq == SCHEMA:
                                return "zip-fields", len(meta_fields(I))
                        return "zip", None
                if isinstance(n, ast.Assign) and isinstance(n.value, ast.Name) and n.value.id == t.id and isinstance(n.targets[0], (ast.Tuple, ast.List)):
                    return "unpack", len(n.targets[0].elts)
            return "name", None
    if isinstance(parent, ast.Call) and isinstance(parent.func, ast.Name) and parent.func.id == "zip":
        return "zip", None
    return "other", None


def bounded_six_way_split(I: Interp, f: FuncInfo):
    """The function splits its wire line with maxsplit 5 into six slots: return the site."""
    for s in split_sites(I):
        if s.func is f and s.method == "split" and s.maxsplit == 5 and s.n_targets == 6:
            return s
    return None


def check_delim1(ctx, chk, rule: str, only_funcs: set[str] | None = None) -> int:
    """DELIM-1 on every ';' split site (optionally restricted to functions)."""
    I = ctx.I
    n = 0
    for s in split_sites(I):
        if only_funcs is not None and s.func.fq not in only_funcs:
            continue
        n += 1
        chk.instance(rule)
        key = f"{s.func.fq}::{norm(s.call)[:120]}"
        loc = ctx.loc(s.func, s.call)
        if s.method in ("rsplit", "rpartition"):
            chk.refute(rule, key, f"wire line split from the right (`{s.method}`): a payload containing ';' is cut at its last delimiter, the payload is not 'everything after the 5th delimiter'", loc)
            continue
        if s.method == "partition":
            raise AnalysisError(f"DELIM-1: unrecognised split shape `{norm(s.call)}` at {loc}")
        if s.maxsplit is None:
            chk.refute(rule, key, f"unbounded split of a wire line ({s.use}{'' if s.n_targets is None else ':' + str(s.n_targets)}): every ';' inside the payload makes a further element that is dropped or breaks the unpacking", loc)
            continue
        if s.maxsplit == "unknown":
            raise AnalysisError(f"DELIM-1: cannot fold maxsplit of `{norm(s.call)}` at {loc}")
        if s.maxsplit != 5:
            chk.refute(rule, key, f"split bound is {s.maxsplit}, the payload must be everything after the 5th delimiter (maxsplit 5)", loc)
            continue
        if s.n_targets is not None and s.n_targets != 6:
            chk.refute(rule, key, f"six fields are split but consumed into {s.n_targets} slots", loc)
            continue
        chk.ok(rule, key, f"split(';', 5) consumed as {s.use}:{s.n_targets}", loc)
    return n


# ---------------------------------------------------------------------------
# declarations


def field_decl(ctx, schema: ClassInfo, name: str):
    """Return a record describing a marshmallow field declaration."""
    I = ctx.I
    eea = ctx.eea()
    found = None
    for c in schema.repo_mro():
        if name in c.attrs:
            found = (c, c.attrs[name])
            break
    if found is None:
        return None
    c, val = found
    fe = eea.field_expr(c.module, val)
    if fe is None:
        return None
    fm, call = fe
    d = I.prog.resolve_expr(fm, call.func)
    kind = d.obj if d is not None and d.kind == "external" else d.obj.fq if d is not None and d.kind == "class" else norm(call.func)
    rec = {"kind": kind, "required": False, "validate": None, "module": fm, "call": call, "args": call.args}
    for kw in call.keywords:
        if kw.arg == "required":
            rec["required"] = isinstance(kw.value, ast.Constant) and kw.value.value is True
        if kw.arg == "validate":
            rec["validate"] = validator_record(ctx, fm, kw.value)
    return rec


def validator_record(ctx, m: Module, e: ast.expr):
    I = ctx.I
    if isinstance(e, ast.Name):
        # a validator kept in a module-level constant: follow it to its defining call
        fe = ctx.eea().field_expr(m, e)
        if fe is not None:
            m, e = fe
    if not isinstance(e, ast.Call):
        return {"kind": "unknown", "text": norm(e)}
    d = I.prog.resolve_expr(m, e.func)
    kind = d.obj if d is not None and d.kind == "external" else norm(e.func)
    rec = {"kind": kind.rsplit(".", 1)[-1], "text": norm(e)}
    try:
        if rec["kind"] == "Range":
            for kw in e.keywords:
                if kw.arg in ("min", "max"):
                    rec[kw.arg] = I.folder.plain(I.folder.fold(m, kw.value))
                if kw.arg in ("min_inclusive", "max_inclusive"):
                    rec[kw.arg] = I.folder.fold(m, kw.value)
            for i, a in enumerate(e.args[:2]):
                rec[("min", "max")[i]] = I.folder.plain(I.folder.fold(m, a))
        elif rec["kind"] == "OneOf":
            src = e.args[0] if e.args else next((kw.value for kw in e.keywords if kw.arg == "choices"), None)
            if src is not None:
                rec["choices"] = tuple(I.folder.plain(x) for x in I.folder.fold(m, src))
    except Unfoldable as err:
        raise AnalysisError(f"cannot fold validator {norm(e)}: {err}") from err
    return rec


# ---------------------------------------------------------------------------
# XFIELD-1: abstract evaluation of the cross-field validators

OTHER = "other"


class Reject(Exception):
    pass


class XEval:
    """Abstract evaluator for the validator functions over a finite partition.

    Abstract integers are either a concrete representative (int) or OTHER_n: a value
    different from every constant the code compares it with.  No repository code is
    executed: statements are interpreted over these abstract values only.
    """

    def __init__(self, ctx, V: str) -> None:
        self.ctx = ctx
        self.I: Interp = ctx.I
        self.V = V
        self.vmod = self.I.vmod(V)
        self.steps = 0

    # abstract ints: ("k", int) concrete representative | ("o", tag) unequal to all constants, with range flag
    def run_validate(self, child, command, mtype, canonical: bool = True) -> bool:
        """True = accepted. child/command/mtype are abstract integers; the mapping handed to the validators holds
        their *text* ("raw": the abstract integer plus whether it is spelled canonically - ' 255', '0255', '+255'
        are integers to int() but are not the string '255')."""
        schema = self.I.prog.cls(SCHEMA)
        self.ctxvals = {}
        raw = lambda v: ("raw", v, canonical)  # noqa: E731
        data = {"child_id": raw(child), "command": raw(command), "message_type": raw(mtype), "node_id": raw(("k", 1)), "ack": raw(("k", 0)), "payload": ("s", "")}
        try:
            # ChildIdField._deserialize(value, attr, data) and CommandField._deserialize(value, attr, data)
            for fname in ("child_id", "command"):
                rec = field_decl(self.ctx, schema, fname)
                if rec is None:
                    raise AnalysisError(f"anchor vanished: MessageSchema.{fname}")
                fc = self.I.prog.lookup_fullname(rec["kind"]) if isinstance(rec["kind"], str) and rec["kind"].startswith("aiomysensors") else None
                if fc is None or fc.kind != "class":
                    raise AnalysisError(f"XFIELD-1: MessageSchema.{fname} is not a repository field class ({rec['kind']})")
                des = fc.obj.find_method("_deserialize")
                if des is None:
                    raise AnalysisError(f"XFIELD-1: {fc.obj.fq} has no _deserialize")
                params = des.positional_params
                env = {params[0]: ("self", fc.obj), params[1]: data[fname], params[2]: ("s", fname), params[3]: ("data", data)}
                self.call_func(des, env)
        except Reject:
            return False
        return True

    def call_func(self, f: FuncInfo, env: dict):
        self.steps += 1
        if self.steps > 20000:
            raise AnalysisError("XFIELD-1: evaluation did not terminate")
        for p in f.params:
            if p not in env:
                d = f.param_default(p)
                if d is not None:
                    env[p] = self.ev(d, env, f)
        return self.block(f.node.body, env, f)

    def block(self, stmts, env, f):
        for s in stmts:
            r = self.stmt(s, env, f)
            if r is not None:
                return r
        return None

    def stmt(self, s, env, f):
        if isinstance(s, ast.Expr):
            if isinstance(s.value, ast.Constant):
                return None
            self.ev(s.value, env, f)
            return None
        if isinstance(s, ast.Assign) and len(s.targets) == 1 and isinstance(s.targets[0], ast.Name):
            env[s.targets[0].id] = self.ev(s.value, env, f)
            return None
        if isinstance(s, ast.AnnAssign) and isinstance(s.target, ast.Name) and s.value is not None:
            env[s.target.id] = self.ev(s.value, env, f)
            return None
        if isinstance(s, ast.Assign) and len(s.targets) == 1 and isinstance(s.targets[0], ast.Subscript) and isinstance(s.targets[0].value, ast.Attribute) and s.targets[0].value.attr == "context" and isinstance(s.targets[0].slice, ast.Constant) and isinstance(s.targets[0].slice.value, str):
            if not hasattr(self, "ctxvals"):
                self.ctxvals = {}
            self.ctxvals[s.targets[0].slice.value] = self.ev(s.value, env, f)
            return None
        if isinstance(s, ast.Return):
            return ("ret", self.ev(s.value, env, f) if s.value is not None else ("none",))
        if isinstance(s, ast.Pass):
            return None
        if isinstance(s, ast.FunctionDef) and not s.decorator_list and not s.args.vararg and not s.args.kwarg:
            env[s.name] = ("closure", s, env)  # a nested helper: its body reads the enclosing locals
            return None
        if isinstance(s, ast.Raise):
            raise Reject
        if isinstance(s, ast.If):
            t = self.truth(self.ev(s.test, env, f))
            return self.block(s.body if t else s.orelse, env, f)
        if isinstance(s, ast.Try):
            # conversions are assumed to succeed here (non-numeric text is EEA-LOAD / DECL-1's business)
            r = self.block(s.body, env, f)
            if r is not None:
                return r
            return self.block(s.orelse, env, f) if s.orelse else None
        raise AnalysisError(f"XFIELD-1: statement {type(s).__name__} in {f.fq} not modelled (line {s.lineno})")

    def truth(self, v) -> bool:
        if v[0] == "b":
            return v[1]
        if v[0] == "none":
            return False
        if v[0] in ("self", "data", "proto", "set", "enumcls", "validator", "raw"):
            return True
        if v[0] == "k":
            return bool(v[1])
        raise AnalysisError(f"XFIELD-1: truth of {v!r} undetermined")

    def ev(self, e, env, f):
        I = self.I
        if isinstance(e, ast.Constant):
            if e.value is None:
                return ("none",)
            if isinstance(e.value, bool):
                return ("b", e.value)
            if isinstance(e.value, int):
                return ("k", e.value)
            return ("s", e.value)
        if isinstance(e, ast.JoinedStr):
            return ("s", "")
        if isinstance(e, ast.Name):
            if e.id in env:
                return env[e.id]
            dn = I.prog.resolve_name(I.prog.origin(f.module, e), e.id)
            if dn is not None and dn.kind == "class" and I.record_fields(dn.obj) is not None:
                return ("cls", dn.obj)
            try:
                v = I.folder.fold(f.module, e)
            except Unfoldable as err:
                raise AnalysisError(f"XFIELD-1: name {e.id} in {f.fq}: {err}") from err
            return self.lift(v)
        if isinstance(e, ast.Attribute):
            base = self.ev(e.value, env, f)
            if base[0] == "rec":
                if e.attr in base[1]:
                    return base[1][e.attr]
                rc = base[1].get("__class__")
                m = rc.find_method(e.attr) if rc is not None else None
                if m is not None:
                    return ("method", m, base)
                raise AnalysisError(f"XFIELD-1: record has no field {e.attr}")
            if base[0] == "cls":
                m = base[1].find_method(e.attr)
                if m is not None:
                    return ("method", m, base)
                raise AnalysisError(f"XFIELD-1: class {base[1].name} has no method {e.attr}")
            if base[0] == "self" and e.attr == "context":
                return ("ctxdict",)
            if base[0] == "proto":
                d = I.prog.resolve_name(self.vmod, e.attr)
                if d is None:
                    raise AnalysisError(f"XFIELD-1: protocol {self.V} has no attribute {e.attr}")
                if d.kind == "class":
                    return ("enumcls", d.obj)
                try:
                    return self.lift(I.folder.fold(d.module, d.obj))
                except Unfoldable as err:
                    raise AnalysisError(f"XFIELD-1: cannot fold {e.attr}: {err}") from err
            if base[0] == "member" and e.attr == "value":
                return ("k", base[1])
            if base[0] == "self":
                m = base[1].find_method(e.attr)
                if m is not None and any(ast.unparse(d_) == "property" for d_ in m.node.decorator_list):
                    r = self.call_func(m, {m.positional_params[0]: base})  # a property: its getter runs
                    return r[1] if r is not None else ("none",)
                if m is not None:
                    return ("method", m, base)
            raise AnalysisError(f"XFIELD-1: attribute {norm(e)} in {f.fq} not modelled")
        if isinstance(e, ast.Subscript) and isinstance(e.value, ast.Attribute) and e.value.attr == "context" and isinstance(e.slice, ast.Constant) and isinstance(e.slice.value, str):
            # the schema's context mapping, filled by an earlier field of the same load (fields run in declared order)
            if e.slice.value in getattr(self, "ctxvals", {}):
                return self.ctxvals[e.slice.value]
            raise AnalysisError(f"XFIELD-1: context[{e.slice.value!r}] read before any field of this load stored it")
        if isinstance(e, ast.Subscript):
            base = self.ev(e.value, env, f)
            k = self.ev(e.slice, env, f)
            if base[0] == "data" and k[0] == "s":
                return base[1][k[1]]
            raise AnalysisError(f"XFIELD-1: subscript {norm(e)} not modelled")
        if isinstance(e, ast.Compare) and len(e.ops) == 1:
            a = self.ev(e.left, env, f)
            b = self.ev(e.comparators[0], env, f)
            op = e.ops[0]
            if isinstance(op, (ast.Eq, ast.NotEq)):
                r = self.eq(a, b)
                return ("b", r if isinstance(op, ast.Eq) else not r)
            if isinstance(op, (ast.In, ast.NotIn)) and b[0] == "pairs" and a[0] == "tup":
                r = any(len(t_) == len(a[1]) and all(self.eq(x_, y_) for x_, y_ in zip(a[1], t_)) for t_ in b[1])
                return ("b", r if isinstance(op, ast.In) else not r)
            if isinstance(op, (ast.In, ast.NotIn)):
                if b[0] != "set":
                    raise AnalysisError(f"XFIELD-1: membership in {b!r}")
                r = any(self.eq(a, ("k", x)) for x in b[1])
                return ("b", r if isinstance(op, ast.In) else not r)
            if isinstance(op, (ast.Is, ast.IsNot)):
                if a[0] != "none" and b[0] != "none":
                    raise AnalysisError(f"XFIELD-1: identity test {norm(e)} between values that are not singletons (identity is not equality)")
                r = a[0] == "none" and b[0] == "none"
                return ("b", r if isinstance(op, ast.Is) else not r)
            raise AnalysisError(f"XFIELD-1: comparison {norm(e)} not modelled")
        if isinstance(e, ast.BoolOp):
            is_and = isinstance(e.op, ast.And)
            for v in e.values:  # short-circuit, left to right
                t = self.truth(self.ev(v, env, f))
                if t != is_and:
                    return ("b", t)
            return ("b", is_and)
        if isinstance(e, ast.IfExp):
            return self.ev(e.body if self.truth(self.ev(e.test, env, f)) else e.orelse, env, f)
        if isinstance(e, ast.NamedExpr) and isinstance(e.target, ast.Name):
            v = self.ev(e.value, env, f)
            env[e.target.id] = v
            return v
        if isinstance(e, ast.UnaryOp) and isinstance(e.op, ast.Not):
            return ("b", not self.truth(self.ev(e.operand, env, f)))
        if isinstance(e, ast.SetComp) and len(e.generators) == 1:
            g = e.generators[0]
            it = self.ev(g.iter, env, f)
            if it[0] != "members":
                raise AnalysisError(f"XFIELD-1: set comprehension over {it!r}")
            out = set()
            for nm, v in it[1]:
                env2 = dict(env)
                env2[g.target.id] = ("member", v)
                r = self.ev(e.elt, env2, f)
                out.add(r[1])
            return ("set", frozenset(out))
        if isinstance(e, ast.Call) and norm(e.func).rsplit(".", 1)[-1] == "product" and not e.keywords and e.args and (self.I.prog.call_fact(f.module, e) or ("",))[0] in ("itertools.product", "itertools.product.__init__", "itertools.product.__new__"):
            # itertools.product over small constant collections: the set of tuples, element by element
            import itertools as _it

            cols = []
            for a_ in e.args:
                v_ = self.ev(a_, env, f)
                if v_[0] == "tup":
                    cols.append(list(v_[1]))
                elif v_[0] == "set":
                    cols.append([("k", x_) for x_ in sorted(v_[1])])
                else:
                    raise AnalysisError(f"XFIELD-1: product over {v_!r} not modelled")
            return ("pairs", frozenset(_it.product(*cols)))
        if isinstance(e, ast.Call) and isinstance(e.func, ast.Name) and e.func.id in ("set", "frozenset", "tuple", "list") and len(e.args) == 1 and not e.keywords:
            v_ = self.ev(e.args[0], env, f)
            if v_[0] == "pairs":
                return v_
        if isinstance(e, ast.Tuple) and isinstance(e.ctx, ast.Load):
            return ("tup", tuple(self.ev(x_, env, f) for x_ in e.elts))
        if isinstance(e, ast.Call):
            return self.call(e, env, f)
        raise AnalysisError(f"XFIELD-1: expression {type(e).__name__} `{norm(e)[:60]}` in {f.fq} not modelled")

    def lift(self, v):
        if isinstance(v, EnumVal):
            return ("k", v.value)
        if isinstance(v, bool):
            return ("b", v)
        if isinstance(v, int):
            return ("k", v)
        if isinstance(v, str):
            return ("s", v)
        if isinstance(v, (set, frozenset, tuple, list)):
            return ("set", frozenset(self.I.folder.plain(x) for x in v))
        if v is None:
            return ("none",)
        raise AnalysisError(f"XFIELD-1: cannot lift {v!r}")

    def eq(self, a, b) -> bool:
        if a[0] == "raw" or b[0] == "raw":
            if a[0] != "raw":
                a, b = b, a
            if b[0] == "s":  # text of the field compared with a string constant
                return bool(a[2]) and a[1][0] == "k" and str(a[1][1]) == b[1]
            if b[0] == "raw":
                return a[1] == b[1] and a[2] == b[2] and a[2]
            return False  # a str never equals an int
        if a[0] == "k" and b[0] == "k":
            return a[1] == b[1]
        if a[0] == "o" or b[0] == "o":
            return a == b
        return a == b

    def call(self, e: ast.Call, env, f):
        I = self.I
        fn = e.func
        args = [self.ev(a, env, f) for a in e.args]
        kwargs = {kw.arg: self.ev(kw.value, env, f) for kw in e.keywords if kw.arg}
        if isinstance(fn, ast.Call):
            # f(...)(x): a validator object produced by a call, applied at once
            fv = self.ev(fn, env, f)
            if fv[0] == "validator" and len(args) == 1:
                self.apply_validator(fv[1], args[0])
                return args[0]
            raise AnalysisError(f"XFIELD-1: call of `{norm(fn)[:50]}` result not modelled in {f.fq}")
        if isinstance(fn, (ast.Name, ast.Attribute)):
            # a NamedTuple / dataclass carrying intermediate values
            dcls = I.prog.resolve_expr(f.module, fn)
            if dcls is not None and dcls.kind == "class":
                flds = I.record_fields(dcls.obj)
                if flds is not None and len(args) <= len(flds) and all(k in flds for k in kwargs):
                    return self.make_record(dcls.obj, flds, args, kwargs, f)
        if isinstance(fn, ast.Name) and fn.id in env and env[fn.id][0] == "closure":
            _k, fd, outer = env[fn.id]
            env2 = dict(outer)
            for p_, a_ in zip([a.arg for a in fd.args.args], args):
                env2[p_] = a_
            env2.update(kwargs)
            r = self.block(fd.body, env2, f)
            return r[1] if r is not None else ("none",)
        if isinstance(fn, ast.Name) and fn.id in env and env[fn.id][0] == "cls":
            c_ = env[fn.id][1]
            flds = I.record_fields(c_)
            if flds is not None and len(args) <= len(flds) and all(k in flds for k in kwargs):
                return self.make_record(c_, flds, args, kwargs, f)
        if isinstance(fn, ast.Attribute):
            try:
                bv = self.ev(fn.value, env, f) if isinstance(fn.value, ast.Name) and (fn.value.id in env or I.prog.resolve_name(I.prog.origin(f.module, fn.value), fn.value.id) is not None and I.prog.resolve_name(I.prog.origin(f.module, fn.value), fn.value.id).kind == "class") else None
            except AnalysisError:
                bv = None
            if bv is not None and bv[0] in ("rec", "cls"):
                c_ = bv[1].get("__class__") if bv[0] == "rec" else bv[1]
                m = c_.find_method(fn.attr) if c_ is not None else None
                if m is not None:
                    env2 = {} if m.is_staticmethod() else {m.positional_params[0]: (("cls", c_) if m.is_classmethod() else bv)}
                    ps = m.positional_params if m.is_staticmethod() else m.positional_params[1:]
                    for p_, a_ in zip(ps, args):
                        env2[p_] = a_
                    env2.update(kwargs)
                    r = self.call_func(m, env2)
                    return r[1] if r is not None else ("none",)
        if isinstance(fn, ast.Name):
            if fn.id == "len" and len(args) == 1:
                a0 = args[0]
                if a0[0] == "enumcls":
                    return ("k", len(I.folder.enum_canonical(a0[1])))
                if a0[0] in ("set", "members"):
                    return ("k", len(a0[1]))
                raise AnalysisError(f"XFIELD-1: len() of {a0!r} not modelled")
            if fn.id == "int" and len(args) == 1:
                return args[0][1] if args[0][0] == "raw" else args[0]
            if fn.id == "str" and len(args) == 1:
                a0 = args[0]
                if a0[0] == "k":
                    return ("s", str(a0[1]))
                if a0[0] in ("s", "raw"):
                    return a0
                raise AnalysisError(f"XFIELD-1: str() of {a0!r} not modelled")
            if fn.id in ("tuple", "list", "set", "frozenset") and len(args) == 1:
                if args[0][0] == "enumcls":
                    return ("members", tuple((n, v) for v, n in I.folder.enum_canonical(args[0][1]).items()))
                return args[0]
            if fn.id in env and env[fn.id][0] == "validator":
                self.apply_validator(env[fn.id][1], args[0])
                return args[0]
            d = I.prog.resolve_name(f.module, fn.id)
            if d is not None and d.kind == "const" and len(args) == 1:
                # a validator instance kept in a module-level constant
                rec = validator_record(self.ctx, f.module, fn)
                if rec.get("kind") in ("Range", "OneOf"):
                    self.apply_validator(rec, args[0])
                    return args[0]
            if d is not None and d.kind == "func":
                g: FuncInfo = d.obj
                env2 = {}
                for p, a in zip(g.positional_params, args):
                    env2[p] = a
                env2.update(kwargs)
                r = self.call_func(g, env2)
                return r[1] if r is not None else ("none",)
            if d is not None and d.kind == "external" and d.obj.endswith("ValidationError"):
                return ("exc",)
        if isinstance(fn, ast.Attribute):
            if norm(fn).endswith("validate.Range") or norm(fn).endswith("validate.OneOf"):
                try:
                    rec = validator_record(self.ctx, f.module, e)
                except AnalysisError:
                    # bounds computed from the arguments (e.g. max=len(<enum>)): evaluate them abstractly
                    rec = {"kind": norm(fn).rsplit(".", 1)[-1], "text": norm(e)}
                    if rec["kind"] != "Range":
                        raise
                    pos = ("min", "max")
                    for i_, a_ in enumerate(args[:2]):
                        kwargs.setdefault(pos[i_], a_)
                    for k_ in ("min", "max"):
                        v_ = kwargs.get(k_)
                        if v_ is not None:
                            if v_[0] != "k":
                                raise AnalysisError(f"XFIELD-1: bound {k_}={v_!r} of `{norm(e)[:50]}` is not a concrete integer") from None
                            rec[k_] = v_[1]
                    for k_ in ("min_inclusive", "max_inclusive"):
                        if k_ in kwargs:
                            rec[k_] = self.truth(kwargs[k_])
                return ("validator", rec)
            base = self.ev(fn.value, env, f)
            if fn.attr in ("isdigit", "isdecimal", "isnumeric") and not args and not kwargs:
                # predicate on the text of a field: decided for the canonical spelling of an integer ("-1" has a
                # sign, "7" has not); text that int() refuses may still consist of digit-like characters
                inner = base[1] if base[0] == "raw" else base
                canonical = base[2] if base[0] == "raw" else True
                if inner[0] == "k" and canonical:
                    return ("b", inner[1] >= 0)
                raise AnalysisError(f"XFIELD-1: `{norm(e)}` on {base!r}: the answer depends on the spelling (\"07\", \"+7\", superscript digits)")
            if base[0] == "ctxdict" and fn.attr == "get":
                if args and args[0] == ("s", "protocol"):
                    return ("proto",)
                return ("none",)
            if base[0] == "self":
                m = base[1].find_method(fn.attr)
                if m is not None:
                    env2 = {m.positional_params[0]: base}
                    for p, a in zip(m.positional_params[1:], args):
                        env2[p] = a
                    env2.update(kwargs)
                    r = self.call_func(m, env2)
                    return r[1] if r is not None else ("none",)
            if base[0] == "data" and fn.attr == "get":
                k = args[0]
                if k[0] == "s" and k[1] in base[1]:
                    return base[1][k[1]]
                return args[1] if len(args) > 1 else ("none",)
        raise AnalysisError(f"XFIELD-1: call `{norm(e)[:70]}` in {f.fq} not modelled")

    def make_record(self, c, flds, args, kwargs, f):
        rec = dict(zip(flds, args))
        rec.update(kwargs)
        # field defaults
        for k in c.repo_mro():
            for nm, val in k.attr_order:
                if nm in flds and nm not in rec and val is not None:
                    rec[nm] = self.ev(val, {}, f)
        rec["__class__"] = c
        return ("rec", rec)

    def apply_validator(self, rec, v):
        if v[0] == "raw":
            raise AnalysisError("XFIELD-1: a range/choice validator is applied to the unparsed text of a field")
        if rec["kind"] == "Range":
            lo, hi = rec.get("min"), rec.get("max")
            if v[0] == "o":
                # an "other" value differs from every constant in sight: it lies outside any two-sided range
                if v[1] == "out" or (lo is not None and hi is not None):
                    raise Reject
                return
            if (lo is not None and v[1] < lo) or (hi is not None and v[1] > hi):
                raise Reject
            return
        if rec["kind"] == "OneOf":
            if v[0] == "o" or v[1] not in rec["choices"]:
                raise Reject
            return
        raise AnalysisError(f"XFIELD-1: validator {rec['kind']} not modelled")


def xfield_expected(child, command, mtype) -> bool:
    """Accept/reject table written from the property statement (C02)."""

    def val(v):
        return v[1] if v[0] == "k" else None

    c, cmd, t = val(child), val(command), val(mtype)
    if child[0] == "o":  # out of range representative
        return False
    if c is None or not (0 <= c <= 255):
        return False
    if cmd is None or cmd not in (0, 1, 2, 3, 4):
        return False
    id_req = cmd == 3 and t in (3, 4)
    if cmd in (3, 4) and not id_req and c != 255:
        return False  # internal and stream commands address child 255 (except id request/response)
    if c == 255 and cmd in (1, 2):
        return False  # child 255 never carries set or req
    return True


XFIELD_CELLS = {
    "child": [("k", 0), ("k", 7), ("k", 254), ("k", 255), ("k", 256), ("k", -1), ("o", "out")],
    "command": [("k", 0), ("k", 1), ("k", 2), ("k", 3), ("k", 4), ("k", 5), ("k", -1), ("o", "cmd")],
    "mtype": [("k", 3), ("k", 4), ("k", 0), ("k", 19), ("o", "type")],
}


def command_membership_enforced(I: Interp) -> bool:
    """Premise: for every version, a command outside protocol.Command is rejected by the schema."""

    class _C:
        pass

    from .common import Ctx  # noqa: F401  (type only)

    ctx = _C()
    ctx.I = I
    ctx.prog = I.prog
    from ..eea import EEA

    e = EEA(I)
    ctx.eea = lambda prune=True: e
    try:
        for V in I.versions:
            cmd_cls = I.vclass(V, "Command")
            members = set(I.folder.enum_values(cmd_cls))
            ev = XEval(ctx, V)
            for cmd in XFIELD_CELLS["command"]:
                inside = cmd[0] == "k" and cmd[1] in members
                for child in (("k", 7), ("k", 255)):
                    for mt in (("k", 3), ("k", 0)):
                        try:
                            accepted = ev.run_validate(child, cmd, mt)
                        except AnalysisError:
                            if cmd[0] == "o":
                                # text that is not an integer: whatever the validators make of its spelling, a
                                # message only exists if the field was converted to an int - which is one of the
                                # integer cells above
                                continue
                            raise
                        if accepted and not inside:
                            return False
    except AnalysisError as err:
        # the validators could not be evaluated symbolically: that says nothing about the premise either way
        raise AnalysisError(f"premise 'a command outside protocol.Command is rejected by the schema' could not be evaluated: {err}") from err
    return True
