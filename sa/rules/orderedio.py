"""ORDERED-IO: worker-thread file operations of Persistence cannot overtake each other."""

from __future__ import annotations

import ast

from ..model import AnalysisError, norm
from ..prov import Canon
from .common import Ctx, callee_names, fkey

PERS = "aiomysensors.persistence.Persistence"
ASYNC_OPENERS = ("aiofiles.threadpool.open",)


def _single_worker_pool(ctx: Ctx, cls, attr: str):
    """(call, max_workers) of the ThreadPoolExecutor construction that initialises self.<attr>, or None."""
    cands: list[ast.AST] = []
    for k in cls.repo_mro():
        for st in k.node.body:
            if isinstance(st, ast.AnnAssign) and isinstance(st.target, ast.Name) and st.target.id == attr and st.value is not None:
                cands.append(st.value)
            elif isinstance(st, ast.Assign) and any(isinstance(t, ast.Name) and t.id == attr for t in st.targets):
                cands.append(st.value)
        for name in ("__init__", "__post_init__"):
            m = k.methods.get(name)
            if m:
                for n in ctx.own_nodes(m[-1]):
                    if isinstance(n, ast.Assign) and any(isinstance(t, ast.Attribute) and t.attr == attr and isinstance(t.value, ast.Name) and t.value.id == "self" for t in n.targets):
                        cands.append(n.value)
    # a named factory (`default_factory=_single_worker_executor`) instead of a lambda: what it returns
    for v in list(cands):
        for kw in [k_ for c_ in ast.walk(v) if isinstance(c_, ast.Call) for k_ in c_.keywords if k_.arg == "default_factory"]:
            if isinstance(kw.value, (ast.Name, ast.Attribute)):
                d = ctx.prog.resolve_expr(cls.module, kw.value)
                if d is not None and d.kind == "func":
                    cands += [r.value for r in ctx.own_nodes(d.obj) if isinstance(r, ast.Return) and r.value is not None]
    pools = [c for v in cands for c in ast.walk(v) if isinstance(c, ast.Call) and norm(c.func).rsplit(".", 1)[-1] == "ThreadPoolExecutor"]
    if len(pools) != 1:
        return None
    c = pools[0]
    mw = None
    if c.args:
        mw = c.args[0]
    for kw in c.keywords:
        if kw.arg == "max_workers":
            mw = kw.value
    if mw is None:
        return c, None
    try:
        return c, ctx.folder.plain(ctx.folder.fold(cls.module, mw))
    except Exception:  # noqa: BLE001
        return c, None


def ordered_io(ctx: Ctx, chk) -> None:
    rule = "ORDERED-IO"
    chk.rule(rule, "the file operations Persistence hands to worker threads (aiofiles open / read / write / close) run one at a time in the order they were requested - every aiofiles.open gets the same `executor=` that is a ThreadPoolExecutor(max_workers=1). A file operation cannot be cancelled once its thread runs: when the saver is cancelled inside one, that operation is abandoned, and with several workers its open('w') (truncate) or close (flush of the older text) can execute after the final save of stop() has written the file")
    pers = ctx.cls(PERS)
    n = 0
    execs = set()
    seen: set = set()
    for fl in pers.mro_methods().values():
        for f0 in fl:
            f = ctx.inl(f0)
            cn = Canon(ctx.I, f)
            for node in ctx.own_nodes(f):
                if not isinstance(node, ast.Call) or id(node) in seen:
                    continue
                if not any(o in callee_names(ctx, f, node) for o in ASYNC_OPENERS):
                    continue
                seen.add(id(node))
                n += 1
                chk.instance(rule)
                path = cn.canon(node.args[0]) if node.args else "?"
                mode = "r"
                if len(node.args) >= 2:
                    mode = norm(node.args[1]).strip("'\"")
                for kw in node.keywords:
                    if kw.arg == "mode":
                        mode = norm(kw.value).strip("'\"")
                key = f"{f0.fq}::open({path}, mode={mode!r})::worker-thread-order"
                ex = next((kw.value for kw in node.keywords if kw.arg == "executor"), None)
                if not any(c in mode for c in "wax+"):
                    chk.ok(rule, key, "opened for reading: an abandoned read-only operation cannot change the file", ctx.loc(f, node), sample=False)
                    continue
                if ex is None:
                    chk.refute(rule, key, f"`{norm(node)[:70]}` runs in the event loop's default (multi-worker) thread pool: if the saver is cancelled while this operation is already running in its thread, the abandoned operation can complete after the final save - an abandoned open('w') truncates the file the final save has just written, an abandoned close flushes the older text over it", ctx.loc(f, node))
                    continue
                et = cn.canon(ex)
                if not (et.startswith("self.") and et.count(".") == 1):
                    chk.refute(rule, key, f"the executor `{et}` of `{norm(node)[:50]}` is not an attribute of the Persistence object: nothing shows that all file operations share one single-worker pool", ctx.loc(f, node))
                    continue
                pool = _single_worker_pool(ctx, pers, et.split(".", 1)[1])
                if pool is None:
                    chk.refute(rule, key, f"`{et}` is not initialised with one ThreadPoolExecutor(...) construction", ctx.loc(f, node))
                    continue
                call, mw = pool
                if mw != 1:
                    chk.refute(rule, key, f"`{et}` is `{norm(call)[:60]}` (max_workers = {mw!r}): with more than one worker thread an abandoned file operation can overtake the operations of the final save", ctx.loc(f, node))
                    continue
                execs.add(et)
                chk.ok(rule, key, f"executor={et} = {norm(call)}: operations run in submission order, an abandoned one finishes before the final save's open", ctx.loc(f, node))
    if len(execs) > 1:
        chk.instance(rule)
        chk.refute(rule, f"{pers.fq}::one-executor", f"the opens use different executors {sorted(execs)}: operations of different pools are not ordered", f"{pers.module.relpath}:{pers.node.lineno}")
    chk.floor(rule, "aiofiles.open sites in Persistence", n, 2)
    # the shared pool must not be replaced or shut down behind the back of a running save
    for f in ctx.prog.all_functions():
        for node in ctx.own_nodes(f):
            tg = node.targets if isinstance(node, ast.Assign) else []
            for t in tg:
                if isinstance(t, ast.Attribute) and ("self." + t.attr) in execs and f.name not in ("__init__", "__post_init__"):
                    chk.instance(rule)
                    chk.refute(rule, fkey(f, node) + "::executor-replaced", f"`{norm(node)[:60]}` replaces the file-operation pool while operations of the old one may still run: they are no longer ordered with the new ones", ctx.loc(f, node))


def executor_alive(ctx: Ctx, chk, rule: str = "EXECUTOR-ALIVE") -> None:
    """A Persistence object outlives a gateway context (the same Gateway can be entered again, `save()` / `load()`
    are public): the pool its file operations run on must stay usable for as long as the object lives."""
    chk.rule(rule, "the worker pool the file operations of Persistence run on is never shut down by the library: after `shutdown()` every later load / save of the same Persistence object (a gateway context entered a second time, a save requested by the application) fails with RuntimeError('cannot schedule new futures after shutdown') instead of reading / writing the file")
    pers = ctx.cls(PERS)
    attrs: set[str] = set()
    for fl in pers.mro_methods().values():
        for f0 in fl:
            for node in ctx.own_nodes(f0):
                if isinstance(node, ast.Call):
                    for kw in node.keywords:
                        if kw.arg == "executor" and isinstance(kw.value, ast.Attribute):
                            attrs.add(kw.value.attr)
                    if isinstance(node.func, ast.Attribute) and node.func.attr == "run_in_executor" and node.args and isinstance(node.args[0], ast.Attribute):
                        attrs.add(node.args[0].attr)
    chk.floor(rule, "executor attributes of Persistence", len(attrs), 1)
    n = 0
    for f in ctx.prog.all_functions():
        aliases = {t.id for node in ctx.own_nodes(f) if isinstance(node, ast.Assign) and isinstance(node.value, ast.Attribute) and node.value.attr in attrs for t in node.targets if isinstance(t, ast.Name)}
        for node in ctx.own_nodes(f):
            if not (isinstance(node, ast.Call) and isinstance(node.func, ast.Attribute) and node.func.attr == "shutdown"):
                continue
            recv = node.func.value
            if (isinstance(recv, ast.Attribute) and recv.attr in attrs) or (isinstance(recv, ast.Name) and recv.id in aliases):
                n += 1
                chk.instance(rule)
                chk.refute(rule, fkey(f, node) + "::shutdown", f"`{norm(node)[:60]}` in {f.qualname} shuts the file-operation pool down while the Persistence object stays in use: the next load / save on it raises RuntimeError (not a persistence error), e.g. when the gateway context is entered again", ctx.loc(f, node))
            # `with self._executor:` shuts down on exit as well
    for f in ctx.prog.all_functions():
        for node in ctx.own_nodes(f):
            if isinstance(node, (ast.With, ast.AsyncWith)):
                for it in node.items:
                    e = it.context_expr
                    if isinstance(e, ast.Attribute) and e.attr in attrs:
                        n += 1
                        chk.instance(rule)
                        chk.refute(rule, fkey(f, node) + "::with-shutdown", f"`with {norm(e)}:` in {f.qualname} shuts the file-operation pool down at the end of the block: the next load / save on the same Persistence object raises RuntimeError", ctx.loc(f, node))
    if n == 0:
        chk.instance(rule)
        chk.ok(rule, f"{pers.fq}::{','.join(sorted(attrs))}::never-shut-down", f"no `.shutdown(` / `with` on {sorted(attrs)} anywhere in the package", f"{pers.module.relpath}:{pers.node.lineno}")
