"""Resolved handler tables HT[V][cell] and helpers shared by C04, C06, C07, C10, C19."""

from __future__ import annotations

import ast

from ..interp import Absent, Callee, Const, Frame, UNKNOWN
from ..model import AnalysisError, FuncInfo, norm
from .common import Ctx

DISPATCH = "aiomysensors.model.protocol.get_incoming_message_handler"
DISPATCH_OUT = "aiomysensors.model.protocol.get_outgoing_message_handler"


def dispatch_calls(ctx: Ctx, f: FuncInfo, getter: str, within: ast.AST | None = None) -> list[ast.Call]:
    """Calls `h(...)` in f where h is the result of `getter(...)`: a local bound once to that call, or the call itself."""
    from .common import callee_names

    def from_getter(e) -> bool:
        return isinstance(e, ast.Call) and getter in callee_names(ctx, f, e)

    la = ctx.I.local_assigns(f)
    out = []
    nodes = list(ast.walk(within)) if within is not None else list(ctx.own_nodes(f))
    for n in nodes:
        if not isinstance(n, ast.Call):
            continue
        fn = n.func
        if isinstance(fn, ast.Name):
            vals = la.get(fn.id) or []
            if len(vals) == 1 and isinstance(vals[0], ast.expr) and from_getter(vals[0]):
                out.append(n)
        elif from_getter(fn):
            out.append(n)
        elif isinstance(fn, ast.Attribute):
            # the handler travels in a record built by a helper (`incoming.message_handler(...)`): look through it
            from ..prov import Canon

            try:
                t = Canon(ctx.I, f, "").tree(fn)
            except Exception:  # noqa: BLE001
                t = None
            if t is not None and from_getter(t):
                out.append(n)
    return out


def _idiom_call(ctx: Ctx, f: FuncInfo) -> ast.Call:
    calls = [c for g, c in ctx.I.dispatch_sites() if g is f]
    if len(calls) != 1:
        raise AnalysisError(f"dispatch idiom not recognised in {f.fq}: {len(calls)} getattr(…, f'…') site(s)")
    return calls[0]


def idiom_site(ctx: Ctx, fr: Frame, depth: int = 0):
    """(getattr idiom call, frame to evaluate it in) for the dispatcher running in frame fr: the idiom is in the
    function itself, or the function only delegates (`return helper(...)`) to the one that contains it."""
    f = fr.func
    calls = [c for g, c in ctx.I.dispatch_sites() if g is f]
    if len(calls) == 1:
        return calls[0], fr
    if not calls and depth < 3:
        rets = list(ctx.I.return_exprs(f))
        if len(rets) == 1 and isinstance(rets[0], ast.Name):
            # `handler: <annotation> = helper(...)` / `return handler`
            la = ctx.I.local_assigns(f).get(rets[0].id) or []
            if len(la) == 1 and isinstance(la[0], ast.Call):
                rets = [la[0]]
        if len(rets) == 1 and isinstance(rets[0], ast.Call):
            ts = [t for t in ctx.I.resolve_call(rets[0], fr) if t.kind == "repo" and t.frame is not None]
            if len(ts) == 1:
                return idiom_site(ctx, ts[0].frame, depth + 1)
    raise AnalysisError(f"dispatch idiom not recognised in {f.fq}: {len(calls)} getattr(…, f'…') site(s)")


def handler_cells(ctx: Ctx) -> dict:
    """{V: {cell: Callee | None}}; cell = ('cmd', name) | ('internal', value) | ('stream', value).

    None = the type exists in the enum but has no handler (accepted, returned unchanged);
    missing enum values are simply not cells (the gate raises UnsupportedMessageError).
    """
    cached = getattr(ctx, "_cells", None)
    if cached is not None:
        return cached
    I = ctx.I
    out: dict = {}
    disp = ctx.func(DISPATCH)
    for V in ctx.versions:
        cells: dict = {}
        call, fr = idiom_site(ctx, Frame(Callee(disp, None, ()), V))
        info = I.getattr_idiom_info(call, fr)
        if info is None:
            raise AnalysisError("incoming dispatch idiom not recognised")
        vals = I.eval(call, fr)
        if UNKNOWN in vals:
            raise AnalysisError("incoming dispatch idiom evaluates to UNKNOWN")
        cmd_cls = I.vclass(V, "Command")
        for value, name in I.folder.enum_canonical(cmd_cls).items():
            found = None
            for v in vals:
                if isinstance(v, Callee) and any(k == "@sel:message.command" and Const(value) in s for k, s in v.env):
                    found = v
            cells[("cmd", name)] = found
        # internal / stream sub-dispatch
        for kind, hname in (("internal", "handle_internal"), ("stream", "handle_stream")):
            top = cells.get(("cmd", kind))
            if top is None:
                continue
            raw = top.chain()[-1]
            # the def that contains the idiom (follow super chain)
            fdef = None
            for d in chain_defs(ctx, top, V):
                if any(g is d for g, _c in I.dispatch_sites()):
                    fdef = d
            if fdef is None:
                raise AnalysisError(f"{kind} dispatch idiom not found along the chain of {hname} in {V}")
            icall = _idiom_call(ctx, fdef)
            cls = I.vclass(V, "IncomingMessageHandler")
            ifr = Frame(Callee(fdef, cls, ()), V)
            ivals = I.eval(icall, ifr)
            if UNKNOWN in ivals:
                raise AnalysisError(f"{kind} dispatch idiom evaluates to UNKNOWN in {V}")
            enum_cls = I.vclass(V, "Internal" if kind == "internal" else "Stream")
            for value, name in I.folder.enum_canonical(enum_cls).items():
                found = None
                for v in ivals:
                    if isinstance(v, Callee) and any(k.startswith("@sel:") and Const(value) in s for k, s in v.env):
                        found = v
                cells[(kind, value)] = found
        out[V] = cells
    ctx._cells = out
    return out


def outgoing_cells(ctx: Ctx) -> dict:
    I = ctx.I
    out: dict = {}
    disp = ctx.func(DISPATCH_OUT)
    for V in ctx.versions:
        call, fr = idiom_site(ctx, Frame(Callee(disp, None, ()), V))
        vals = I.eval(call, fr)
        cells = {}
        cmd_cls = I.vclass(V, "Command")
        for value, name in I.folder.enum_canonical(cmd_cls).items():
            found = None
            for v in vals:
                if isinstance(v, Callee) and any(k == "@sel:message.command" and Const(value) in s for k, s in v.env):
                    found = v
            cells[("cmd", name)] = found
        out[V] = cells
    return out


def chain_defs(ctx: Ctx, callee: Callee, V: str) -> list[FuncInfo]:
    """Raw function definitions along wrapper -> def -> super().same(...) -> ... (wrappers included)."""
    I = ctx.I
    out: list[FuncInfo] = []
    seen = set()
    work = [callee]
    while work:
        c = work.pop(0)
        for link in c.chain():
            if link.func in seen:
                continue
            seen.add(link.func)
            out.append(link.func)
            fr = Frame(link, V)
            for n in ctx.own_nodes(link.func):
                if isinstance(n, ast.Call) and isinstance(n.func, ast.Attribute) and isinstance(n.func.value, ast.Call) and isinstance(n.func.value.func, ast.Name) and n.func.value.func.id == "super":
                    for t in I.resolve_call(n, fr):
                        if t.kind == "repo" and t.frame is not None:
                            work.append(t.frame.callee)
    return out


def chain_signature(ctx: Ctx, callee: Callee | None, V: str) -> list[str]:
    if callee is None:
        return []
    return [f.fq for f in chain_defs(ctx, callee, V)]


def all_handler_defs(ctx: Ctx, include_wrappers: bool = False) -> list[FuncInfo]:
    I = ctx.I
    out: list[FuncInfo] = []
    seen = set()
    for V in ctx.versions:
        cls = I.vclass(V, "IncomingMessageHandler")
        for c in cls.repo_mro():
            for fl in c.methods.values():
                for f in fl:
                    if f in seen or f.is_abstract():
                        continue
                    seen.add(f)
                    out.append(f)
                    if include_wrappers:
                        for dec in f.decorators:
                            d = I.decorator_def(f, dec)
                            if isinstance(d, FuncInfo):
                                w = I.wrapper_of(d)
                                if w not in seen:
                                    seen.add(w)
                                    out.append(w)
    return out


def reachable_defs(ctx: Ctx, callee: Callee, V: str, through_send: bool = True) -> list[tuple[FuncInfo, Frame]]:
    """All repository functions reachable from a callee in context V (call graph closure)."""
    I = ctx.I
    seen: dict = {}
    work = [Frame(callee, V)]
    while work:
        fr = work.pop()
        k = fr.key()
        if k in seen:
            continue
        seen[k] = fr
        for n in ctx.own_nodes(fr.func):
            if isinstance(n, ast.Call):
                if isinstance(n.func, ast.Name) and n.func.id in ("getattr", "isinstance", "cast", "super"):
                    if n.func.id != "getattr":
                        continue
                try:
                    ts = I.resolve_call(n, fr)
                except AnalysisError:
                    continue
                for t in ts:
                    if t.kind == "repo" and t.frame is not None:
                        work.append(t.frame)
                    elif t.kind == "ctor" and t.frame is not None:
                        work.append(t.frame)
    return [(fr.func, fr) for fr in seen.values()]


def call_paths(ctx: Ctx, start: Frame, target_fqs: set, limit: int = 20) -> list[list[tuple[Frame, ast.Call]]]:
    """Call-graph paths [(caller frame, call node), ...] from `start` to any function in target_fqs."""
    I = ctx.I
    out: list = []
    seen_frames: set = set()

    def rec(fr: Frame, path: list) -> None:
        if len(out) >= limit or len(path) > 25:
            return
        k = fr.key()
        if k in seen_frames:
            return
        seen_frames.add(k)
        for n in ctx.own_nodes(fr.func):
            if not isinstance(n, ast.Call):
                continue
            if isinstance(n.func, ast.Name) and n.func.id in ("isinstance", "cast", "super", "getattr"):
                continue
            try:
                ts = I.resolve_call(n, fr)
            except AnalysisError:
                continue
            for t in ts:
                if t.kind in ("repo", "ctor") and t.frame is not None:
                    step = path + [(fr, n)]
                    if t.frame.func.fq in target_fqs:
                        out.append(step)
                    else:
                        rec(t.frame, step)
        seen_frames.discard(k)

    rec(start, [])
    return out


def _always_raises(stmts: list) -> bool:
    """Every normal path through the statement list ends in a raise (conservative, syntax-directed)."""
    for st in stmts:
        if isinstance(st, ast.Raise):
            return True
        if isinstance(st, ast.If) and st.orelse and _always_raises(st.body) and _always_raises(st.orelse):
            return True
        if isinstance(st, (ast.With, ast.AsyncWith)) and _always_raises(st.body):
            return True
        if isinstance(st, ast.Try) and st.finalbody and _always_raises(st.finalbody):
            return True
        if isinstance(st, (ast.Return, ast.Continue, ast.Break)):
            return False
    return False


def _handler_always_raises(h: ast.ExceptHandler) -> bool:
    return _always_raises(h.body)


def catching_handler(ctx: Ctx, f: FuncInfo, node: ast.AST, exc: str):
    """The innermost try handler around `node` in f that catches `exc` and does not re-raise; or None."""
    eea = ctx.eea()
    fr = Frame(Callee(f, f.cls, ()), None)
    cur = node
    while cur in ctx.prog.parents and cur is not f.node:
        par = ctx.prog.parents[cur]
        if isinstance(par, ast.Try) and any(cur is b for b in par.body):
            for h in par.handlers:
                elts = h.type.elts if isinstance(h.type, ast.Tuple) else [h.type] if h.type is not None else []
                names = [eea.exc_class_of(x, fr) for x in elts] or ["builtins.BaseException"]
                if any(nm and eea.issub(exc, nm) for nm in names):
                    if not _handler_always_raises(h):
                        return h
                    break
        if isinstance(par, (ast.With, ast.AsyncWith)) and any(cur is b for b in par.body):
            for it in par.items:
                ce = it.context_expr
                if isinstance(ce, ast.Call) and norm(ce.func).endswith("suppress"):
                    for a in ce.args:
                        nm = eea.exc_class_of(a, fr)
                        if nm and eea.issub(exc, nm):
                            return par
        cur = par
    return None


def chain_and_helpers(ctx: Ctx, callee: Callee, V: str) -> list[FuncInfo]:
    """chain_defs plus the non-dispatch helper methods of the handler class that those definitions call
    (`cls._helper(...)`): a handler may delegate part of its work to a helper."""
    I = ctx.I
    out = list(chain_defs(ctx, callee, V))
    seen = set(out)
    work = list(out)
    while work:
        f = work.pop()
        if f.cls is None and f.parent is None:
            continue
        fr = Frame(Callee(f, callee.cls, ()), V)
        for n in ctx.own_nodes(f):
            if isinstance(n, ast.Call) and isinstance(n.func, ast.Attribute) and isinstance(n.func.value, ast.Name) and n.func.value.id in ("cls", "self") and not n.func.attr.startswith("handle_"):
                try:
                    ts = I.resolve_call(n, fr)
                except AnalysisError:
                    continue
                for t in ts:
                    if t.kind == "repo" and t.frame is not None and t.frame.func not in seen and t.frame.func.cls is not None and "MessageHandler" in t.frame.func.cls.name:
                        seen.add(t.frame.func)
                        out.append(t.frame.func)
                        work.append(t.frame.func)
    return out


def handler_state_rule(ctx: Ctx, chk, rule: str = "HANDLER-STATE-1") -> None:
    """The handler classes are stateless dispatch tables: one class object per version is shared by every gateway
    in the process and by all subclasses (newer versions), so anything remembered on the class leaks between
    protocol versions and between gateways."""
    chk.rule(rule, "the message handler classes (all versions, incoming and outgoing, and their base classes) keep no state: no class attribute holds a mutable container / cache, no method stores into `cls.<attr>` or `cls.<attr>[...]`, no method is wrapped by a memoising decorator - a handler resolved or a value remembered under one protocol version (or one gateway) would be used under another")
    I = ctx.I
    classes = []
    for V in ctx.versions:
        for cname in ("IncomingMessageHandler", "OutgoingMessageHandler"):
            c = I.vclass(V, cname)
            for k in c.repo_mro():
                if k not in classes:
                    classes.append(k)
    n = 0
    for c in classes:
        for name, val in c.attr_order:
            n += 1
            chk.instance(rule)
            key = f"{c.fq}.{name}::class-attribute"
            mutable = isinstance(val, (ast.Dict, ast.List, ast.Set, ast.DictComp, ast.ListComp, ast.SetComp)) or (isinstance(val, ast.Call) and norm(val.func).rsplit(".", 1)[-1] in ("dict", "list", "set", "defaultdict", "OrderedDict", "WeakKeyDictionary", "WeakValueDictionary", "deque", "Counter"))
            if mutable:
                chk.refute(rule, key, f"{c.name}.{name} = `{norm(val)[:50]}` is one mutable object on the class: it is shared by every protocol version that inherits from {c.name} and by every gateway in the process", f"{c.module.relpath}:{val.lineno}")
            else:
                chk.ok(rule, key, "immutable class attribute", f"{c.module.relpath}:{getattr(val, 'lineno', c.node.lineno)}", sample=False)
        for fl in c.methods.values():
            for f in fl:
                n += 1
                chk.instance(rule)
                key = f"{f.fq}::stateless"
                bad = None
                for d in f.decorator_names:
                    if d.split("(")[0].rsplit(".", 1)[-1] in ("cache", "lru_cache", "cached_property", "alru_cache"):
                        bad = (f.node, f"is memoised by @{d}")
                for node in ctx.own_nodes(f):
                    if isinstance(node, (ast.Assign, ast.AugAssign, ast.AnnAssign)):
                        targets = node.targets if isinstance(node, ast.Assign) else [node.target]
                        for t in targets:
                            base = t
                            while isinstance(base, (ast.Subscript, ast.Attribute)):
                                if isinstance(base, ast.Attribute) and isinstance(base.value, ast.Name) and base.value.id in ("cls",) or (isinstance(base, ast.Attribute) and isinstance(base.value, ast.Name) and base.value.id == "self" and f.cls is c):
                                    bad = (node, f"stores into `{norm(t)[:50]}`")
                                    break
                                base = base.value
                    elif isinstance(node, ast.NamedExpr):
                        pass
                    elif isinstance(node, ast.Call) and isinstance(node.func, ast.Attribute) and node.func.attr in ("setdefault", "update", "append", "add", "__setitem__") and isinstance(node.func.value, ast.Attribute) and isinstance(node.func.value.value, ast.Name) and node.func.value.value.id in ("cls", "self"):
                        bad = (node, f"mutates `{norm(node.func.value)}`")
                if bad is None:
                    chk.ok(rule, key, "no store on the class / instance, no memoisation", f.where, sample=False)
                else:
                    chk.refute(rule, key, f"{f.qualname} {bad[1]}: the handler classes are shared by all protocol versions (inheritance) and all gateways, so what is remembered under one version is used under another", ctx.loc(f, bad[0]))
    # module-level helpers of the handler modules: a memoised function is the same kind of shared state. Members of
    # different IntEnums are equal and hash alike when their numbers are (Internal(0) == Stream(0) == 0), so a cache
    # keyed by an enum member hands the answer computed for one table to the lookups of another
    mods = {c.module for c in classes}
    for m in mods:
        for f in ctx.prog.all_functions():
            if f.module is not m or f.cls is not None or f.parent is not None:
                continue
            for d in f.decorator_names:
                if d.split("(")[0].rsplit(".", 1)[-1] in ("cache", "lru_cache", "alru_cache"):
                    chk.instance(rule)
                    chk.refute(rule, f"{f.fq}::memoised-helper", f"{f.qualname} in a handler module is memoised by @{d}: its cache is shared by all protocol versions and gateways, and keys that are enum members collide across the Internal / Stream / SetReq / Presentation tables (equal numbers are equal keys) - a handler name computed for one table is returned for another", f.where)
    chk.floor(rule, "handler class attributes and methods", n, 25)


def dispatch_total_rule(ctx: Ctx, chk, which: str = "incoming", rule: str = "DISPATCH-TOTAL") -> None:
    """Every message goes through the protocol's handler table: the getter has no other way out."""
    chk.rule(rule, f"get_{which}_message_handler returns, on every normal path, the attribute of the active protocol's handler class looked up by the message's command name (the resolved handler table the other rules are decided on): no message property (ack flag, node id, ...) selects another handler or none")
    from ..cfg import CFG
    from ..prov import Canon

    f = ctx.func(DISPATCH if which == "incoming" else DISPATCH_OUT)
    fi = ctx.inl(f, lambda h: True)
    sites = [c for g_, c in ctx.I.dispatch_sites() if g_ is f or g_.qualname in getattr(fi, "inlined", [])]
    hops = 0
    while not sites and hops < 3:
        # the getter only hands over to the function / callable object that holds the lookup: every return of it must
        # be that one call; the rule is then decided on the function that does the lookup
        hops += 1
        rets = [n_ for n_ in ctx.own_nodes(f) if isinstance(n_, ast.Return)]
        tg = None
        if len(rets) == 1 and isinstance(rets[0].value, ast.Call):
            ts = [t for t in ctx.I.resolve_call(rets[0].value, Frame(Callee(f, f.cls, ()), ctx.versions[0])) if t.kind == "repo" and t.frame is not None]
            if len(ts) == 1:
                tg = ts[0].frame.func
        if tg is None:
            break
        chk.instance(rule)
        chk.ok(rule, f"{f.fq}::delegates", f"every return of {f.qualname} is the call of {tg.qualname}", ctx.loc(f, rets[0]), sample=False)
        f = tg
        fi = ctx.inl(f, lambda h: True)
        sites = [c for g_, c in ctx.I.dispatch_sites() if g_ is f or g_.qualname in getattr(fi, "inlined", [])]
    if not sites:
        raise AnalysisError(f"{rule}: dispatch idiom not found in {f.fq}")
    cn = Canon(ctx.I, fi, "")
    want = {cn.canon(c) for c in sites}
    g = CFG(fi.node)
    n = 0
    for x in g.nodes:
        if not isinstance(x.ast, ast.Return):
            continue
        n += 1
        chk.instance(rule)
        key = f"{f.fq}::{norm(x.ast)[:60]}"
        v = x.ast.value
        if v is not None and cn.canon(v) in want:
            chk.ok(rule, key, "returns the handler looked up in the protocol's handler class", ctx.loc(f, x.ast), sample=n <= 1)
        else:
            tests = [t for t in g.nodes if t.kind == "test" and g.dominates(t, x)]
            cond = f" (when `{norm(tests[-1].ast)[:50]}`)" if tests else ""
            chk.refute(rule, key, f"{f.qualname} can return `{norm(v)[:60] if v is not None else None}`{cond} instead of the handler of the protocol's table: such messages bypass registry updates, replies, the missing-node handling and the version query", ctx.loc(f, x.ast))
    chk.floor(rule, "return statements of the handler getter", n, 1)


def write_sync_rule(ctx: Ctx, chk, rule: str = "WRITE-SYNC") -> None:
    """Every Transport.write of the package performs its I/O before it returns and lets the failure out."""
    chk.rule(rule, "a transport write is finished - or has failed - when it returns: in every implementation of Transport.write and the methods of its class that it calls, nothing is started as an independent task (create_task / ensure_future / run_in_executor not awaited in place) and no except clause / suppress around the I/O catches a transport error or OSError without raising; otherwise write() returns normally for a message that never reached the peer, the caller (send, the flush) removes it from its buffer and the failure is reported - if at all - to somebody else, later")
    from .c16 import TASK_MAKERS
    from .common import callee_names

    I = ctx.I
    base = ctx.func("aiomysensors.transport.Transport.write")
    n = 0
    for w in I.implementations(base):
        # the methods of the transport class reachable from write (self.x(...) calls), write itself first
        funcs = [w]
        work = [w]
        while work:
            f = work.pop()
            for c in ctx.own_nodes(f):
                if isinstance(c, ast.Call) and isinstance(c.func, ast.Attribute) and isinstance(c.func.value, ast.Name) and c.func.value.id in ("self", "cls") and w.cls is not None:
                    for k in [w.cls] + list(ctx.prog.subclasses(w.cls)):
                        m = k.find_method(c.func.attr)
                        if m is not None and m not in funcs and not m.is_abstract() and len(funcs) < 12:
                            funcs.append(m)
                            work.append(m)
                # a coroutine of the class handed to a task maker: create_task(self._publish_x(...))
        for f in funcs:
            for c in ctx.own_nodes(f):
                if not isinstance(c, ast.Call):
                    continue
                kind = next((TASK_MAKERS[x] for x in callee_names(ctx, f, c) if x in TASK_MAKERS), None) if isinstance(c.func, (ast.Name, ast.Attribute)) else None
                if kind is not None and kind != "shield":
                    n += 1
                    chk.instance(rule)
                    key = f"{w.fq}::{f.name}::{norm(c)[:60]}::detached"
                    if isinstance(ctx.prog.parents.get(c), ast.Await):
                        chk.ok(rule, key, f"{kind} awaited in place", ctx.loc(f, c), sample=False)
                    else:
                        chk.refute(rule, key, f"`{norm(c)[:70]}` in {f.qualname} ({kind}) lets the I/O of a write run on after write() has returned: the caller treats the message as delivered (the flush forgets it), a failure can no longer be raised to the caller of send / listen that caused the write", ctx.loc(f, c))
            for h in [x for x in ctx.own_nodes(f) if isinstance(x, ast.ExceptHandler)]:
                tr = ctx.prog.parents.get(h)
                if not isinstance(tr, ast.Try) or not any(isinstance(x, ast.Await) for b in tr.body for x in ast.walk(b)):
                    continue
                fr = Frame(Callee(f, f.cls, ()), None)
                eea = ctx.eea()
                elts = h.type.elts if isinstance(h.type, ast.Tuple) else [h.type] if h.type is not None else []
                names = [eea.exc_class_of(x, fr) for x in elts] or ["builtins.BaseException"]
                catches = any(nm and (eea.issub("aiomysensors.exceptions.TransportFailedError", nm) or eea.issub("builtins.ConnectionResetError", nm) or eea.issub("aiomqtt.exceptions.MqttError", nm)) for nm in names)
                if not catches:
                    continue
                n += 1
                chk.instance(rule)
                key = f"{w.fq}::{f.name}::except {norm(h.type) if h.type is not None else ''}"
                if _handler_always_raises(h):
                    chk.ok(rule, key, "the failure is raised (translated) to the caller", ctx.loc(f, h), sample=n <= 2)
                else:
                    chk.refute(rule, key, f"`except {norm(h.type) if h.type is not None else ''}` in {f.qualname} takes the failure of the write's I/O and does not raise: write() returns normally although the message was not delivered", ctx.loc(f, h))
    chk.floor(rule, "task-starting calls and I/O handlers in transport writes", n, 2)
