"""Resolved handler tables HT[V][cell] and helpers shared by C04, C06, C07, C10, C19."""

from __future__ import annotations

import ast

from ..interp import Absent, Callee, Const, Frame, UNKNOWN
from ..model import AnalysisError, FuncInfo, norm
from .common import Ctx

DISPATCH = "aiomysensors.model.protocol.get_incoming_message_handler"
DISPATCH_OUT = "aiomysensors.model.protocol.get_outgoing_message_handler"


def dispatch_calls(ctx: Ctx, f: FuncInfo, getter: str, within: ast.AST | None = None) -> list[ast.Call]:
    """Calls `h(...)` in f where h is the result of `getter(...)`: a local bound once to that call, or the call itself."""
    from .common import callee_names

    def from_getter(e) -> bool:
        return isinstance(e, ast.Call) and getter in callee_names(ctx, f, e)

    la = ctx.I.local_assigns(f)
    out = []
    nodes = list(ast.walk(within)) if within is not None else list(ctx.own_nodes(f))
    for n in nodes:
        if not isinstance(n, ast.Call):
            continue
        fn = n.func
        if isinstance(fn, ast.Name):
            vals = la.get(fn.id) or []
            if len(vals) == 1 and isinstance(vals[0], ast.expr) and from_getter(vals[0]):
                out.append(n)
        elif from_getter(fn):
            out.append(n)
    return out


def _idiom_call(ctx: Ctx, f: FuncInfo) -> ast.Call:
    calls = [c for g, c in ctx.I.dispatch_sites() if g is f]
    if len(calls) != 1:
        raise AnalysisError(f"dispatch idiom not recognised in {f.fq}: {len(calls)} getattr(…, f'…') site(s)")
    return calls[0]


def handler_cells(ctx: Ctx) -> dict:
    """{V: {cell: Callee | None}}; cell = ('cmd', name) | ('internal', value) | ('stream', value).

    None = the type exists in the enum but has no handler (accepted, returned unchanged);
    missing enum values are simply not cells (the gate raises UnsupportedMessageError).
    """
    cached = getattr(ctx, "_cells", None)
    if cached is not None:
        return cached
    I = ctx.I
    out: dict = {}
    disp = ctx.func(DISPATCH)
    call = _idiom_call(ctx, disp)
    for V in ctx.versions:
        cells: dict = {}
        fr = Frame(Callee(disp, None, ()), V)
        info = I.getattr_idiom_info(call, fr)
        if info is None:
            raise AnalysisError("incoming dispatch idiom not recognised")
        vals = I.eval(call, fr)
        if UNKNOWN in vals:
            raise AnalysisError("incoming dispatch idiom evaluates to UNKNOWN")
        cmd_cls = I.vclass(V, "Command")
        for value, name in I.folder.enum_canonical(cmd_cls).items():
            found = None
            for v in vals:
                if isinstance(v, Callee) and any(k == "@sel:message.command" and Const(value) in s for k, s in v.env):
                    found = v
            cells[("cmd", name)] = found
        # internal / stream sub-dispatch
        for kind, hname in (("internal", "handle_internal"), ("stream", "handle_stream")):
            top = cells.get(("cmd", kind))
            if top is None:
                continue
            raw = top.chain()[-1]
            # the def that contains the idiom (follow super chain)
            fdef = None
            for d in chain_defs(ctx, top, V):
                if any(g is d for g, _c in I.dispatch_sites()):
                    fdef = d
            if fdef is None:
                raise AnalysisError(f"{kind} dispatch idiom not found along the chain of {hname} in {V}")
            icall = _idiom_call(ctx, fdef)
            cls = I.vclass(V, "IncomingMessageHandler")
            ifr = Frame(Callee(fdef, cls, ()), V)
            ivals = I.eval(icall, ifr)
            if UNKNOWN in ivals:
                raise AnalysisError(f"{kind} dispatch idiom evaluates to UNKNOWN in {V}")
            enum_cls = I.vclass(V, "Internal" if kind == "internal" else "Stream")
            for value, name in I.folder.enum_canonical(enum_cls).items():
                found = None
                for v in ivals:
                    if isinstance(v, Callee) and any(k.startswith("@sel:") and Const(value) in s for k, s in v.env):
                        found = v
                cells[(kind, value)] = found
        out[V] = cells
    ctx._cells = out
    return out


def outgoing_cells(ctx: Ctx) -> dict:
    I = ctx.I
    out: dict = {}
    disp = ctx.func(DISPATCH_OUT)
    call = _idiom_call(ctx, disp)
    for V in ctx.versions:
        fr = Frame(Callee(disp, None, ()), V)
        vals = I.eval(call, fr)
        cells = {}
        cmd_cls = I.vclass(V, "Command")
        for value, name in I.folder.enum_canonical(cmd_cls).items():
            found = None
            for v in vals:
                if isinstance(v, Callee) and any(k == "@sel:message.command" and Const(value) in s for k, s in v.env):
                    found = v
            cells[("cmd", name)] = found
        out[V] = cells
    return out


def chain_defs(ctx: Ctx, callee: Callee, V: str) -> list[FuncInfo]:
    """Raw function definitions along wrapper -> def -> super().same(...) -> ... (wrappers included)."""
    I = ctx.I
    out: list[FuncInfo] = []
    seen = set()
    work = [callee]
    while work:
        c = work.pop(0)
        for link in c.chain():
            if link.func in seen:
                continue
            seen.add(link.func)
            out.append(link.func)
            fr = Frame(link, V)
            for n in ctx.own_nodes(link.func):
                if isinstance(n, ast.Call) and isinstance(n.func, ast.Attribute) and isinstance(n.func.value, ast.Call) and isinstance(n.func.value.func, ast.Name) and n.func.value.func.id == "super":
                    for t in I.resolve_call(n, fr):
                        if t.kind == "repo" and t.frame is not None:
                            work.append(t.frame.callee)
    return out


def chain_signature(ctx: Ctx, callee: Callee | None, V: str) -> list[str]:
    if callee is None:
        return []
    return [f.fq for f in chain_defs(ctx, callee, V)]


def all_handler_defs(ctx: Ctx, include_wrappers: bool = False) -> list[FuncInfo]:
    I = ctx.I
    out: list[FuncInfo] = []
    seen = set()
    for V in ctx.versions:
        cls = I.vclass(V, "IncomingMessageHandler")
        for c in cls.repo_mro():
            for fl in c.methods.values():
                for f in fl:
                    if f in seen or f.is_abstract():
                        continue
                    seen.add(f)
                    out.append(f)
                    if include_wrappers:
                        for dec in f.decorators:
                            d = I.decorator_def(f, dec)
                            if isinstance(d, FuncInfo):
                                w = I.wrapper_of(d)
                                if w not in seen:
                                    seen.add(w)
                                    out.append(w)
    return out


def reachable_defs(ctx: Ctx, callee: Callee, V: str, through_send: bool = True) -> list[tuple[FuncInfo, Frame]]:
    """All repository functions reachable from a callee in context V (call graph closure)."""
    I = ctx.I
    seen: dict = {}
    work = [Frame(callee, V)]
    while work:
        fr = work.pop()
        k = fr.key()
        if k in seen:
            continue
        seen[k] = fr
        for n in ctx.own_nodes(fr.func):
            if isinstance(n, ast.Call):
                if isinstance(n.func, ast.Name) and n.func.id in ("getattr", "isinstance", "cast", "super"):
                    if n.func.id != "getattr":
                        continue
                try:
                    ts = I.resolve_call(n, fr)
                except AnalysisError:
                    continue
                for t in ts:
                    if t.kind == "repo" and t.frame is not None:
                        work.append(t.frame)
                    elif t.kind == "ctor" and t.frame is not None:
                        work.append(t.frame)
    return [(fr.func, fr) for fr in seen.values()]


def call_paths(ctx: Ctx, start: Frame, target_fqs: set, limit: int = 20) -> list[list[tuple[Frame, ast.Call]]]:
    """Call-graph paths [(caller frame, call node), ...] from `start` to any function in target_fqs."""
    I = ctx.I
    out: list = []
    seen_frames: set = set()

    def rec(fr: Frame, path: list) -> None:
        if len(out) >= limit or len(path) > 25:
            return
        k = fr.key()
        if k in seen_frames:
            return
        seen_frames.add(k)
        for n in ctx.own_nodes(fr.func):
            if not isinstance(n, ast.Call):
                continue
            if isinstance(n.func, ast.Name) and n.func.id in ("isinstance", "cast", "super", "getattr"):
                continue
            try:
                ts = I.resolve_call(n, fr)
            except AnalysisError:
                continue
            for t in ts:
                if t.kind in ("repo", "ctor") and t.frame is not None:
                    step = path + [(fr, n)]
                    if t.frame.func.fq in target_fqs:
                        out.append(step)
                    else:
                        rec(t.frame, step)
        seen_frames.discard(k)

    rec(start, [])
    return out


def catching_handler(ctx: Ctx, f: FuncInfo, node: ast.AST, exc: str):
    """The innermost try handler around `node` in f that catches `exc` and does not re-raise; or None."""
    eea = ctx.eea()
    fr = Frame(Callee(f, f.cls, ()), None)
    cur = node
    while cur in ctx.prog.parents and cur is not f.node:
        par = ctx.prog.parents[cur]
        if isinstance(par, ast.Try) and any(cur is b for b in par.body):
            for h in par.handlers:
                elts = h.type.elts if isinstance(h.type, ast.Tuple) else [h.type] if h.type is not None else []
                names = [eea.exc_class_of(x, fr) for x in elts] or ["builtins.BaseException"]
                if any(nm and eea.issub(exc, nm) for nm in names):
                    reraises = any(isinstance(x, ast.Raise) for x in h.body) or any(isinstance(x, ast.Raise) and x.exc is None for b in h.body for x in ast.walk(b))
                    if not reraises:
                        return h
                    break
        if isinstance(par, (ast.With, ast.AsyncWith)) and any(cur is b for b in par.body):
            for it in par.items:
                ce = it.context_expr
                if isinstance(ce, ast.Call) and norm(ce.func).endswith("suppress"):
                    for a in ce.args:
                        nm = eea.exc_class_of(a, fr)
                        if nm and eea.issub(exc, nm):
                            return par
        cur = par
    return None


def chain_and_helpers(ctx: Ctx, callee: Callee, V: str) -> list[FuncInfo]:
    """chain_defs plus the non-dispatch helper methods of the handler class that those definitions call
    (`cls._helper(...)`): a handler may delegate part of its work to a helper."""
    I = ctx.I
    out = list(chain_defs(ctx, callee, V))
    seen = set(out)
    work = list(out)
    while work:
        f = work.pop()
        if f.cls is None and f.parent is None:
            continue
        fr = Frame(Callee(f, callee.cls, ()), V)
        for n in ctx.own_nodes(f):
            if isinstance(n, ast.Call) and isinstance(n.func, ast.Attribute) and isinstance(n.func.value, ast.Name) and n.func.value.id in ("cls", "self") and not n.func.attr.startswith("handle_"):
                try:
                    ts = I.resolve_call(n, fr)
                except AnalysisError:
                    continue
                for t in ts:
                    if t.kind == "repo" and t.frame is not None and t.frame.func not in seen and t.frame.func.cls is not None and "MessageHandler" in t.frame.func.cls.name:
                        seen.add(t.frame.func)
                        out.append(t.frame.func)
                        work.append(t.frame.func)
    return out
