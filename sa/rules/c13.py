"""C13 Persistence round trip: load reads back every registry that save can write."""

from __future__ import annotations

import ast

from ..cfg import CFG
from ..model import Unfoldable, AnalysisError, ClassInfo, FuncInfo, norm
from ..prov import Canon
from . import codec
from .common import Ctx, fkey

NODE = "aiomysensors.model.node.Node"
CHILD = "aiomysensors.model.node.Child"
NODE_S = "aiomysensors.model.node.NodeSchema"
CHILD_S = "aiomysensors.model.node.ChildSchema"
PERS = "aiomysensors.persistence.Persistence"

# the statement: "identical id, type, version, sketch name and version, battery level, heartbeat, sleeping flag, description and values"
NODE_FIELDS = {"node_id": "Int", "node_type": "Int", "protocol_version": "Str", "children": "Dict", "sketch_name": "Str", "sketch_version": "Str", "battery_level": "Int", "heartbeat": "Int", "sleeping": "Bool"}
CHILD_FIELDS = {"child_id": "Int", "child_type": "Int", "description": "Str", "values": "Dict"}
KIND_ALIASES = {"Int": ("Int", "Integer"), "Str": ("Str", "String"), "Bool": ("Bool", "Boolean"), "Dict": ("Dict", "Mapping")}


def run(ctx: Ctx, chk) -> None:
    chk.assume("A3", "A5")
    chk.run_rule(schema_bij, ctx)
    chk.run_rule(valid_sym, ctx)
    chk.run_rule(legacy1, ctx)
    chk.run_rule(enc_sym, ctx)
    # "saving it and loading the file": every call of save writes the registry as it is at that call (same rule as C16)
    from .c16 import save_total

    chk.run_rule(save_total, ctx)
    # ... and save succeeds for every registry: the text it writes can always be encoded (same rule as C15)
    from .c15 import inplace3

    chk.run_rule(inplace3, ctx)
    # ... and a later load of the same Persistence object can still run its file operations
    from .orderedio import executor_alive

    chk.run_rule(executor_alive, ctx)


def stored_attrs(ctx: Ctx, c: ClassInfo) -> dict[str, str]:
    """attribute -> canonical source expression in __init__."""
    init = c.find_method("__init__")
    out = {}
    for st in init.node.body:
        if isinstance(st, (ast.Assign, ast.AnnAssign)):
            t = st.targets[0] if isinstance(st, ast.Assign) else st.target
            if isinstance(t, ast.Attribute) and isinstance(t.value, ast.Name) and t.value.id == init.positional_params[0] and st.value is not None:
                out[t.attr] = norm(st.value)
    return out


def schema_bij(ctx: Ctx, chk) -> None:
    rule = "SCHEMA-BIJ"
    chk.rule(rule, "schema fields = constructor parameters = attributes the constructor stores = the attribute list of the statement, for Node and Child; post_load rebuilds the object from exactly those fields; integer-keyed dicts are declared with Int keys (JSON makes keys strings); save and load key records by node_id")
    eea = ctx.eea()
    for cfq, sfq, want in ((NODE, NODE_S, NODE_FIELDS), (CHILD, CHILD_S, CHILD_FIELDS)):
        c = ctx.cls(cfq)
        s = ctx.cls(sfq)
        init = c.find_method("__init__")
        fields = eea.schema_field_names(s) or []
        params = [p for p in init.params if p != init.positional_params[0]]
        stored = stored_attrs(ctx, c)
        loc = f"{s.module.relpath}:{s.node.lineno}"
        for name in sorted(set(want) | set(fields) | set(params)):
            chk.instance(rule)
            key = f"{sfq}.{name}"
            probs = []
            if name not in want:
                probs.append("is not an attribute the statement lists")
            if name not in fields and name in want:
                probs.append(f"is not a field of {s.name}: it is lost on save")
            if name not in params and name in fields:
                probs.append(f"is not a parameter of {c.name}.__init__: loading a saved file fails")
            if name in params and name in want:
                src = stored.get(name)
                from .common import param_or_empty_forms

                ok_src = src in (name, f"int({name})") or src in param_or_empty_forms(name)
                if not ok_src:
                    probs.append(f"is stored as `{src}` by {c.name}.__init__ (not the given value)")
            if name in fields and name in want:
                rec = codec.field_decl(ctx, s, name)
                kind = rec["kind"].rsplit(".", 1)[-1] if rec else "?"
                if kind not in KIND_ALIASES[want[name]]:
                    probs.append(f"is declared fields.{kind}; the attribute is a {want[name]}")
                if want[name] == "Dict" and rec is not None:
                    kws = {kw.arg: kw.value for kw in rec["call"].keywords}
                    kk = kws.get("keys")
                    if kk is None or norm(kk.func if isinstance(kk, ast.Call) else kk).rsplit(".", 1)[-1] not in ("Int", "Integer"):
                        probs.append("has no Int key field: after JSON the keys come back as strings")
                    vv = kws.get("values")
                    if name == "children":
                        if not (isinstance(vv, ast.Call) and norm(vv.func).endswith("Nested") and vv.args and norm(vv.args[0]) == "ChildSchema"):
                            probs.append("values are not Nested(ChildSchema)")
                    elif name == "values":
                        if not (isinstance(vv, ast.Call) and norm(vv.func).rsplit(".", 1)[-1] in ("Str", "String")):
                            probs.append("values are not Str")
            if probs:
                chk.refute(rule, key, f"{c.name}.{name} " + "; ".join(probs), loc)
            else:
                chk.ok(rule, key, f"field = parameter = stored attribute ({want[name]})", loc, sample=name in ("node_id", "values"))
        # the transient reboot flag is not persisted (statement does not list it)
        extra = set(stored) - set(want) - {"reboot"}
        chk.instance(rule)
        if extra:
            chk.refute(rule, f"{cfq}::unsaved-attributes", f"{c.name} stores {sorted(extra)} which are neither saved nor listed by the statement", init.where)
        else:
            chk.ok(rule, f"{cfq}::unsaved-attributes", "only the transient reboot flag is not persisted", init.where, sample=False)
        # post_load
        chk.instance(rule)
        hooks = [f for fl in s.mro_methods().values() for f in fl if any(d.split("(")[0].split(".")[-1] == "post_load" for d in f.decorator_names)]
        ok = False
        if len(hooks) == 1:
            rets = [n for n in ctx.own_nodes(hooks[0]) if isinstance(n, ast.Return)]
            ok = len(rets) == 1 and isinstance(rets[0].value, ast.Call) and norm(rets[0].value.func) == c.name and not rets[0].value.args and len(rets[0].value.keywords) == 1 and rets[0].value.keywords[0].arg is None and norm(rets[0].value.keywords[0].value) == hooks[0].positional_params[1]
        if ok:
            chk.ok(rule, f"{sfq}::post_load", f"{c.name}(**data)", hooks[0].where)
        else:
            chk.refute(rule, f"{sfq}::post_load", f"{s.name} does not rebuild {c.name}(**data) from the loaded fields", loc)
    # save / load keying
    pers = ctx.cls(PERS)
    save = pers.find_method("save")
    load = pers.find_method("load")
    if save is None or load is None:
        raise AnalysisError("anchor vanished: Persistence.save/load")
    save, load = ctx.inl(save), ctx.inl(load)
    chk.instance(rule)
    cs = Canon(ctx.I, save)
    st = [n for n in ctx.own_nodes(save) if isinstance(n, ast.Assign) and isinstance(n.targets[0], ast.Subscript)]
    loops = [n for n in ctx.own_nodes(save) if isinstance(n, ast.For)]
    comps = [n for n in ctx.own_nodes(save) if isinstance(n, ast.DictComp)]
    records_name = None
    ok = False
    if len(st) == 1 and len(loops) == 1:
        v0 = cs.tree(st[0].value)  # a local holding the dumped record is written out
        ok = cs.canon(loops[0].iter) == "self.nodes.values()" and isinstance(loops[0].target, ast.Name) and norm(st[0].targets[0].slice) == f"{loops[0].target.id}.node_id" and isinstance(v0, ast.Call) and norm(v0.func).endswith(".dump") and len(v0.args) == 1 and norm(v0.args[0]) == loops[0].target.id
        records_name = norm(st[0].targets[0].value)
        where = st[0]
    elif len(comps) == 1 and not st:
        c = comps[0]
        g0 = c.generators[0] if len(c.generators) == 1 else None
        ok = g0 is not None and not g0.ifs and cs.canon(g0.iter) == "self.nodes.values()" and isinstance(g0.target, ast.Name) and norm(c.key) == f"{g0.target.id}.node_id" and isinstance(c.value, ast.Call) and norm(c.value.func).endswith(".dump") and norm(c.value.args[0]) == g0.target.id
        par = ctx.prog.parents.get(c)
        records_name = norm(par.targets[0]) if isinstance(par, ast.Assign) else None
        where = c
    else:
        where = save.node
        # neither a loop that fills a dict nor a dict comprehension in save (the records are built by an object /
        # helper that is not written out): nothing here says the records are wrong - layout not modelled
        raise AnalysisError(f"SCHEMA-BIJ: Persistence.save builds its records neither in a loop nor in a dict comprehension of its own ({len(st)} keyed stores, {len(loops)} loops, {len(comps)} comprehensions): layout not modelled")
    if ok:
        chk.ok(rule, f"{save.fq}::records", "data[node.node_id] = schema.dump(node) for every node", ctx.loc(save, where))
    else:
        chk.refute(rule, f"{save.fq}::records", "save does not dump every node of the registry under its node_id", save.where)
    chk.instance(rule)
    dumps = [n for n in ctx.own_nodes(save) if isinstance(n, ast.Call) and norm(n.func) == "json.dumps"]
    writes = [n for n in ctx.own_nodes(save) if isinstance(n, ast.Call) and isinstance(n.func, ast.Attribute) and n.func.attr == "write"]
    wok = len(dumps) == 1 and len(writes) == 1 and records_name is not None and norm(dumps[0].args[0]) == records_name
    if wok:
        a0 = writes[0].args[0] if writes[0].args else None
        if isinstance(a0, ast.Name):
            la = ctx.I.local_assigns(save).get(a0.id) or []
            wok = len(la) == 1 and la[0] is dumps[0]
        else:
            wok = a0 is dumps[0]
    if wok:
        chk.ok(rule, f"{save.fq}::write", "the JSON text of all records is written", ctx.loc(save, writes[0]), sample=False)
    else:
        chk.refute(rule, f"{save.fq}::write", "save does not write json.dumps(<all records>)", save.where)
    chk.instance(rule)
    cl = Canon(ctx.I, load)
    stl = [n for n in ctx.own_nodes(load) if isinstance(n, ast.Assign) and isinstance(n.targets[0], ast.Subscript) and cl.canon(n.targets[0].value) == "self.nodes"]
    okl = len(stl) == 1 and isinstance(stl[0].value, ast.Name) and norm(stl[0].targets[0].slice) == f"{stl[0].value.id}.node_id"
    if okl:
        chk.ok(rule, f"{load.fq}::records", "self.nodes[node.node_id] = node", ctx.loc(load, stl[0]))
    else:
        chk.refute(rule, f"{load.fq}::records", "load does not register every loaded node under its node_id in the shared registry", load.where)


def enc_sym(ctx: Ctx, chk) -> None:
    rule = "ENC-SYM"
    chk.rule(rule, "save and load open the persistence file with the same text encoding (both the platform default, or the same explicit encoding) and the same newline/errors policy: a registry holding non-ASCII text written under one encoding is not read back under another")
    from .c15 import OPENERS
    from .common import callee_names

    pers = ctx.cls(PERS)
    found = {}
    for name in ("save", "load"):
        f = pers.find_method(name)
        if f is None:
            raise AnalysisError(f"anchor vanished: Persistence.{name}")
        fi = ctx.inl(f)
        opens = [n for n in ctx.own_nodes(fi) if isinstance(n, ast.Call) and any(o in callee_names(ctx, f, n) for o in OPENERS)]
        if len(opens) != 1:
            raise AnalysisError(f"ENC-SYM: expected one open() in Persistence.{name}, found {len(opens)}")
        o = opens[0]
        opts = {}
        pos = ("file", "mode", "buffering", "encoding", "errors", "newline")
        for i, a in enumerate(o.args):
            if i < len(pos):
                opts[pos[i]] = a
        for kw in o.keywords:
            if kw.arg:
                opts[kw.arg] = kw.value
        rec = {}
        for k in ("encoding", "errors", "newline"):
            if k in opts:
                try:
                    v = ctx.folder.plain(ctx.folder.fold(f.module, opts[k]))
                except Unfoldable:
                    raise AnalysisError(f"ENC-SYM: cannot fold {k}= of the open() in Persistence.{name}") from None
                if k == "encoding" and isinstance(v, str):
                    v = v.lower().replace("-", "").replace("_", "")
                rec[k] = v
            else:
                rec[k] = None
        found[name] = (rec, f, o)
    chk.instance(rule)
    (rs, fs, os_), (rl, fl, ol) = found["save"], found["load"]
    key = f"{PERS}::save/load::text-encoding"
    # json.dumps escapes everything outside ASCII unless ensure_ascii=False: then any ASCII-compatible pair agrees
    dumps = [n for n in ctx.own_nodes(ctx.inl(fs)) if isinstance(n, ast.Call) and norm(n.func).endswith("dumps")]
    ascii_only = bool(dumps)
    for d_ in dumps:
        for kw in d_.keywords:
            if kw.arg == "ensure_ascii" and not (isinstance(kw.value, ast.Constant) and kw.value.value is True):
                ascii_only = False
            if kw.arg is None:
                ascii_only = False
    compat = {None, "utf8", "ascii", "usascii", "latin1", "iso88591", "cp1252", "utf8sig"}
    if rs != rl and ascii_only and rs["encoding"] in compat and rl["encoding"] in compat - {"utf8sig"} and rs["errors"] == rl["errors"] and rs["newline"] == rl["newline"]:
        chk.ok(rule, key, f"save writes pure ASCII (json.dumps escapes the rest) and both encodings ({rs['encoding']!r}, {rl['encoding']!r}) are ASCII-compatible", ctx.loc(fs, os_))
    elif rs == rl:
        chk.ok(rule, key, f"both open with encoding={rs['encoding']!r}, errors={rs['errors']!r}, newline={rs['newline']!r}", ctx.loc(fs, os_))
    else:
        chk.refute(rule, key, f"save opens the file with {rs} but load with {rl}: what was saved is decoded differently when it is loaded (non-ASCII sketch names / descriptions / values come back changed, or the file is refused)", ctx.loc(fs, os_))


def valid_sym(ctx: Ctx, chk) -> None:
    rule = "VALID-SYM"
    chk.rule(rule, "every validator on a load-side field holds for every value a writer can put into that attribute: each store site of a validated attribute is dominated by an equivalent range check, or takes a value from a field with the same validator, or a constant inside the range")
    n = 0
    for cfq, sfq in ((NODE, NODE_S), (CHILD, CHILD_S)):
        c = ctx.cls(cfq)
        s = ctx.cls(sfq)
        for name in ctx.eea().schema_field_names(s) or []:
            rec = codec.field_decl(ctx, s, name)
            if rec is None or rec["validate"] is None:
                continue
            v = rec["validate"]
            if v.get("kind") != "Range":
                # any other validator (a function, Length, Regexp, OneOf ...): it holds for every stored value only if
                # no writer stores an unvalidated value there.  A value taken from a received message or computed from
                # one is not known to satisfy it - constants cannot be judged without running the validator
                undecided = []
                refuted = False
                for f, node, val in writers_of(ctx, c, name):
                    n += 1
                    chk.instance(rule)
                    key = f"{f.fq}::{name}::{norm(node)[:70]}"
                    cv = Canon(ctx.I, f).canon(val)
                    is_const = False
                    try:
                        ast.literal_eval(cv)
                        is_const = True
                    except (ValueError, SyntaxError):
                        pass
                    if is_const:
                        undecided.append((f, node, cv))
                        continue
                    refuted = True
                    chk.refute(rule, key, f"{f.qualname} stores `{cv[:60]}` into {c.name}.{name} as it arrives, but {s.name} now validates that field on load with `{str(v.get('text'))[:60]}`: a value the network can report and the registry holds, yet the validator refuses, is saved into a file that the next start cannot load (or load raises whatever the validator raises)", ctx.loc(f, node))
                if undecided and not refuted:
                    raise AnalysisError(f"VALID-SYM: validator {v.get('text')} on {sfq}.{name} is only fed constants ({[u[2] for u in undecided][:3]}): not decidable without running it")
                for f, node, cv in undecided:
                    chk.ok(rule, f"{f.fq}::{name}::{norm(node)[:70]}", f"constant {cv} (not judged: the field is refuted through its other writers)", ctx.loc(f, node), sample=False)
                continue
            lo, hi = v.get("min"), v.get("max")
            for f, node, val in writers_of(ctx, c, name):
                n += 1
                chk.instance(rule)
                key = f"{f.fq}::{name}::{norm(node)[:70]}"
                ok, why = value_within(ctx, f, node, val, lo, hi)
                if ok:
                    chk.ok(rule, key, why, ctx.loc(f, node), sample=n <= 3)
                else:
                    chk.refute(rule, key, f"{f.qualname} stores `{norm(val)[:60]}` into {c.name}.{name} without ensuring {lo} <= value <= {hi}, but {s.name} rejects values outside that range on load: a registry reachable from received messages is saved into a file that the next start refuses ({why})", ctx.loc(f, node))
    chk.floor(rule, "writers of validated attributes", n, 3)


def writers_of(ctx: Ctx, c: ClassInfo, attr: str):
    """(function, node, value expr) for attribute stores on instances of c and constructor arguments for attr."""
    out = []
    init = c.find_method("__init__")
    pos = init.positional_params[1:]
    for f in ctx.prog.all_functions():
        if f.module.name.startswith("aiomysensors.cli"):
            continue
        for node in ctx.own_nodes(f):
            if isinstance(node, (ast.Assign, ast.AnnAssign, ast.AugAssign)) and f is not init:
                targets = node.targets if isinstance(node, ast.Assign) else [node.target]
                for t in targets:
                    if isinstance(t, ast.Attribute) and t.attr == attr and (ctx.prog.type_of(f.module, t.value) or "").split(" | ")[0] == c.fq:
                        out.append((f, node, node.value))
            if isinstance(node, ast.Call):
                fact = ctx.prog.call_fact(f.module, node)
                if fact and fact[0] == c.fq:
                    val = None
                    if attr in pos and pos.index(attr) < len(node.args):
                        val = node.args[pos.index(attr)]
                    for kw in node.keywords:
                        if kw.arg == attr:
                            val = kw.value
                        if kw.arg is None:
                            val = None  # C(**data): comes from the schema itself
                    if val is not None:
                        out.append((f, node, val))
    return out


def value_within(ctx: Ctx, f: FuncInfo, node: ast.AST, val: ast.expr, lo, hi):
    cn = Canon(ctx.I, f)
    c = cn.canon(val)
    # constant
    try:
        k = ast.literal_eval(c)
        if isinstance(k, (int, float)) and not isinstance(k, bool):
            if (lo is None or k >= lo) and (hi is None or k <= hi):
                return True, f"constant {k} within [{lo}, {hi}]"
            return False, f"constant {k} outside [{lo}, {hi}]"
    except (ValueError, SyntaxError):
        pass
    # a decoded message field carrying the same validator
    if c.startswith("In."):
        fld = c[3:]
        rec = codec.field_decl(ctx, ctx.cls(codec.SCHEMA), fld)
        v = rec["validate"] if rec else None
        if v and v.get("kind") == "Range" and (lo is None or (v.get("min") is not None and v["min"] >= lo)) and (hi is None or (v.get("max") is not None and v["max"] <= hi)):
            return True, f"message field {fld} is validated to [{v.get('min')}, {v.get('max')}] by the codec"
        return False, f"message field {fld} is not range-checked by the codec"
    # a local with a dominating range check (raise on the failing side)
    if isinstance(val, ast.Name):
        g = CFG(f.node)
        st = node
        while st in ctx.prog.parents and not isinstance(st, ast.stmt):
            st = ctx.prog.parents[st]
        snodes = g.nodes_of(st)
        for t in g.nodes:
            if t.kind != "test" or not snodes or not all(g.dominates(t, s) for s in snodes):
                continue
            rng = range_of_test(ctx, f, t.ast, val.id)
            if rng is None:
                continue
            (tlo, thi), sense = rng
            # sense True: test true means inside; the store must be only on that side
            other = [s for s, lab in t.succ if lab == ("f" if sense else "t")]
            if g.reach_avoiding(other, lambda x: x in snodes, lambda x, t=t: x is t, from_succ=False) is not None:
                continue
            if (lo is None or (tlo is not None and tlo >= lo)) and (hi is None or (thi is not None and thi <= hi)):
                return True, f"dominated by the range check `{norm(t.ast)}`"
        # upper bound from a dominating `v > K -> raise` test (C11 RANGE-1), lower bound from the expression shape
        la = ctx.I.local_assigns(f).get(val.id) or []
        rebinds: list = []
        if len(la) > 1 and all(isinstance(v_, ast.expr) for v_ in la):
            # several bindings (a candidate and its fallback): each must be bounded on its own
            from .c11 import range_pick

            extras = sorted(la, key=lambda v_: v_.lineno)[1:]
            picks = [range_pick(ctx, f, v_) for v_ in extras]
            if picks and all(p_ is not None and (lo is None or p_[0] >= lo) and (hi is None or p_[1] - 1 <= hi) for p_ in picks):
                la = [sorted(la, key=lambda v_: v_.lineno)[0]]
                for v_ in extras:
                    st_ = ctx.prog.parents.get(v_)
                    rebinds += g.nodes_of(st_) if st_ is not None else []
        if len(la) == 1 and isinstance(la[0], ast.expr):
            # the first element of a constant range
            from .c11 import search_shape

            sh = search_shape(ctx, f, la[0])
            if sh is not None and sh[2] is None:
                rlo, rhi = sh[0], sh[1] - 1
                if (lo is None or rlo >= lo) and (hi is None or rhi <= hi):
                    return True, f"an element of range({sh[0]}, {sh[1]})"
            low = lower_bound(cn.tree(la[0]))
            from .c11 import interval_truth

            for t in g.nodes:
                if t.kind == "test" and snodes and all(g.dominates(t, s) for s in snodes):
                    iv = interval_truth(ctx, f, t.ast, val.id)
                    if iv is None:
                        continue
                    # the store must be on the false branch (test true -> raise)
                    true_starts = [s2 for s2, lab in t.succ if lab == "t"]
                    # (a path on which the value is re-bound to a bounded fallback first does not count)
                    if g.reach_avoiding(true_starts, lambda x: x in snodes, lambda x, t=t: x is t or x in rebinds, from_succ=False) is not None:
                        continue
                    upper = iv[0] - 1
                    if low is not None and (lo is None or low >= lo) and (hi is None or upper <= hi):
                        return True, f"value in [{low}, {upper}] (shape of `{norm(la[0])[:40]}`, range check `{norm(t.ast)}`)"
    # a value that comes out of repository code this rule does not look into (a method of a collaborator object, the
    # conversion of a value object ...) is not known to be unbounded: no verdict
    try:
        tr_ = ast.parse(c, mode="eval").body
    except SyntaxError:
        tr_ = None
    if tr_ is not None:
        for n_ in ast.walk(tr_):
            if isinstance(n_, ast.Call) and not isinstance(n_.func, ast.Lambda):
                nm_ = n_.func.id if isinstance(n_.func, ast.Name) else n_.func.attr if isinstance(n_.func, ast.Attribute) else ""
                if nm_ not in ("int", "float", "round", "str", "len", "min", "max", "abs", "bool", "next", "iter", "range", "sorted", "sum", "divmod", "pow", "get", "keys", "values", "items", "strip", "lstrip", "rstrip", "split", "trunc", "floor", "ceil"):
                    raise AnalysisError(f"VALID-SYM: the value stored at {ctx.loc(f, val)} is `{c[:70]}`: what `{nm_}(...)` returns is not modelled by the range argument")
    return False, f"value `{c[:60]}` is unbounded"


def lower_bound(e: ast.expr):
    """A lower bound of an integer expression built from len(), max() over the registry keys (>= 0), constants, + and conditional."""
    if isinstance(e, ast.Constant) and isinstance(e.value, int) and not isinstance(e.value, bool):
        return e.value
    if isinstance(e, ast.Call) and norm(e.func) == "len":
        return 0
    if isinstance(e, ast.Call) and norm(e.func) in ("max", "min") and len(e.args) == 1 and norm(e.args[0]) in ("gateway.nodes", "gateway.nodes.keys()"):
        return 0  # registry keys are node ids, validated >= 0 wherever they enter (VALID-SYM on node_id itself)
    if isinstance(e, ast.BinOp) and isinstance(e.op, ast.Add):
        a, b = lower_bound(e.left), lower_bound(e.right)
        return None if a is None or b is None else a + b
    if isinstance(e, ast.IfExp):
        a, b = lower_bound(e.body), lower_bound(e.orelse)
        return None if a is None or b is None else min(a, b)
    return None


def range_of_test(ctx: Ctx, f: FuncInfo, test: ast.expr, var: str):
    """((lo, hi), sense): test true <=> lo <= var <= hi (sense True) or test true <=> outside (sense False)."""
    neg = False
    t = test
    while isinstance(t, ast.UnaryOp) and isinstance(t.op, ast.Not):
        neg = not neg
        t = t.operand

    def const(x):
        try:
            v = ctx.folder.plain(ctx.folder.fold(f.module, x))
            return v if isinstance(v, (int, float)) and not isinstance(v, bool) else None
        except Exception:  # noqa: BLE001
            return None

    # lo <= var <= hi
    if isinstance(t, ast.Compare) and len(t.ops) == 2 and isinstance(t.comparators[0], ast.Name) and t.comparators[0].id == var and all(isinstance(o, (ast.LtE, ast.Lt)) for o in t.ops):
        lo, hi = const(t.left), const(t.comparators[1])
        if lo is None or hi is None:
            return None
        if isinstance(t.ops[0], ast.Lt):
            lo += 1
        if isinstance(t.ops[1], ast.Lt):
            hi -= 1
        return (lo, hi), not neg
    # var < lo or var > hi
    if isinstance(t, ast.BoolOp) and isinstance(t.op, ast.Or) and len(t.values) == 2:
        lo = hi = None
        for c in t.values:
            if isinstance(c, ast.Compare) and len(c.ops) == 1 and isinstance(c.left, ast.Name) and c.left.id == var:
                k = const(c.comparators[0])
                if k is None:
                    return None
                if isinstance(c.ops[0], ast.Lt):
                    lo = k
                elif isinstance(c.ops[0], ast.LtE):
                    lo = k + 1
                elif isinstance(c.ops[0], ast.Gt):
                    hi = k
                elif isinstance(c.ops[0], ast.GtE):
                    hi = k - 1
        if lo is not None and hi is not None:
            return (lo, hi), neg
    # var in range(lo, hi)
    if isinstance(t, ast.Compare) and len(t.ops) == 1 and isinstance(t.ops[0], (ast.In, ast.NotIn)) and isinstance(t.left, ast.Name) and t.left.id == var:
        r = t.comparators[0]
        if isinstance(r, ast.Call) and norm(r.func) == "range" and len(r.args) in (1, 2):
            lo = const(r.args[0]) if len(r.args) == 2 else 0
            hi = const(r.args[-1])
            if lo is not None and hi is not None:
                sense = isinstance(t.ops[0], ast.In)
                return (lo, hi - 1), (sense != neg)
    return None


def legacy1(ctx: Ctx, chk) -> None:
    rule = "LEGACY-1"
    chk.rule(rule, "the pre-load translation of the legacy pymysensors layout, evaluated abstractly over every assignment of {absent, null, falsy value, truthy value} to the legacy keys, is exactly: sensor_id -> node_id, type -> node_type (null -> 18, every other value kept), null sketch name/version -> '' (other values kept), id -> child_id, type -> child_type; all other keys untouched")
    from . import dictxform as dx

    def node_spec(d: dict) -> dict:
        out = dict(d)
        if "sensor_id" in out:
            out["node_id"] = out.pop("sensor_id")
        if "type" in out:
            v = out.pop("type")
            out["node_type"] = ("const", 18) if v == dx.NONE else v
        for k in ("sketch_name", "sketch_version"):
            if k in out and out[k] == dx.NONE:
                out[k] = ("const", "")
        return out

    def child_spec(d: dict) -> dict:
        out = dict(d)
        if "id" in out:
            out["child_id"] = out.pop("id")
        if "type" in out:
            out["child_type"] = out.pop("type")
        return out

    want = {
        NODE_S: (["sensor_id", "type", "sketch_name", "sketch_version"], {"protocol_version": ("in", "protocol_version", True), "children": ("in", "children", False)}, node_spec),
        CHILD_S: (["id", "type", "description"], {"values": ("in", "values", False)}, child_spec),
    }
    for sfq, (keys, extra, spec) in want.items():
        s = ctx.cls(sfq)
        hooks = [f for fl in s.mro_methods().values() for f in fl if any(d.split("(")[0].split(".")[-1] == "pre_load" for d in f.decorator_names)]
        if len(hooks) != 1:
            raise AnalysisError(f"LEGACY-1: expected one pre_load hook on {s.name}")
        f = ctx.inl(hooks[0], lambda h: h.cls is None or h.name.startswith("_"))  # conversion helpers of any name: module functions, private methods
        n = 0
        bad = None
        for inp in dx.input_partition(keys, extra):
            n += 1
            got = dx.Xform(ctx, f).run(inp)
            exp = spec(inp)
            # the only falsy value of a text field is '' itself: `value or ''` leaves it unchanged
            for k in ("sketch_name", "sketch_version", "description"):
                for dd in (got, exp):
                    if dd.get(k) == ("in", k, False):
                        dd[k] = ("const", "")
            if got != exp:
                # keep the most telling counterexample: fewest nulls, then fewest keys
                score = (sum(1 for v_ in inp.values() if v_ == dx.NONE), len(inp))
                if bad is None or score < bad[3]:
                    bad = (inp, got, exp, score)
        chk.instance(rule)
        key = f"{f.fq}::translation"
        if bad is None:
            chk.ok(rule, key, f"{n} abstract inputs translated as specified", f.where)
        else:
            inp, got, exp, _score = bad
            chk.refute(rule, key, f"{s.name}.{f.name} translates {dx.show(inp)} into {dx.show(got)}; the legacy layout requires {dx.show(exp)}", f.where)
        chk.notes.setdefault("legacy_inputs", {})[s.name] = n
