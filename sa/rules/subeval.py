"""Partial evaluation of MQTTTransport.connect for the subscriptions it makes.

The statements of `connect` (and of the private helpers / generator methods it calls) are *interpreted* - never
executed - over concrete Python constants plus one symbol: the configured in-prefix, represented by a sentinel
character inside ordinary strings.  Every `self._subscribe(topic, qos)` evaluated on the way is recorded together
with whether the coroutine object reaches an `await` (directly or through `asyncio.gather`).  Whatever statement
shape produces the calls (literal list + loop, comprehension, generator method, NamedTuple records, helper for
the qos), the result is the same list of (topic, awaited) pairs, which TOPIC-MAP compares with the statement.

Anything outside the modelled fragment raises Unsupported: the caller falls back to the shape-based reading or
reports an analysis error - never a verdict from a half-understood program.
"""

from __future__ import annotations

import ast

from ..model import FuncInfo, norm

PREFIX = "\x00P\x00"

STR_METHODS = ("split", "rsplit", "join", "strip", "rstrip", "lstrip", "lower", "upper", "replace", "partition", "rpartition", "startswith", "endswith", "removeprefix", "removesuffix", "format")


class Unsupported(Exception):
    pass


class _PyExc(Exception):
    def __init__(self, name: str) -> None:
        super().__init__(name)
        self.name = name


class _Return(Exception):
    def __init__(self, value) -> None:
        self.value = value


class _Opaque:
    def __repr__(self) -> str:
        return "<opaque>"


OPAQUE = _Opaque()


class TailList(list):
    """Result of splitting a string that starts with the (unknown) prefix: only its tail is known."""


class Token:
    def __init__(self, topic, qos, node) -> None:
        self.topic, self.qos, self.node = topic, qos, node
        self.awaited = False


class Record(dict):
    pass


_EXC_PARENTS = {"ValueError": ("Exception", "BaseException"), "TypeError": ("Exception", "BaseException"), "KeyError": ("LookupError", "Exception", "BaseException"), "IndexError": ("LookupError", "Exception", "BaseException")}


class SubEval:
    def __init__(self, ctx, cls) -> None:
        self.ctx = ctx
        self.cls = cls
        self.tokens: list[Token] = []
        self.steps = 0
        self._reach_cache: dict = {}

    # ------------------------------------------------------------------ entry
    def run(self, f: FuncInfo) -> list[Token]:
        self.call(f, {"self": "SELF"})
        return self.tokens

    def call(self, f: FuncInfo, env: dict):
        is_gen = any(isinstance(n, (ast.Yield, ast.YieldFrom)) for n in self.ctx.own_nodes(f))
        fr = {"env": env, "f": f, "yields": []}
        try:
            self.block(f.node.body, fr)
            ret = None
        except _Return as r:
            ret = r.value
        return fr["yields"] if is_gen else ret

    def reaches_subscribe(self, f: FuncInfo, seen=None) -> bool:
        if f in self._reach_cache:
            return self._reach_cache[f]
        seen = seen or set()
        if f in seen:
            return False
        seen.add(f)
        out = False
        for n in self.ctx.own_nodes(f):
            if isinstance(n, ast.Call):
                if isinstance(n.func, ast.Attribute) and n.func.attr == "_subscribe":
                    out = True
                    break
                h = self.callee(n, f)
                if h is not None and self.reaches_subscribe(h, seen):
                    out = True
                    break
        self._reach_cache[f] = out
        return out

    def callee(self, call: ast.Call, f: FuncInfo) -> FuncInfo | None:
        fn = call.func
        if isinstance(fn, ast.Attribute) and isinstance(fn.value, ast.Name) and fn.value.id in ("self", "cls"):
            return self.cls.find_method(fn.attr)
        if isinstance(fn, ast.Name):
            d = self.ctx.prog.resolve_name(f.module, fn.id)
            if d is not None and d.kind == "func":
                return d.obj
        return None

    # ------------------------------------------------------------------ statements
    def block(self, stmts, fr) -> None:
        for s in stmts:
            self.steps += 1
            if self.steps > 20000:
                raise Unsupported("evaluation did not terminate")
            self.stmt(s, fr)

    def assign(self, t, v, fr) -> None:
        if isinstance(t, ast.Name):
            fr["env"][t.id] = v
        elif isinstance(t, (ast.Tuple, ast.List)) and isinstance(v, (list, tuple)) and len(v) == len(t.elts) and not isinstance(v, TailList):
            for x, y in zip(t.elts, v):
                self.assign(x, y, fr)
        else:
            raise Unsupported(f"assignment target `{norm(t)[:40]}`")

    def stmt(self, s, fr) -> None:
        if isinstance(s, ast.Expr):
            if isinstance(s.value, ast.Constant):
                return
            if isinstance(s.value, ast.Yield):
                fr["yields"].append(self.ev(s.value.value, fr) if s.value.value is not None else None)
                return
            if isinstance(s.value, ast.YieldFrom):
                v = self.ev(s.value.value, fr)
                if not isinstance(v, (list, tuple)):
                    raise Unsupported("yield from a non-sequence")
                fr["yields"].extend(v)
                return
            self.ev(s.value, fr)
            return
        if isinstance(s, ast.Pass):
            return
        if isinstance(s, ast.Assign):
            v = self.ev(s.value, fr)
            for t in s.targets:
                self.assign(t, v, fr)
            return
        if isinstance(s, ast.AnnAssign):
            if s.value is not None:
                self.assign(s.target, self.ev(s.value, fr), fr)
            return
        if isinstance(s, ast.AugAssign) and isinstance(s.op, ast.Add) and isinstance(s.target, ast.Name):
            cur = self.ev(ast.Name(id=s.target.id, ctx=ast.Load()), fr)
            fr["env"][s.target.id] = self.add(cur, self.ev(s.value, fr))
            return
        if isinstance(s, ast.For) and not s.orelse:
            it = self.seq(self.ev(s.iter, fr))
            if it is None:
                raise Unsupported(f"loop over `{norm(s.iter)[:40]}`")
            for x in list(it):
                self.assign(s.target, x, fr)
                self.block(s.body, fr)
            return
        if isinstance(s, ast.If):
            self.block(s.body if self.truth(self.ev(s.test, fr)) else s.orelse, fr)
            return
        if isinstance(s, ast.Try):
            try:
                self.block(s.body, fr)
            except _PyExc as e:
                for h in s.handlers:
                    names = [norm(x).rsplit(".", 1)[-1] for x in (h.type.elts if isinstance(h.type, ast.Tuple) else [h.type])] if h.type is not None else ["BaseException"]
                    if e.name in names or any(p in names for p in _EXC_PARENTS.get(e.name, ("Exception", "BaseException"))):
                        if h.name:
                            fr["env"][h.name] = OPAQUE
                        self.block(h.body, fr)
                        break
                else:
                    self.block(s.finalbody, fr)
                    raise
            else:
                self.block(s.orelse, fr)
            self.block(s.finalbody, fr)
            return
        if isinstance(s, ast.Return):
            raise _Return(self.ev(s.value, fr) if s.value is not None else None)
        if isinstance(s, ast.Raise):
            if s.exc is None:
                raise _PyExc("BaseException")
            x = s.exc.func if isinstance(s.exc, ast.Call) else s.exc
            raise _PyExc(norm(x).rsplit(".", 1)[-1])
        raise Unsupported(f"statement {type(s).__name__} at line {s.lineno}")

    # ------------------------------------------------------------------ expressions
    def truth(self, v) -> bool:
        if v is OPAQUE or isinstance(v, (Token, TailList)):
            raise Unsupported("truth of an unknown value")
        if isinstance(v, str) and PREFIX in v:
            raise Unsupported("truth of a string that depends on the prefix")
        return bool(v)

    def add(self, a, b):
        if isinstance(a, str) and isinstance(b, str):
            return a + b
        if isinstance(a, list) and isinstance(b, list) and not isinstance(a, TailList) and not isinstance(b, TailList):
            return a + b
        if isinstance(a, int) and isinstance(b, int):
            return a + b
        raise Unsupported("operands of +")

    def fmt(self, v) -> str:
        if isinstance(v, bool) or v is None or isinstance(v, (int, str)):
            return str(v)
        raise Unsupported(f"formatting of {type(v).__name__}")

    def ev(self, e, fr):
        env = fr["env"]
        f = fr["f"]
        if isinstance(e, ast.Constant):
            return e.value
        if isinstance(e, ast.Name):
            if e.id in env:
                return env[e.id]
            try:
                return self.ctx.folder.plain(self.ctx.folder.fold(f.module, e))
            except Exception as err:  # noqa: BLE001
                d = self.ctx.prog.resolve_name(f.module, e.id)
                if d is not None and d.kind == "class":
                    return ("class", d.obj)
                raise Unsupported(f"name {e.id}: {err}") from err
        if isinstance(e, ast.Attribute):
            if isinstance(e.value, ast.Name) and env.get(e.value.id) == "SELF":
                if e.attr == "in_prefix":
                    return PREFIX
                return OPAQUE
            base = self.ev(e.value, fr)
            if isinstance(base, Record) and e.attr in base:
                return base[e.attr]
            try:
                return self.ctx.folder.plain(self.ctx.folder.fold(f.module, e))
            except Exception as err:  # noqa: BLE001
                raise Unsupported(f"attribute `{norm(e)[:40]}`") from err
        if isinstance(e, ast.JoinedStr):
            out = ""
            for v in e.values:
                if isinstance(v, ast.Constant):
                    out += str(v.value)
                elif isinstance(v, ast.FormattedValue) and v.conversion == -1 and v.format_spec is None:
                    out += self.fmt(self.ev(v.value, fr))
                else:
                    raise Unsupported("format spec / conversion in f-string")
            return out
        if isinstance(e, ast.BinOp) and isinstance(e.op, ast.Add):
            return self.add(self.ev(e.left, fr), self.ev(e.right, fr))
        if isinstance(e, (ast.List, ast.Tuple)):
            out = []
            for x in e.elts:
                if isinstance(x, ast.Starred):
                    v = self.ev(x.value, fr)
                    if isinstance(v, TailList) or not isinstance(v, (list, tuple)):
                        raise Unsupported("starred non-sequence")
                    out.extend(v)
                else:
                    out.append(self.ev(x, fr))
            return out if isinstance(e, ast.List) else tuple(out)
        if isinstance(e, ast.Subscript):
            base = self.ev(e.value, fr)
            if isinstance(e.slice, ast.Slice):
                raise Unsupported("slice")
            i = self.ev(e.slice, fr)
            if isinstance(base, Record) and isinstance(i, int):
                return list(base.values())[i]
            if isinstance(base, (list, tuple, str)) and isinstance(i, int):
                if isinstance(base, TailList) and (i >= 0 or -i >= len(base)):
                    raise Unsupported("index into the part of a split topic that belongs to the prefix")
                if isinstance(base, str) and PREFIX in base:
                    raise Unsupported("index into a prefixed string")
                try:
                    return base[i]
                except IndexError:
                    raise _PyExc("IndexError") from None
            raise Unsupported(f"subscript `{norm(e)[:40]}`")
        if isinstance(e, ast.Await):
            v = self.ev(e.value, fr)
            if isinstance(v, Token):
                v.awaited = True
                return None
            return v
        if isinstance(e, ast.IfExp):
            return self.ev(e.body if self.truth(self.ev(e.test, fr)) else e.orelse, fr)
        if isinstance(e, ast.UnaryOp) and isinstance(e.op, ast.Not):
            return not self.truth(self.ev(e.operand, fr))
        if isinstance(e, ast.UnaryOp) and isinstance(e.op, ast.USub):
            v = self.ev(e.operand, fr)
            if isinstance(v, int):
                return -v
        if isinstance(e, ast.BoolOp):
            v = None
            for x in e.values:
                v = self.ev(x, fr)
                t = self.truth(v)
                if t != isinstance(e.op, ast.And):
                    return v
            return v
        if isinstance(e, ast.Compare) and len(e.ops) == 1:
            a, b = self.ev(e.left, fr), self.ev(e.comparators[0], fr)
            for x in (a, b):
                if x is OPAQUE or isinstance(x, (Token, TailList)) or (isinstance(x, str) and PREFIX in x):
                    raise Unsupported("comparison of an unknown value")
            op = e.ops[0]
            try:
                if isinstance(op, ast.Eq):
                    return a == b
                if isinstance(op, ast.NotEq):
                    return a != b
                if isinstance(op, ast.Lt):
                    return a < b
                if isinstance(op, ast.LtE):
                    return a <= b
                if isinstance(op, ast.Gt):
                    return a > b
                if isinstance(op, ast.GtE):
                    return a >= b
                if isinstance(op, ast.In):
                    return a in b
                if isinstance(op, ast.NotIn):
                    return a not in b
                if isinstance(op, ast.Is):
                    return a is b
                if isinstance(op, ast.IsNot):
                    return a is not b
            except TypeError:
                raise _PyExc("TypeError") from None
        if isinstance(e, (ast.ListComp, ast.GeneratorExp, ast.SetComp)):
            out: list = []

            def gen(i: int) -> None:
                if i == len(e.generators):
                    out.append(self.ev(e.elt, fr))
                    return
                g = e.generators[i]
                if g.is_async:
                    raise Unsupported("async comprehension")
                it = self.seq(self.ev(g.iter, fr))
                if it is None:
                    raise Unsupported(f"comprehension over `{norm(g.iter)[:40]}`")
                for x in list(it):
                    self.assign(g.target, x, fr)
                    if all(self.truth(self.ev(c, fr)) for c in g.ifs):
                        gen(i + 1)

            gen(0)
            return out
        if isinstance(e, ast.NamedExpr) and isinstance(e.target, ast.Name):
            v = self.ev(e.value, fr)
            env[e.target.id] = v
            return v
        if isinstance(e, ast.Call):
            return self.callx(e, fr)
        raise Unsupported(f"expression {type(e).__name__} `{norm(e)[:40]}`")

    def args_of(self, call: ast.Call, fr):
        pos: list = []
        for a in call.args:
            if isinstance(a, ast.Starred):
                v = self.ev(a.value, fr)
                if isinstance(v, TailList) or not isinstance(v, (list, tuple)):
                    raise Unsupported("starred non-sequence argument")
                pos.extend(v)
            else:
                pos.append(self.ev(a, fr))
        kw = {}
        for k in call.keywords:
            if k.arg is None:
                raise Unsupported("**kwargs")
            kw[k.arg] = self.ev(k.value, fr)
        return pos, kw

    def callx(self, e: ast.Call, fr):
        f = fr["f"]
        fn = e.func
        # self._subscribe(topic, qos)
        if isinstance(fn, ast.Attribute) and fn.attr == "_subscribe" and isinstance(fn.value, ast.Name) and fr["env"].get(fn.value.id) == "SELF":
            pos, kw = self.args_of(e, fr)
            topic = pos[0] if pos else kw.get("topic")
            qos = pos[1] if len(pos) > 1 else kw.get("qos")
            if not isinstance(topic, str):
                raise Unsupported("subscription topic is not a string")
            t = Token(topic, qos, e)
            self.tokens.append(t)
            return t
        # asyncio.gather(...)
        if norm(fn).rsplit(".", 1)[-1] == "gather":
            pos, _ = self.args_of(e, fr)
            for v in pos:
                if isinstance(v, Token):
                    v.awaited = True
            return OPAQUE
        # list.append / extend on a local
        if isinstance(fn, ast.Attribute) and fn.attr in ("append", "extend") and isinstance(fn.value, ast.Name) and isinstance(fr["env"].get(fn.value.id), list):
            pos, _ = self.args_of(e, fr)
            lst = fr["env"][fn.value.id]
            if fn.attr == "append":
                lst.append(pos[0])
            else:
                if isinstance(pos[0], TailList) or not isinstance(pos[0], (list, tuple)):
                    raise Unsupported("extend with a non-sequence")
                lst.extend(pos[0])
            return None
        # repository functions / methods
        h = self.callee(e, f)
        if h is not None:
            if h.is_async and not self.reaches_subscribe(h):
                return OPAQUE  # connect / disconnect of the client: no subscription inside
            pos, kw = self.args_of(e, fr)
            params = list(h.positional_params)
            env2: dict = {}
            if h.cls is not None and not h.is_staticmethod() and params:
                env2[params[0]] = "SELF"
                params = params[1:]
            if len(pos) > len(params):
                raise Unsupported(f"arguments of {h.qualname}")
            for p, v in zip(params, pos):
                env2[p] = v
            for k, v in kw.items():
                if k not in h.params:
                    raise Unsupported(f"keyword {k} of {h.qualname}")
                env2[k] = v
            for p in h.params:
                if p not in env2:
                    d = h.param_default(p)
                    if d is None:
                        raise Unsupported(f"missing argument {p} of {h.qualname}")
                    env2[p] = self.ev(d, {"env": {}, "f": h, "yields": []})
            return self.call(h, env2)
        # record constructors (NamedTuple / dataclass)
        if isinstance(fn, (ast.Name, ast.Attribute)):
            d = self.ctx.prog.resolve_expr(f.module, fn)
            if d is not None and d.kind == "class":
                flds = self.ctx.I.record_fields(d.obj)
                if flds is not None:
                    pos, kw = self.args_of(e, fr)
                    rec = Record()
                    for n, v in zip(flds, pos):
                        rec[n] = v
                    rec.update(kw)
                    for n in flds:
                        if n not in rec:
                            dflt = self.ctx.I.record_default(d.obj, n)
                            if dflt is None:
                                raise Unsupported(f"field {n} of {d.obj.name} not given")
                            rec[n] = self.ev(dflt, {"env": {}, "f": f, "yields": []})
                    return Record((n, rec[n]) for n in flds)
        # map(<repository function / method>, <finite sequence>): the function applied to each element, in order
        if isinstance(fn, ast.Name) and fn.id == "map" and len(e.args) == 2 and not e.keywords:
            r0 = e.args[0]
            h = None
            if isinstance(r0, ast.Attribute) and isinstance(r0.value, ast.Name) and r0.value.id in ("self", "cls"):
                h = self.cls.find_method(r0.attr)
            elif isinstance(r0, ast.Name):
                d = self.ctx.prog.resolve_name(f.module, r0.id)
                h = d.obj if d is not None and d.kind == "func" else None
            seq_ = self.seq(self.ev(e.args[1], fr))
            if h is None or seq_ is None or h.is_async:
                raise Unsupported(f"map over `{norm(e)[:50]}`")
            params = list(h.positional_params)
            env0: dict = {}
            if h.cls is not None and not h.is_staticmethod() and params:
                env0[params[0]] = "SELF"
                params = params[1:]
            if len(params) < 1:
                raise Unsupported(f"map of {h.qualname}")
            out_ = []
            for x_ in seq_:
                env2 = dict(env0)
                env2[params[0]] = x_
                for p in h.params:
                    if p not in env2:
                        d_ = h.param_default(p)
                        if d_ is None:
                            raise Unsupported(f"missing argument {p} of {h.qualname}")
                        env2[p] = self.ev(d_, {"env": {}, "f": h, "yields": []})
                out_.append(self.call(h, env2))
            return out_
        # builtins
        if isinstance(fn, ast.Name):
            pos, kw = self.args_of(e, fr)
            if fn.id == "int" and len(pos) == 1 and not kw:
                v = pos[0]
                if isinstance(v, str):
                    if PREFIX in v:
                        raise Unsupported("int() of a string that depends on the prefix")
                    try:
                        return int(v)
                    except ValueError:
                        raise _PyExc("ValueError") from None
                if isinstance(v, int):
                    return int(v)
            if fn.id == "str" and len(pos) == 1:
                return self.fmt(pos[0])
            if fn.id == "len" and len(pos) == 1 and isinstance(pos[0], (list, tuple, str)) and not isinstance(pos[0], TailList) and not (isinstance(pos[0], str) and PREFIX in pos[0]):
                return len(pos[0])
            if fn.id == "range" and all(isinstance(v, int) for v in pos) and 1 <= len(pos) <= 3:
                return list(range(*pos))
            if fn.id in ("list", "tuple", "sorted", "reversed", "set", "frozenset") and len(pos) == 1:
                v = pos[0]
                if isinstance(v, tuple) and len(v) == 2 and v[0] == "class":
                    vals = self.enum_ints(v[1])
                    v = vals
                if isinstance(v, TailList) or not isinstance(v, (list, tuple, range)):
                    raise Unsupported(f"{fn.id}() of an unknown value")
                if fn.id == "sorted":
                    return sorted(v, reverse=bool(kw.get("reverse", False)))
                if fn.id == "reversed":
                    return list(reversed(v))
                return list(dict.fromkeys(v)) if fn.id in ("set", "frozenset") else (tuple(v) if fn.id == "tuple" else list(v))
            if fn.id == "enumerate" and len(pos) == 1 and isinstance(pos[0], (list, tuple)) and not isinstance(pos[0], TailList):
                return [(i, x) for i, x in enumerate(pos[0])]
            if fn.id == "cast" and len(e.args) == 2:
                return pos[1]
        # string methods
        if isinstance(fn, ast.Attribute) and fn.attr in STR_METHODS:
            base = self.ev(fn.value, fr)
            pos, kw = self.args_of(e, fr)
            if isinstance(base, str) and all(isinstance(a, (str, int, list, tuple)) or a is None for a in pos):
                if fn.attr == "join":
                    if not isinstance(pos[0], (list, tuple)) or isinstance(pos[0], TailList) or not all(isinstance(x, str) for x in pos[0]):
                        raise Unsupported("join of unknown parts")
                try:
                    r = getattr(base, fn.attr)(*pos, **kw)
                except (TypeError, ValueError) as err:
                    raise _PyExc(type(err).__name__) from None
                if fn.attr in ("split", "rsplit") and PREFIX in base:
                    sep = pos[0] if pos else kw.get("sep")
                    if not isinstance(sep, str) or len(pos) > 1 or "maxsplit" in kw:
                        raise Unsupported("split of a prefixed string with maxsplit / whitespace")
                    return TailList(r)
                if isinstance(r, str) and PREFIX in base and fn.attr not in ("rstrip", "removesuffix", "replace", "format", "join"):
                    raise Unsupported(f"{fn.attr}() of a prefixed string")
                return r
        # iteration over an enum class: for c in Command
        raise Unsupported(f"call `{norm(e)[:50]}`")

    def seq(self, it):
        """A finite sequence to iterate, or None."""
        if isinstance(it, tuple) and len(it) == 2 and it[0] == "class":
            return self.enum_ints(it[1])
        if isinstance(it, TailList) or not isinstance(it, (list, tuple, range)):
            return None
        return it

    def enum_ints(self, cls) -> list:
        try:
            return sorted(self.ctx.I.folder.enum_canonical(cls))
        except Exception as err:  # noqa: BLE001
            raise Unsupported(f"cannot enumerate {cls.name}") from err
