"""C05 Active protocol is the newest supported one not newer than the reported version."""

from __future__ import annotations

import ast

from ..cfg import CFG
from ..interp import Frame
from ..model import AnalysisError, Unfoldable, norm
from ..prov import Canon, message_param
from . import c03, tables
from .common import Ctx, fkey

GET = "aiomysensors.model.protocol.get_protocol"
GW = "aiomysensors.gateway.Gateway"
EXPECTED_KEYS = ("1.4", "1.5", "2.0", "2.1", "2.2")


def run(ctx: Ctx, chk) -> None:
    chk.assume("A1", "A3", "A5")
    chk.run_rule(table_v, ctx)
    chk.run_rule(select_spelling, ctx)
    chk.run_rule(select1, ctx)
    chk.run_rule(c03.state1, ctx)
    chk.run_rule(copies1, ctx)
    chk.run_rule(gate1, ctx)
    chk.run_rule(gate_esc, ctx)
    chk.run_rule(learn1, ctx)
    chk.run_rule(who_version, ctx)
    chk.run_rule(report_total, ctx)
    # the type gate is looked up in the active protocol for every message: a handler class that remembers names or
    # handlers (a memo shared by all versions and gateways) answers from what another protocol accepted
    chk.run_rule(tables.handler_state_rule, ctx)


def vtuple(s: str):
    return tuple(int(x) for x in s.split("."))


def _protocol_when_version_none(ctx: Ctx, gw, getter, vattr: str, depth: int = 0):
    """The version string the protocol getter hands to get_protocol while the stored version is None (derived layouts:
    `get_protocol(self.v or D)`, `if self.v is None: return get_protocol(D)` ..., through zero-argument methods of the
    gateway); None when the getter is not of such a shape."""
    if getter is None or depth > 3:
        return None
    selfn = getter.positional_params[0] if getter.positional_params else "self"
    vtxt = f"{selfn}.{vattr}"

    def expr(e):
        if isinstance(e, ast.Call) and isinstance(e.func, ast.Name) and e.func.id == "cast" and len(e.args) == 2:
            return expr(e.args[1])
        if isinstance(e, ast.Call) and norm(e.func).rsplit(".", 1)[-1] == "get_protocol" and len(e.args) == 1 and not e.keywords:
            a = e.args[0]
            if isinstance(a, ast.BoolOp) and isinstance(a.op, ast.Or) and len(a.values) == 2 and norm(a.values[0]) == vtxt:
                a = a.values[1]
            elif isinstance(a, ast.IfExp):
                t = truth(a.test)
                if t is None:
                    return None
                a = a.body if t else a.orelse
            try:
                v = ctx.folder.plain(ctx.folder.fold(getter.module, a))
            except Exception:  # noqa: BLE001
                return None
            return v if isinstance(v, str) else None
        if isinstance(e, ast.Call) and isinstance(e.func, ast.Attribute) and norm(e.func.value) == selfn and not e.args and not e.keywords:
            m = gw.find_method(e.func.attr)
            return _protocol_when_version_none(ctx, gw, m, vattr, depth + 1) if m is not None else None
        if isinstance(e, ast.Attribute) and norm(e.value) == selfn:
            m = gw.find_method(e.attr)
            if m is not None and any(d.split("(")[0].rsplit(".", 1)[-1] == "property" for d in m.decorator_names):
                return _protocol_when_version_none(ctx, gw, m, vattr, depth + 1)
        return None

    def truth(t):
        if isinstance(t, ast.Compare) and len(t.ops) == 1 and norm(t.left) == vtxt and isinstance(t.comparators[0], ast.Constant) and t.comparators[0].value is None:
            return isinstance(t.ops[0], ast.Is) if isinstance(t.ops[0], (ast.Is, ast.IsNot)) else None
        if norm(t) == vtxt:
            return False
        if isinstance(t, ast.UnaryOp) and isinstance(t.op, ast.Not) and norm(t.operand) == vtxt:
            return True
        return None

    def block(stmts):
        for st in stmts:
            if isinstance(st, ast.Expr) and isinstance(st.value, ast.Constant):
                continue
            if isinstance(st, ast.If):
                t = truth(st.test)
                if t is None:
                    return None
                r = block(st.body if t else st.orelse)
                if r is not None or any(isinstance(x, ast.Return) for b in (st.body if t else st.orelse) for x in ast.walk(b)):
                    return r
                continue
            if isinstance(st, ast.Return) and st.value is not None:
                return expr(st.value)
            return None
        return None

    return block(getter.node.body)


def _stmt_index(fn: ast.AST, node: ast.AST) -> int:
    """Index of the top-level statement of fn that contains node (written-out code keeps the line numbers of its
    definition, so order is read off the statement list)."""
    for i, st in enumerate(fn.body):
        if any(x is node for x in ast.walk(st)):
            return i
    return -1


def table_v(ctx: Ctx, chk) -> None:
    rule = "TABLE-V"
    chk.rule(rule, "PROTOCOL_VERSIONS has exactly the keys 1.4, 1.5, 2.0, 2.1, 2.2, each mapping to the module whose VERSION equals the key; the default version 1.4 maps to protocol_14, which is get_protocol's fallback and the protocol of a gateway whose version is still unknown")
    I = ctx.I
    keys = tuple(ctx.versions)
    chk.instance(rule)
    if tuple(sorted(keys)) == EXPECTED_KEYS:
        chk.ok(rule, "PROTOCOL_VERSIONS keys", f"= {keys}", "src/aiomysensors/model/protocol/__init__.py")
    else:
        chk.refute(rule, "PROTOCOL_VERSIONS keys", f"supported versions are {sorted(keys)}; the statement lists {EXPECTED_KEYS}", "src/aiomysensors/model/protocol/__init__.py")
    for k in keys:
        chk.instance(rule)
        m = I.vmod(k)
        v = I.folder.const(m, "VERSION")
        if v == k:
            chk.ok(rule, f"PROTOCOL_VERSIONS[{k}]", f"{m.name}.VERSION == {k!r}", f"{m.relpath}:1", sample=k == "1.4")
        else:
            chk.refute(rule, f"PROTOCOL_VERSIONS[{k}]", f"version {k} maps to {m.name} whose VERSION is {v!r}", f"{m.relpath}:1")
    pm = ctx.module("aiomysensors.model.protocol")
    dv = I.folder.const(pm, "DEFAULT_PROTOCOL_VERSION")
    chk.instance(rule)
    if dv == "1.4" and dv in I.versions and I.vmod(dv).name.endswith("protocol_14"):
        chk.ok(rule, "DEFAULT_PROTOCOL_VERSION", "'1.4' -> protocol_14", "src/aiomysensors/model/const.py")
    else:
        chk.refute(rule, "DEFAULT_PROTOCOL_VERSION", f"the default protocol version is {dv!r}; a gateway that has not reported a version must run 1.4", "src/aiomysensors/model/const.py")
    # Gateway.__init__
    gw = ctx.cls(GW)
    init = ctx.inl(gw.find_method("__init__"))  # a shared "apply protocol" helper is judged written out
    chk.instance(rule)
    cn = Canon(I, init)
    from .common import state_attrs

    sa_ = state_attrs(ctx)
    prot = [n for n in ctx.own_nodes(init) if isinstance(n, ast.Assign) and any(norm(t) == f"self.{sa_['protocol']}" for t in n.targets)]
    ver = [n for n in ctx.own_nodes(init) if isinstance(n, (ast.Assign, ast.AnnAssign)) and norm(n.targets[0] if isinstance(n, ast.Assign) else n.target) == f"self.{sa_['version']}"]
    ok = len(prot) == 1 and cn.canon(prot[0].value) in ("get_protocol('1.4')",) and len(ver) == 1 and isinstance(ver[0].value, ast.Constant) and ver[0].value.value is None
    setp = [n for n in ctx.own_nodes(init) if isinstance(n, ast.Call) and norm(n.func).endswith(".set_protocol")]
    ok = ok and len(setp) == 1 and canon_sa(ctx, cn, init, setp[0].args[0]) == "get_protocol('1.4')"
    derived = False
    if not ok and not prot and len(ver) == 1 and isinstance(ver[0].value, ast.Constant) and ver[0].value.value is None and len(setp) == 1:
        # derived layout: no protocol attribute at all; the `protocol` property computes get_protocol(<version> or '1.4')
        getter = gw.find_method("protocol")
        rets_ = [n for n in ctx.own_nodes(getter) if isinstance(n, ast.Return) and n.value is not None] if getter is not None else []
        gc_ = Canon(I, getter).canon(rets_[0].value) if len(rets_) == 1 else ""
        any_store = any(isinstance(n, (ast.Assign, ast.AnnAssign)) and any(norm(t) == f"self.{sa_['protocol']}" for t in (n.targets if isinstance(n, ast.Assign) else [n.target])) for fl in gw.methods.values() for f_ in fl for n in ctx.own_nodes(f_))
        if not any_store and (gc_ == f"get_protocol(self.{sa_['version']} or '1.4')" or _protocol_when_version_none(ctx, gw, getter, sa_["version"]) == "1.4") and (norm(setp[0].args[0]) == "self.protocol" or (isinstance(setp[0].args[0], ast.Call) and isinstance(setp[0].args[0].func, ast.Attribute) and norm(setp[0].args[0].func.value) == "self" and not setp[0].args[0].args and _protocol_when_version_none(ctx, gw, gw.find_method(setp[0].args[0].func.attr), sa_["version"]) == "1.4")) and _stmt_index(init.node, setp[0]) > _stmt_index(init.node, ver[0]):
            derived = ok = True
    if ok and derived:
        chk.ok(rule, f"{init.fq}::initial protocol", "version = None, the protocol property derives get_protocol(version or '1.4'), schema set to it", init.where)
    elif ok:
        chk.ok(rule, f"{init.fq}::initial protocol", "_protocol = get_protocol('1.4'), schema set to it, _protocol_version = None", init.where)
    elif not prot or not ver or not setp:
        # the initial state is not set by plain stores in the constructor (a state object, a derived property ...):
        # nothing here says it is wrong - this layout is not modelled
        raise AnalysisError(f"TABLE-V: Gateway.__init__ does not set the initial protocol state by plain stores (protocol stores: {len(prot)}, version stores: {len(ver)}, set_protocol calls: {len(setp)}) - layout not modelled")
    else:
        chk.refute(rule, f"{init.fq}::initial protocol", "a new gateway does not start with protocol 1.4 in force (protocol, schema context) and version None", init.where)


def _before(fn: ast.AST, a: ast.AST, b: ast.AST) -> bool:
    """a comes before b in the function's tree (written-out / flattened code keeps the line numbers of its definition,
    so order is read off the tree, not off lineno)."""
    order: dict = {}

    def walk(n):
        order[id(n)] = len(order)
        for ch in ast.iter_child_nodes(n):
            walk(ch)

    walk(fn)
    return id(a) in order and id(b) in order and order[id(a)] < order[id(b)]


def canon_sa(ctx: Ctx, cn: Canon, f, e: ast.expr) -> str:
    """Canonical text of e where `self.<attr>` that f assigns exactly once stands for the assigned value."""
    t = cn.canon(e)
    if isinstance(e, ast.Attribute) and isinstance(e.value, ast.Name) and e.value.id == "self":
        stores = [n for n in ctx.own_nodes(f) if isinstance(n, (ast.Assign, ast.AnnAssign)) and any(norm(x) == t for x in (n.targets if isinstance(n, ast.Assign) else [n.target]))]
        if len(stores) == 1 and stores[0].value is not None and _before(f.node, stores[0], e):
            return cn.canon(stores[0].value)
    return t


def _record_table(ctx: Ctx, f, gen) -> None:
    """The candidates as a table of records built from the version table - `T = tuple(R(AwesomeVersion(v), TABLE[v]) for
    v in <order>)`, R a NamedTuple / dataclass of the module - selected with `x.<field>` / `x.<method>(..)`: rewritten
    to the selection over the keys it stands for (iter = <order>, fields replaced by the expressions they were built
    from, one-expression methods of R written out)."""
    import copy

    it = gen.iter
    if isinstance(it, ast.Name):
        dd = ctx.prog.resolve_name(f.module, it.id)
        if dd is not None and dd.kind == "const" and isinstance(dd.obj, ast.expr):
            it = dd.obj
    if isinstance(it, ast.Call) and isinstance(it.func, ast.Name) and it.func.id in ("tuple", "list") and len(it.args) == 1 and not it.keywords:
        it = it.args[0]
    if not (isinstance(it, (ast.GeneratorExp, ast.ListComp)) and len(it.generators) == 1 and not it.generators[0].ifs and isinstance(it.generators[0].target, ast.Name) and isinstance(it.elt, ast.Call) and isinstance(it.elt.func, ast.Name)):
        return
    rd = ctx.prog.resolve_name(f.module, it.elt.func.id)
    if rd is None or rd.kind != "class":
        return
    flds = ctx.I.record_fields(rd.obj)
    if flds is None or it.elt.keywords and any(k.arg not in flds for k in it.elt.keywords) or len(it.elt.args) > len(flds):
        return
    built = dict(zip(flds, it.elt.args))
    built.update({k.arg: k.value for k in it.elt.keywords})
    if set(built) != set(flds):
        return
    v = it.generators[0].target.id
    x = gen.kname

    class _Sub(ast.NodeTransformer):
        def __init__(self, recv: str, extra: dict | None = None) -> None:
            self.recv, self.extra = recv, extra or {}

        def visit_Call(self, n):
            self.generic_visit(n)
            fn = n.func
            if isinstance(fn, ast.Attribute) and isinstance(fn.value, ast.Name) and fn.value.id == self.recv and not n.keywords:
                m = rd.obj.find_method(fn.attr)
                body = [b for b in m.node.body if not (isinstance(b, ast.Expr) and isinstance(b.value, ast.Constant))] if m is not None else []
                if m is not None and not m.node.decorator_list and len(body) == 1 and isinstance(body[0], ast.Return) and body[0].value is not None and len(m.positional_params) == len(n.args) + 1:
                    amap = dict(zip(m.positional_params[1:], n.args))
                    return _Sub(m.positional_params[0], amap).visit(copy.deepcopy(body[0].value))
            return n

        def visit_Attribute(self, n):
            if isinstance(n.value, ast.Name) and n.value.id == self.recv and n.attr in built and isinstance(n.ctx, ast.Load):
                return copy.deepcopy(built[n.attr])
            return self.generic_visit(n)

        def visit_Name(self, n):
            if n.id in self.extra and isinstance(n.ctx, ast.Load):
                return copy.deepcopy(self.extra[n.id])
            return n

    if any(isinstance(n, ast.Name) and n.id == x and not isinstance(ctx.prog.parents.get(n), (ast.Attribute,)) for e in (gen.elt, gen.pred) for n in ast.walk(e)):
        return  # the record itself is used, not only its members
    gen.elt = ast.fix_missing_locations(ast.copy_location(_Sub(x).visit(copy.deepcopy(gen.elt)), gen.elt))
    gen.pred = ast.fix_missing_locations(ast.copy_location(_Sub(x).visit(copy.deepcopy(gen.pred)), gen.pred))
    for e in (gen.elt, gen.pred):
        for n in ast.walk(e):
            if not hasattr(n, "_mod"):
                n._mod = f.module  # type: ignore[attr-defined]
    gen.iter, gen.kname = it.generators[0].iter, v


def select1(ctx: Ctx, chk) -> None:
    I = ctx.I
    f = ctx.func(GET)
    rule = "SELECT-1"
    chk.rule(rule, "get_protocol returns the first table entry, in descending version order, whose key the reported version is not below; the fallback is protocol 1.4")
    rule2 = "CMP-TOTAL"
    chk.rule(rule2, "the comparison is total for versions that differ only by trailing sections: `reported >= key` of AwesomeVersion is string-equal-or-greater and is false for 2.2.0 vs 2.2 although 2.2.0 < 2.2 is false too; accepted: not (reported < key)")
    rets = [n for n in ctx.own_nodes(f) if isinstance(n, ast.Return)]
    cn = Canon(I, f)
    param = f.positional_params[0]

    class _Sel:
        pass

    gen = _Sel()  # .elt, .iter, .pred, .default, .kname, .node
    is_max = False
    nexts = [n for n in ctx.own_nodes(f) if isinstance(n, ast.Call) and isinstance(n.func, ast.Name) and n.func.id == "next"]
    loops = [n for n in f.node.body if isinstance(n, ast.For)]
    ge0 = nexts[0].args[0] if len(nexts) == 1 and len(nexts[0].args) == 2 else None
    if isinstance(ge0, ast.Name):
        la0 = I.local_assigns(f).get(ge0.id) or []
        ge0 = la0[0] if len(la0) == 1 and isinstance(la0[0], ast.GeneratorExp) and sum(1 for n in ctx.own_nodes(f) if isinstance(n, ast.Name) and n.id == ge0.id and isinstance(n.ctx, ast.Load)) == 1 else ge0
    if isinstance(ge0, ast.GeneratorExp) and len(rets) == 1:
        # shape (a): next((table[k] for k in <order> if <pred>), default)   (the generator possibly bound to a local first)
        ge = ge0
        if len(ge.generators) != 1 or len(ge.generators[0].ifs) != 1 or not isinstance(ge.generators[0].target, ast.Name):
            raise AnalysisError("SELECT-1: generator shape not recognised")
        gen.elt, gen.iter, gen.pred, gen.default, gen.kname, gen.node = ge.elt, ge.generators[0].iter, ge.generators[0].ifs[0], nexts[0].args[1], ge.generators[0].target.id, ge
        chk.instance(rule)
        rv = cn.canon(rets[0].value)
        if "next(" in rv:
            chk.ok(rule, f"{f.fq}::return", "returns the selected module", ctx.loc(f, rets[0]), sample=False)
        else:
            chk.refute(rule, f"{f.fq}::return", f"get_protocol returns `{rv[:80]}`, not the selected table entry", ctx.loc(f, rets[0]))
    elif len(loops) == 1 and isinstance(loops[0].target, ast.Name) and not loops[0].orelse:
        # shape (b): for k in <order>: if <pred>: return table[k]  ...  return default
        lp = loops[0]
        body = [b for b in lp.body if not (isinstance(b, ast.Expr) and isinstance(b.value, ast.Constant))]
        sel_pred = sel_ret = None
        if len(body) == 1 and isinstance(body[0], ast.If) and not body[0].orelse and len(body[0].body) == 1 and isinstance(body[0].body[0], ast.Return):
            sel_pred, sel_ret = body[0].test, body[0].body[0]
        elif len(body) == 2 and isinstance(body[0], ast.If) and not body[0].orelse and len(body[0].body) == 1 and isinstance(body[0].body[0], ast.Continue) and isinstance(body[1], ast.Return):
            # `if <skip>: continue` / `return table[k]`  ==  `if not <skip>: return table[k]`
            sel_pred, sel_ret = ast.copy_location(ast.UnaryOp(op=ast.Not(), operand=body[0].test), body[0].test), body[1]
        after = [x for x in f.node.body[f.node.body.index(lp) + 1 :] if isinstance(x, ast.Return)]
        if sel_pred is None and len(after) == 1 and after[0].value is not None:
            # `x = default` ... `for k in <order>: [if <skip>: continue] x = table[k]; break` ... `return x`
            def _unc(e):
                while isinstance(e, ast.Call) and norm(e.func) == "cast" and len(e.args) == 2:
                    e = e.args[1]
                return e

            rv = _unc(after[0].value)
            pre_asg = [x for x in f.node.body[: f.node.body.index(lp)] if isinstance(x, ast.Assign) and len(x.targets) == 1 and isinstance(x.targets[0], ast.Name) and isinstance(rv, ast.Name) and x.targets[0].id == rv.id]
            b2 = list(body)
            pred = None
            if len(b2) == 3 and isinstance(b2[0], ast.If) and not b2[0].orelse and len(b2[0].body) == 1 and isinstance(b2[0].body[0], ast.Continue):
                pred = ast.copy_location(ast.UnaryOp(op=ast.Not(), operand=b2[0].test), b2[0].test)
                b2 = b2[1:]
            elif len(b2) == 1 and isinstance(b2[0], ast.If) and not b2[0].orelse and len(b2[0].body) == 2:
                pred = b2[0].test
                b2 = b2[0].body
            if pred is not None and len(b2) == 2 and isinstance(b2[0], ast.Assign) and len(b2[0].targets) == 1 and isinstance(b2[0].targets[0], ast.Name) and isinstance(rv, ast.Name) and b2[0].targets[0].id == rv.id and isinstance(b2[1], ast.Break) and len(pre_asg) == 1:
                sel_pred = pred
                sel_ret = ast.copy_location(ast.Return(value=b2[0].value), b2[0])
                after = [ast.copy_location(ast.Return(value=pre_asg[0].value), pre_asg[0])]
        if sel_pred is None or sel_ret.value is None:
            raise AnalysisError("SELECT-1: selection loop shape not recognised")
        if len(after) != 1:
            raise AnalysisError("SELECT-1: fallback return after the selection loop not found")

        def uncast(e):
            while isinstance(e, ast.Call) and norm(e.func) == "cast" and len(e.args) == 2:
                e = e.args[1]
            return e

        gen.elt, gen.iter, gen.pred, gen.default, gen.kname, gen.node = uncast(sel_ret.value), lp.iter, sel_pred, uncast(after[0].value), lp.target.id, lp
    elif len(rets) == 1 and len([n for n in ctx.own_nodes(f) if isinstance(n, ast.Call) and isinstance(n.func, ast.Name) and n.func.id == "max"]) == 1:
        # shape (c): newest = max((k for k in <candidates> if <pred>), default=<oldest key>) ; return table[newest]
        mx = [n for n in ctx.own_nodes(f) if isinstance(n, ast.Call) and isinstance(n.func, ast.Name) and n.func.id == "max"][0]
        dk = [kw.value for kw in mx.keywords if kw.arg == "default"]
        if not (len(mx.args) == 1 and isinstance(mx.args[0], ast.GeneratorExp) and len(dk) == 1):
            raise AnalysisError("SELECT-1: max(...) selection shape not recognised")
        ge = mx.args[0]
        if len(ge.generators) != 1 or len(ge.generators[0].ifs) != 1 or not isinstance(ge.generators[0].target, ast.Name) or norm(ge.elt) != ge.generators[0].target.id:
            raise AnalysisError("SELECT-1: max(...) generator shape not recognised")
        is_max = True
        rv = rets[0].value
        while isinstance(rv, ast.Call) and norm(rv.func) == "cast" and len(rv.args) == 2:
            rv = rv.args[1]
        chk.instance(rule)
        if isinstance(rv, ast.Subscript) and norm(rv.value) == "PROTOCOL_VERSIONS" and "max(" in cn.canon(rv.slice):
            chk.ok(rule, f"{f.fq}::return", "returns the table entry of the selected key", ctx.loc(f, rets[0]), sample=False)
        else:
            chk.refute(rule, f"{f.fq}::return", f"get_protocol returns `{cn.canon(rets[0].value)[:80]}`, not the table entry of the selected key", ctx.loc(f, rets[0]))
        kn = ge.generators[0].target.id
        gen.elt = ast.parse(f"PROTOCOL_VERSIONS[{kn}]", mode="eval").body
        gen.iter, gen.pred, gen.default, gen.kname, gen.node = ge.generators[0].iter, ge.generators[0].ifs[0], dk[0], kn, ge
    else:
        raise AnalysisError("SELECT-1: get_protocol is neither `next((table[k] for k in <order> if <pred>), default)` nor `for k in <order>: if <pred>: return table[k]` + fallback nor `table[max((k for k in <keys> if <pred>), default=<oldest>)]`")
    _record_table(ctx, f, gen)
    kname = gen.kname

    def deref(e):
        """Look through locals bound once (`known = sorted(TABLE, reverse=True)` ... `for k in known`)."""
        for _ in range(4):
            if isinstance(e, ast.Name) and e.id not in f.params:
                la = I.local_assigns(f).get(e.id) or []
                if len(la) == 1 and isinstance(la[0], ast.expr):
                    e = la[0]
                    continue
            break
        return e

    gen.iter, gen.default, gen.elt = deref(gen.iter), deref(gen.default), deref(gen.elt)

    class _G:
        pass

    g = _G()
    g.iter, g.ifs = gen.iter, [gen.pred]

    class _N:
        pass

    nx = _N()
    nx.args = [None, gen.default]
    # element
    chk.instance(rule)
    # the selection may pick the *key* and look the table up afterwards: `k = next(..); return TABLE[k]`
    keysel = False
    if norm(gen.elt) == kname and not is_max:
        par_ = ctx.prog.parents.get(gen.node)
        while par_ is not None and not isinstance(par_, (ast.Assign, ast.AnnAssign, ast.Return, ast.FunctionDef)):
            par_ = ctx.prog.parents.get(par_)
        if isinstance(par_, (ast.Assign, ast.AnnAssign)):
            tg_ = par_.targets[0] if isinstance(par_, ast.Assign) and len(par_.targets) == 1 else getattr(par_, "target", None)
            if isinstance(tg_, ast.Name) and len(ctx.I.local_assigns(f).get(tg_.id) or []) == 1:
                rets_ = [r_ for r_ in ctx.own_nodes(f) if isinstance(r_, ast.Return) and r_.value is not None]
                keysel = len(rets_) == 1 and any(isinstance(x_, ast.Subscript) and norm(x_) == f"PROTOCOL_VERSIONS[{tg_.id}]" for x_ in ast.walk(rets_[0].value))
    if keysel:
        chk.ok(rule, f"{f.fq}::element", f"the matching key, then PROTOCOL_VERSIONS[<key>]", ctx.loc(f, gen.node), sample=False)
    elif norm(gen.elt) == f"PROTOCOL_VERSIONS[{kname}]":
        chk.ok(rule, f"{f.fq}::element", f"PROTOCOL_VERSIONS[{kname}]", ctx.loc(f, gen.node), sample=False)
    else:
        chk.refute(rule, f"{f.fq}::element", f"the selection yields `{norm(gen.elt)}`, not the table entry of the matching key", ctx.loc(f, gen.node))
    # order
    chk.instance(rule)
    it = g.iter
    if isinstance(it, ast.Name):
        # a module constant that holds the candidates (`SUPPORTED_VERSIONS = sorted(...)`): judged as written there
        dd_ = ctx.prog.resolve_name(f.module, it.id)
        if dd_ is not None and dd_.kind == "const" and isinstance(dd_.obj, ast.expr):
            it = dd_.obj
    if isinstance(it, ast.Call) and isinstance(it.func, ast.Name) and it.func.id == "sorted" and it.args and isinstance(it.args[0], ast.GeneratorExp) and len(it.args[0].generators) == 1 and not it.args[0].generators[0].ifs and norm(it.args[0].generators[0].iter) in ("PROTOCOL_VERSIONS", "PROTOCOL_VERSIONS.keys()", "list(PROTOCOL_VERSIONS)") and isinstance(it.args[0].generators[0].target, ast.Name) and norm(it.args[0].elt) == f"AwesomeVersion({it.args[0].generators[0].target.id})" and not any(k.arg == "key" for k in it.keywords):
        # sorted(AwesomeVersion(v) for v in TABLE): the keys, ordered as versions
        it = ast.copy_location(ast.Call(func=it.func, args=[ast.Name(id="PROTOCOL_VERSIONS", ctx=ast.Load())], keywords=list(it.keywords) + [ast.keyword(arg="key", value=ast.Name(id="AwesomeVersion", ctx=ast.Load()))]), it)
    keys = list(ctx.versions)
    order = None
    if is_max:
        # max() picks the newest candidate whatever the order; the candidates must be the table's keys as versions
        src = it
        if isinstance(src, ast.Name):
            dd = ctx.prog.resolve_name(f.module, src.id)
            src = dd.obj if dd is not None and dd.kind == "const" else src
        txt = norm(src)
        if txt in ("PROTOCOL_VERSIONS", "PROTOCOL_VERSIONS.keys()", "list(PROTOCOL_VERSIONS)") or ("AwesomeVersion(" in txt and "PROTOCOL_VERSIONS" in txt and " if " not in txt):
            order = sorted(keys, key=vtuple, reverse=True)
        else:
            raise AnalysisError(f"SELECT-1: candidates `{txt[:60]}` of the max() selection not recognised")
    elif isinstance(it, ast.Call) and isinstance(it.func, ast.Name) and it.func.id == "sorted" and it.args and norm(it.args[0]) in ("PROTOCOL_VERSIONS", "PROTOCOL_VERSIONS.keys()", "list(PROTOCOL_VERSIONS)"):
        rev = False
        keyfn = None
        for kw in it.keywords:
            if kw.arg == "reverse":
                rev = isinstance(kw.value, ast.Constant) and bool(kw.value.value)
            if kw.arg == "key":
                keyfn = kw.value
        if keyfn is None:
            order = sorted(keys, reverse=rev)
        elif norm(keyfn) == "AwesomeVersion":
            order = sorted(keys, key=vtuple, reverse=rev)
        else:
            raise AnalysisError(f"SELECT-1: sort key `{norm(keyfn)}` not recognised")
    elif isinstance(it, ast.Call) and isinstance(it.func, ast.Name) and it.func.id == "reversed" and it.args and norm(it.args[0]) in ("PROTOCOL_VERSIONS", "list(PROTOCOL_VERSIONS)"):
        order = list(reversed(keys))
    elif norm(it) in ("PROTOCOL_VERSIONS", "PROTOCOL_VERSIONS.keys()", "list(PROTOCOL_VERSIONS)"):
        order = keys
    else:
        raise AnalysisError(f"SELECT-1: candidate order `{norm(it)}` not recognised")
    desc = sorted(keys, key=vtuple, reverse=True)
    if order == desc:
        chk.ok(rule, f"{f.fq}::order", f"candidates tried in descending order {order}", ctx.loc(f, it))
    else:
        chk.refute(rule, f"{f.fq}::order", f"candidates are tried in the order {order}; the newest protocol not above the reported version requires descending order {desc}", ctx.loc(f, it))
    # default
    chk.instance(rule)
    dflt = nx.args[1]
    d = ctx.prog.resolve_expr(f.module, dflt)
    if is_max or keysel:
        try:
            dv = ctx.folder.plain(ctx.folder.fold(f.module, dflt))
        except Exception:  # noqa: BLE001
            dv = None
        if dv == "1.4":
            chk.ok(rule, f"{f.fq}::default", "fallback key is '1.4'", ctx.loc(f, dflt), sample=False)
        else:
            chk.refute(rule, f"{f.fq}::default", f"fallback key `{norm(dflt)}` is not '1.4': versions older than 1.5 must select 1.4", ctx.loc(f, dflt))
    elif d is not None and d.kind == "module" and d.obj is I.vmod("1.4"):
        chk.ok(rule, f"{f.fq}::default", "fallback is protocol_14", ctx.loc(f, dflt), sample=False)
    else:
        chk.refute(rule, f"{f.fq}::default", f"fallback `{norm(dflt)}` is not protocol 1.4: versions older than 1.5 must select 1.4", ctx.loc(f, dflt))
    # predicate
    pred = g.ifs[0]
    chk.instance(rule)
    chk.instance(rule2)

    def wrapped(e, name):
        """e is AwesomeVersion(name) or name (possibly through a single-assignment local)."""
        return cn.canon(e) in (name, f"AwesomeVersion({name})")

    neg = False
    p = pred
    while isinstance(p, ast.UnaryOp) and isinstance(p.op, ast.Not):
        neg = not neg
        p = p.operand
    if not (isinstance(p, ast.Compare) and len(p.ops) == 1):
        raise AnalysisError(f"SELECT-1: predicate `{norm(pred)}` not recognised")
    a, op, b = p.left, p.ops[0], p.comparators[0]
    if wrapped(a, param) and wrapped(b, kname):
        rel = type(op)
    elif wrapped(a, kname) and wrapped(b, param):
        rel = {ast.Lt: ast.Gt, ast.Gt: ast.Lt, ast.LtE: ast.GtE, ast.GtE: ast.LtE}.get(type(op))
    else:
        ta, tb = ctx.prog.type_of(f.module, a) or "", ctx.prog.type_of(f.module, b) or ""
        if ta.split(".")[-1] == "str" and tb.split(".")[-1] == "str" and (wrapped(a, kname) or wrapped(b, kname)):
            # typed fact: both operands are plain strings, one of them the table key
            chk.refute(rule2, f"{f.fq}::predicate", f"`{norm(pred)}` compares version *strings*: the order is lexicographic ('2.10' < '2.2', '10.0' < '2.0'), so releases with a two-digit component select an older protocol than the newest one not above them", ctx.loc(f, pred))
            return
        raise AnalysisError(f"SELECT-1: predicate `{norm(pred)}` does not compare the reported version with the table key")
    if rel is None:
        raise AnalysisError(f"SELECT-1: comparison operator in `{norm(pred)}` not recognised")
    # meaning as relation "reported ? key"
    if neg:
        rel = {ast.Lt: "nlt", ast.Gt: "ngt", ast.LtE: "nle", ast.GtE: "nge"}[rel]
    else:
        rel = {ast.Lt: "lt", ast.Gt: "gt", ast.LtE: "le", ast.GtE: "ge"}[rel]
    key = f"{f.fq}::predicate"
    loc = ctx.loc(f, pred)
    uses_av = "AwesomeVersion" in cn.canon(pred)
    if rel in ("ge", "nlt"):
        chk.ok(rule, key, f"`{norm(pred)}`: reported version not below the key", loc)
    else:
        chk.refute(rule, key, f"`{norm(pred)}` selects keys the reported version is {'above' if rel in ('gt', 'nle') else 'below'}{' or equal to' if rel in ('le', 'ngt') else ''}; the newest protocol not above the reported version needs `reported >= key`", loc)
    if not uses_av:
        raise AnalysisError("CMP-TOTAL: the comparison does not use AwesomeVersion - no summary for this comparator")
    if rel == "nlt":
        chk.ok(rule2, key, "`not (reported < key)` is total: 2.2.0 vs 2.2 -> True", loc)
    elif rel == "ge":
        chk.refute(rule2, key, "`AwesomeVersion(reported) >= AwesomeVersion(key)` is string-equal-or-greater: for 2.2.0 vs 2.2 (and every x.y.0) it is False, so 2.2.0 selects 2.1 and 2.0.0 selects 1.5", loc)
    else:
        chk.ok(rule2, key, "direction refuted by SELECT-1; totality not applicable", loc, sample=False)


def _private_helper_of_owners(ctx: Ctx, f, depth: int = 0) -> bool:
    """A private Gateway method called only by Gateway.__init__ / the protocol_version setter - or by other such helpers."""
    if f.cls is None or f.cls.fq != GW or not f.name.startswith("_") or f.name.startswith("__") or depth > 3:
        return False
    callers = []
    for g_ in ctx.prog.all_functions():
        if g_ is f:
            continue
        if any(isinstance(x, ast.Attribute) and x.attr == f.name for x in ctx.own_nodes(g_)):
            callers.append(g_)
    return bool(callers) and all(g_.cls is f.cls and (g_.name == "__init__" or g_.is_setter() or _private_helper_of_owners(ctx, g_, depth + 1)) for g_ in callers)


def copies1(ctx: Ctx, chk) -> None:
    rule = "COPIES-1"
    chk.rule(rule, "the three copies of 'which protocol is active' (_protocol_version, _protocol, schema context) are written only by Gateway.__init__, the protocol_version setter and MessageSchema.set_protocol, and every write of _protocol is followed on all normal paths by set_protocol with the same value")
    n = 0
    from .common import state_attrs

    sa_ = state_attrs(ctx)
    for f in ctx.prog.all_functions():
        for node in ctx.own_nodes(f):
            if isinstance(node, (ast.Assign, ast.AnnAssign, ast.AugAssign)):
                targets = node.targets if isinstance(node, ast.Assign) else [node.target]
                for t in targets:
                    w = None
                    if isinstance(t, ast.Attribute) and t.attr in (sa_["protocol"], sa_["version"]):
                        w = t.attr
                    if isinstance(t, ast.Subscript) and isinstance(t.slice, ast.Constant) and t.slice.value == "protocol" and norm(t.value).endswith("context"):
                        w = "context['protocol']"
                    if w is None:
                        continue
                    n += 1
                    chk.instance(rule)
                    owner_ok = (f.cls is not None and f.cls in ctx.cls(GW).repo_mro() and (f.name == "__init__" or f.is_setter())) or (f.fq == "aiomysensors.model.message.MessageSchema.set_protocol") or _private_helper_of_owners(ctx, f)
                    if owner_ok:
                        chk.ok(rule, fkey(f, node), f"{f.qualname} may write {w}", ctx.loc(f, node), sample=n <= 2)
                    else:
                        chk.refute(rule, fkey(f, node), f"{f.qualname} writes {w}: the copies of the active protocol can drift apart", ctx.loc(f, node))
    chk.floor(rule, "writes of protocol state", n, 3)
    gw = ctx.cls(GW)
    for fl in gw.mro_methods().values():
        for f in fl:
            stores = [s for s in ctx.own_nodes(f) if isinstance(s, ast.Assign) and any(isinstance(t, ast.Attribute) and t.attr == sa_["protocol"] for t in s.targets)]
            if not stores:
                continue
            g = CFG(f.node)
            cn = Canon(ctx.I, f)
            for s in stores:
                chk.instance(rule)
                val = cn.canon(s.value)
                sn = g.nodes_of(s)
                goal = lambda x, val=val: isinstance(x.ast, ast.Expr) and isinstance(x.ast.value, ast.Call) and norm(x.ast.value.func).endswith(".set_protocol") and canon_sa(ctx, cn, f, x.ast.value.args[0]) == val  # noqa: E731
                # a normal path from the store to exit that avoids set_protocol(value)?
                p = g.reach_avoiding(sn, lambda x: x is g.exit, goal, labels_skip=("exc",))
                if p is None:
                    chk.ok(rule, fkey(f, s) + "::then set_protocol", "every normal path continues through set_protocol(<same value>)", ctx.loc(f, s))
                else:
                    chk.refute(rule, fkey(f, s) + "::then set_protocol", f"after `{norm(s)[:70]}` a normal path reaches the end of {f.qualname} without message_schema.set_protocol(<that protocol>): the decoder keeps validating with the old rules", ctx.loc(f, s))


def gate1(ctx: Ctx, chk) -> None:
    rule = "GATE-1"
    chk.rule(rule, "in handle_internal / handle_stream every path to the dispatch passes through the active protocol's Internal(type) / Stream(type) lookup inside try/except ValueError -> raise UnsupportedMessageError; the handler lookup has default None and _handle_message returns the message for None (types that exist are accepted)")
    I = ctx.I
    cells = tables.handler_cells(ctx)
    done = set()
    for V in ctx.versions:
        for kind, enum_name in (("internal", "Internal"), ("stream", "Stream")):
            top = cells[V].get(("cmd", kind))
            if top is None:
                raise AnalysisError(f"GATE-1: no handler for command {kind} in {V}")
            for f in tables.chain_defs(ctx, top, V):
                if not any(g is f for g, _ in I.dispatch_sites()):
                    continue
                if (f, kind) in done:
                    continue
                done.add((f, kind))
                chk.instance(rule)
                msg = message_param(f)
                cn = Canon(I, f)
                calls = [n for n in ctx.own_nodes(f) if isinstance(n, ast.Call) and norm(n.func) == f"gateway.protocol.{enum_name}"]
                key = f"{f.fq}::gate"
                if len(calls) != 1:
                    other = [n for n in ctx.own_nodes(f) if isinstance(n, ast.Call) and norm(n.func).endswith(f".{enum_name}") or (isinstance(n, ast.Call) and norm(n.func) == enum_name)]
                    if other:
                        chk.refute(rule, key, f"the type gate uses `{norm(other[0].func)}` instead of the active protocol's table gateway.protocol.{enum_name}: types of another version are accepted/refused", ctx.loc(f, other[0]))
                    else:
                        chk.refute(rule, key, f"{f.qualname} has no gate on gateway.protocol.{enum_name}(message.message_type)", f.where)
                    continue
                c = calls[0]
                arg_ok = len(c.args) == 1 and cn.canon(c.args[0]) == "In.message_type"
                # inside try/except ValueError -> raise UnsupportedMessageError
                tr = None
                cur = c
                while cur in ctx.prog.parents and cur is not f.node:
                    cur = ctx.prog.parents[cur]
                    if isinstance(cur, ast.Try):
                        tr = cur
                        break
                conv = False
                if tr is not None:
                    for h in tr.handlers:
                        elts = h.type.elts if isinstance(h.type, ast.Tuple) else [h.type] if h.type is not None else []
                        if any(norm(x) in ("ValueError", "Exception") for x in elts):
                            rs = [x for b in h.body for x in ast.walk(b) if isinstance(x, ast.Raise) and isinstance(x.exc, ast.Call)]
                            if rs and norm(rs[0].exc.func) == "UnsupportedMessageError":
                                conv = True
                # the idiom site uses the looked-up member and default None
                ic = [cc for g_, cc in I.dispatch_sites() if g_ is f][0]
                dflt_ok = len(ic.args) == 3 and isinstance(ic.args[2], ast.Constant) and ic.args[2].value is None
                # gate dominates the dispatch
                g = CFG(f.node)
                gate_nodes = g.nodes_where(lambda x: x.contains(c))
                disp_nodes = g.nodes_where(lambda x: x.contains(ic))
                dom = bool(gate_nodes) and bool(disp_nodes) and all(any(g.dominates(gn, dn) for gn in gate_nodes) for dn in disp_nodes)
                probs = []
                if not arg_ok:
                    probs.append(f"the gate looks up `{norm(c.args[0]) if c.args else ''}`, not the message type")
                if not conv:
                    probs.append("an unknown type is not converted into UnsupportedMessageError (try/except ValueError)")
                if not dflt_ok:
                    probs.append("the handler lookup has no `None` default: an existing type without handler raises AttributeError instead of being accepted")
                if not dom:
                    probs.append("a path reaches the handler lookup without passing the gate")
                if probs:
                    chk.refute(rule, key, "; ".join(probs), ctx.loc(f, c))
                else:
                    chk.ok(rule, key, f"gateway.protocol.{enum_name}(In.message_type) in try/except ValueError -> UnsupportedMessageError dominates the lookup (default None)", ctx.loc(f, c))
    chk.floor(rule, "gates", len(done), 2)
    # "types that exist are accepted": the enum lookup is the only thing that refuses a type - every
    # `raise UnsupportedMessageError` in handler code sits in the `except ValueError` of that lookup
    for f in tables.all_handler_defs(ctx, include_wrappers=True):
        for r in [x for x in ctx.own_nodes(f) if isinstance(x, ast.Raise) and x.exc is not None and norm(x.exc.func if isinstance(x.exc, ast.Call) else x.exc) == "UnsupportedMessageError"]:
            chk.instance(rule)
            key = fkey(f, r) + "::only-from-the-gate"
            cur = r
            inside = None
            while cur in ctx.prog.parents and cur is not f.node:
                par = ctx.prog.parents[cur]
                if isinstance(par, ast.ExceptHandler):
                    inside = par
                    break
                cur = par
            ok = False
            if inside is not None:
                tr = ctx.prog.parents.get(inside)
                elts = inside.type.elts if isinstance(inside.type, ast.Tuple) else [inside.type] if inside.type is not None else []
                gate_calls = [c_ for b in (tr.body if isinstance(tr, ast.Try) else []) for c_ in ast.walk(b) if isinstance(c_, ast.Call) and norm(c_.func) in ("gateway.protocol.Internal", "gateway.protocol.Stream")]
                ok = any(norm(x) == "ValueError" for x in elts) and bool(gate_calls)
            if ok:
                chk.ok(rule, key, "raised only when the active protocol's enum has no such member", ctx.loc(f, r), sample=False)
            else:
                chk.refute(rule, key, f"{f.qualname} refuses a message as unsupported outside the enum lookup of the active protocol (`{norm(r)[:60]}`): a type that exists in the active protocol can be refused (e.g. a member whose value is 0 is falsy)", ctx.loc(f, r))
    # _handle_message returns message for None
    for V in ctx.versions[:1]:
        cls = I.vclass(V, "IncomingMessageHandler")
        hm = cls.find_method("_handle_message")
        if hm is None:
            raise AnalysisError("anchor vanished: _handle_message")
        chk.instance(rule)
        msg = message_param(hm)
        # under "no handler" (the looked-up handler is None) every normal path returns the message itself
        from ..prov import truth3

        cn_h = Canon(I, hm)
        g_h = CFG(hm.node)
        hparams = [p_ for p_ in hm.positional_params if any(isinstance(x, ast.Call) and isinstance(x.func, ast.Name) and x.func.id == p_ for x in ctx.own_nodes(hm))]
        ok = False
        if len(hparams) == 1:
            hname = hparams[0]
            assume = {f"{hname} == None": True}
            rets_msg = [x for x in g_h.nodes if isinstance(x.ast, ast.Return) and x.ast.value is not None and norm(x.ast.value) == msg]
            calls_h = g_h.nodes_where(lambda x: x.ast is not None and any(isinstance(c_, ast.Call) and isinstance(c_.func, ast.Name) and c_.func.id == hname for p_ in x.parts() for c_ in ast.walk(p_)))

            def tr(tn):
                v = truth3(cn_h, tn.ast, assume)
                if v is None and isinstance(tn.ast, ast.Name) and tn.ast.id == hname:
                    return False
                if v is None and isinstance(tn.ast, ast.UnaryOp) and isinstance(tn.ast.op, ast.Not) and isinstance(tn.ast.operand, ast.Name) and tn.ast.operand.id == hname:
                    return True
                return v

            # no path (consistent with handler None) reaches the exit except through `return <message>`, and none calls the handler
            p1 = g_h.reach_avoiding([g_h.entry], lambda x: x is g_h.exit, lambda x: x in rets_msg, labels_skip=("exc",), from_succ=False, truth=tr)
            p2 = g_h.reach_avoiding([g_h.entry], lambda x: x in calls_h, lambda x: False, labels_skip=("exc",), from_succ=False, truth=tr)
            ok = p1 is None and p2 is None and bool(rets_msg)
        if ok:
            chk.ok(rule, f"{hm.fq}::None", "no handler -> the message is returned unchanged", hm.where)
        else:
            chk.refute(rule, f"{hm.fq}::None", "_handle_message does not return the message when no handler exists for an existing type", hm.where)


def who_version(ctx: Ctx, chk) -> None:
    rule = "WHO-VERSION"
    chk.rule(rule, "Gateway.protocol_version is assigned only by the handlers of a version report (version reply / gateway presentation), from the reported payload: nothing else (start-up, persistence, configuration) can put rules other than 1.4 in force before the gateway has reported a version")
    I = ctx.I
    cells = tables.handler_cells(ctx)
    allowed = set()
    for V in ctx.versions:
        for value, name in I.folder.enum_canonical(I.vclass(V, "Internal")).items():
            if name == "I_VERSION" and cells[V].get(("internal", value)) is not None:
                allowed |= set(tables.chain_defs(ctx, cells[V][("internal", value)], V))
    n = 0
    for f in ctx.prog.all_functions():
        for node in ctx.own_nodes(f):
            if not isinstance(node, (ast.Assign, ast.AugAssign, ast.AnnAssign)):
                continue
            targets = node.targets if isinstance(node, ast.Assign) else [node.target]
            for t in targets:
                if not (isinstance(t, ast.Attribute) and t.attr == "protocol_version"):
                    continue
                bt = ctx.prog.type_of(f.module, t.value) or ""
                is_gw = bt.split(" | ")[0].rsplit(".", 1)[-1] in ("Gateway", "Self") and (bt != "Self" or (f.cls is not None and f.cls.fq == GW))
                if not bt and isinstance(t.value, ast.Name) and t.value.id == "self":
                    is_gw = f.cls is not None and f.cls.fq == GW
                if not is_gw:
                    continue
                n += 1
                chk.instance(rule)
                k = fkey(f, node)
                if f in allowed:
                    chk.ok(rule, k, "assigned by the version-report handler", ctx.loc(f, node))
                else:
                    chk.refute(rule, k, f"{f.qualname} assigns the gateway's protocol version (`{norm(node)[:70]}`) although no version report is being handled: the active rules no longer follow what the gateway reported (1.4 until the first report)", ctx.loc(f, node))
    chk.floor(rule, "assignments of Gateway.protocol_version", n, 1)


def learn1(ctx: Ctx, chk) -> None:
    rule = "LEARN-1"
    chk.rule(rule, "the version reply handler assigns gateway.protocol_version = In.payload, and a node presentation with In.node_id == 0 reaches it")
    I = ctx.I
    cells = tables.handler_cells(ctx)
    for V in ctx.versions:
        chk.instance(rule)
        ver_val = None
        for value, name in I.folder.enum_canonical(I.vclass(V, "Internal")).items():
            if name == "I_VERSION":
                ver_val = value
        cal = cells[V].get(("internal", ver_val))
        key = f"handle_i_version@{V}"
        if cal is None:
            chk.refute(rule, "handle_i_version", f"protocol {V} has no handler for the version reply (I_VERSION): the gateway's version is never learned", "src/aiomysensors/model/protocol/protocol_14.py", version=V)
            continue
        ok = False
        where = ""
        for f in tables.chain_defs(ctx, cal, V):
            cn = Canon(I, f)
            for n in ctx.own_nodes(f):
                if isinstance(n, ast.Assign) and any(norm(t) == "gateway.protocol_version" for t in n.targets):
                    where = ctx.loc(f, n)
                    if cn.canon(n.value) == "In.payload":
                        ok = True
        if ok:
            chk.ok(rule, key, "gateway.protocol_version = In.payload", where, sample=V == "1.4")
        else:
            chk.refute(rule, "handle_i_version::assign", f"the version reply handler (protocol {V}) does not store the reported version (gateway.protocol_version = In.payload)", where or "src/aiomysensors/model/protocol/protocol_14.py", version=V)
        # presentation of node 0: every normal path through the presentation chain that is consistent with
        # In.child_id == 255 and In.node_id == 0 runs the version handler (whatever the shape of the branches)
        chk.instance(rule)
        pres = cells[V].get(("cmd", "presentation"))
        reach = False
        locp = ""
        why = f"a gateway (node 0) presentation does not reach the version handler in protocol {V}"
        from ..prov import truth3

        assume = {"In.child_id == 255": True, "In.node_id == 0": True}
        # every definition on the chain (wrappers, overrides, the 1.4 handler): each normal path consistent with
        # node 0 / child 255 runs the version handler or hands over to the next chain element
        chain = tables.chain_defs(ctx, pres, V) if pres else []
        has_call = False
        bad = None
        for f in chain:
            calls = [x for x in ctx.own_nodes(f) if isinstance(x, ast.Call) and norm(x.func).endswith("handle_i_version")]
            wrapped_params = ctx.I.wrapped_param_names(f)
            deleg = []
            for c in ctx.own_nodes(f):
                if not isinstance(c, ast.Call):
                    continue
                fn = c.func
                is_super = isinstance(fn, ast.Attribute) and isinstance(fn.value, ast.Call) and norm(fn.value.func) == "super" and fn.attr == "handle_presentation"
                is_wrapped = isinstance(fn, ast.Name) and fn.id in wrapped_params
                if is_super or is_wrapped:
                    deleg.append(c)
            if calls:
                has_call = True
                locp = ctx.loc(f, calls[0])
            cn = Canon(I, f)
            g = CFG(f.node)
            stop = g.nodes_where(lambda x: any(x.contains(c) for c in calls + deleg))
            p = g.reach_avoiding([g.entry], lambda x: x is g.exit, lambda x: x in stop, labels_skip=("exc",), from_succ=False, truth=lambda t, cn=cn: truth3(cn, t.ast, assume))
            if p is not None and bad is None:
                bad = (f, g.path_text(p))
        if has_call and bad is None:
            reach = True
        elif bad is not None:
            locp = bad[0].where
            why = f"a presentation of node 0 (child 255) can complete in {bad[0].qualname} without running the version handler and without handing over to the next handler of the chain ({' -> '.join(bad[1][1:6])}): a gateway presentation does not update the active protocol (protocol {V})"
        if reach:
            chk.ok(rule, f"presentation(node 0)@{V}", "every normal path consistent with child 255 and node 0 calls handle_i_version", locp, sample=False)
        else:
            chk.refute(rule, "presentation(node 0)", why, locp or "src/aiomysensors/model/protocol/protocol_14.py", version=V)


def _version_functions(ctx: Ctx) -> list:
    """The version-reply handler definitions of every protocol version, the protocol_version setter, get_protocol
    and the repository helpers they call (not the gateway's send / listen machinery)."""
    from .common import callee_names

    I = ctx.I
    cells = tables.handler_cells(ctx)
    out: list = []
    for V in ctx.versions:
        ver_val = next((v for v, nm in I.folder.enum_canonical(I.vclass(V, "Internal")).items() if nm == "I_VERSION"), None)
        cal = cells[V].get(("internal", ver_val))
        if cal is None:
            continue
        for f in tables.chain_defs(ctx, cal, V):
            # the handler definitions themselves (decorator wrappers guard other things and are judged by C06 / C10)
            if f.name == "handle_i_version" and f not in out:
                out.append(f)
    gw = ctx.cls(GW)
    for fl in gw.mro_methods().values():
        for f in fl:
            if f.name == "protocol_version" and f.is_setter():
                out.append(f)
    out.append(ctx.func(GET))
    work = list(out)
    while work:
        f = work.pop()
        for n in ctx.own_nodes(f):
            if isinstance(n, ast.Call):
                for nm in callee_names(ctx, f, n):
                    if not nm.startswith("aiomysensors.") or nm.startswith("aiomysensors.exceptions."):
                        continue
                    try:
                        h = ctx.func(nm)
                    except Exception:  # noqa: BLE001  a class (constructor) - its __init__ is not a rejection site
                        continue
                    if h.is_async and h.cls is not None and h.cls in gw.repo_mro():
                        continue
                    if h not in out:
                        out.append(h)
                        work.append(h)
    return out


def report_total(ctx: Ctx, chk) -> None:
    rule = "REPORT-TOTAL"
    chk.rule(rule, "a version report is never rejected by the library's own code: on the way from the version reply to the selected protocol (handler, protocol_version setter, get_protocol and their helpers) the only `raise` statements are translations, in an `except` clause, of an exception the version comparison itself raised - every release version string major.minor[.patch[.build]] selects a protocol, none is refused on its shape, length or release scheme")
    n = 0
    for f in _version_functions(ctx):
        for r in [x for x in ctx.own_nodes(f) if isinstance(x, ast.Raise)]:
            n += 1
            chk.instance(rule)
            key = f"{f.fq}::raise::{norm(r.exc)[:60] if r.exc is not None else 're-raise'}"
            # enclosing except handler?
            cur, handler = r, None
            while cur is not None and cur is not f.node:
                cur = ctx.prog.parents.get(cur)
                if isinstance(cur, ast.ExceptHandler):
                    handler = cur
                    break
            if handler is not None:
                tr = ctx.prog.parents.get(handler)
                body_ok = isinstance(tr, ast.Try) and all(_is_version_store(st) for st in tr.body)
                if body_ok:
                    chk.ok(rule, key, "translates an exception raised by the version comparison (the try body is only the version store / protocol selection)", ctx.loc(f, r), sample=n <= 2)
                    continue
                chk.refute(rule, key, f"{f.qualname} turns a failure of `{norm(tr.body[0])[:60] if isinstance(tr, ast.Try) and tr.body else '?'}` into a rejection of the version report: the try block does more than store the version / select the protocol, so a release version string can be refused for a reason other than the version comparison itself", ctx.loc(f, r))
                continue
            chk.refute(rule, key, f"{f.qualname} rejects a version report by itself (`{norm(r)[:80]}`): a release version string that the comparison would have ordered (for example a four-component 2.2.0.1 or a two-digit major 10.0) is refused, the reported version is not taken over and the rules of the previous protocol stay in force", ctx.loc(f, r))
    for f in _version_functions(ctx):
        for c in [x for x in ctx.own_nodes(f) if isinstance(x, ast.Call) and norm(x.func).rsplit(".", 1)[-1] == "AwesomeVersion"]:
            chk.instance(rule)
            key = f"{f.fq}::AwesomeVersion-options::{norm(c)[:60]}"
            if c.keywords or len(c.args) != 1:
                chk.refute(rule, key, f"`{norm(c)[:80]}` passes options to AwesomeVersion (ensure_strategy / find_first_match ...): the constructor then refuses version strings of other release schemes (10.0 and 2021.1 are detected as CalVer) that the plain comparison orders correctly", ctx.loc(f, c))
            else:
                chk.ok(rule, key, "plain AwesomeVersion(<version>)", ctx.loc(f, c), sample=False)
    chk.notes[f"{rule}:functions"] = [f.fq for f in _version_functions(ctx)]
    chk.floor(rule, "functions on the version-report path", len(_version_functions(ctx)), 3)


def _is_version_store(st: ast.stmt) -> bool:
    if isinstance(st, ast.Assign) and any(norm(t).endswith("protocol_version") for t in st.targets):
        return True
    if isinstance(st, (ast.Assign, ast.AnnAssign, ast.Return, ast.Expr)) and st.value is not None:
        v = st.value
        if isinstance(v, ast.Call) and norm(v.func).rsplit(".", 1)[-1] in ("get_protocol", "AwesomeVersion"):
            return True
    return False


def _catches(ctx: Ctx, f, handler: ast.ExceptHandler, exc_fq: str) -> bool:
    """The except clause catches exc_fq (itself, a base class of it, or everything)."""
    if handler.type is None:
        return True
    eea = ctx.eea()
    elts = handler.type.elts if isinstance(handler.type, ast.Tuple) else [handler.type]
    for x in elts:
        d = ctx.prog.resolve_expr(f.module, x) if isinstance(x, (ast.Name, ast.Attribute)) else None
        if d is None:
            return True  # not resolvable: assume it may catch
        full = d.obj.fq if d.kind == "class" else d.obj if d.kind == "external" else None
        if full is None or eea.issub(exc_fq, full):
            return True
    return False


def _always_reraises(handler: ast.ExceptHandler) -> bool:
    """Every way through the handler body ends in a bare `raise` / `raise <the caught name>` (statement level; an
    if/else both of whose branches do counts)."""

    def ends(stmts) -> bool:
        if not stmts:
            return False
        last = stmts[-1]
        if isinstance(last, ast.Raise):
            return last.exc is None or (isinstance(last.exc, ast.Name) and last.exc.id == handler.name) or last.cause is not None or isinstance(last.exc, ast.Call)
        if isinstance(last, ast.If):
            return ends(last.body) and ends(last.orelse)
        if isinstance(last, (ast.With, ast.AsyncWith)):
            return ends(last.body)
        if isinstance(last, ast.Try):
            return ends(last.finalbody) or (ends(last.body) and all(ends(h.body) for h in last.handlers))
        return False

    return ends(handler.body)


def suppressing_withs(ctx: Ctx, fi, exc_fq: str) -> list:
    """`with` statements of fi, around code that awaits, whose context manager can swallow exc_fq:
    contextlib.suppress(<a base of it>), or a repository class whose __exit__ / __aexit__ can return something truthy.
    (Managers the parse-time desugaring could translate are try statements by now and judged as such.)"""
    out = []
    eea = ctx.eea()
    for w in [x for x in ctx.own_nodes(fi) if isinstance(x, (ast.With, ast.AsyncWith))]:
        if not any(isinstance(x, ast.Await) for b in w.body for x in ast.walk(b)):
            continue
        for it in w.items:
            ce = it.context_expr
            if not isinstance(ce, ast.Call):
                continue
            d = ctx.prog.resolve_expr(ctx.prog.origin(fi.module, ce), ce.func) if isinstance(ce.func, (ast.Name, ast.Attribute)) else None
            if d is None:
                continue
            if d.kind == "external" and d.obj.rsplit(".", 1)[-1] == "suppress":
                for a in ce.args:
                    da = ctx.prog.resolve_expr(ctx.prog.origin(fi.module, a), a) if isinstance(a, (ast.Name, ast.Attribute)) else None
                    full = da.obj.fq if da is not None and da.kind == "class" else da.obj if da is not None and da.kind == "external" else None
                    if full is None or eea.issub(exc_fq, full):
                        out.append((w, f"`{norm(ce)[:60]}` suppresses it"))
            elif d.kind == "class":
                ex = d.obj.find_method("__aexit__") or d.obj.find_method("__exit__")
                if ex is None:
                    continue
                for r in [n for n in ctx.own_nodes(ex) if isinstance(n, ast.Return) and n.value is not None]:
                    if isinstance(r.value, ast.Constant) and not r.value.value:
                        continue
                    out.append((w, f"{d.obj.name}.{ex.name} can return `{norm(r.value)[:40]}` (line {r.lineno}): a truthy result makes the `with` statement swallow the exception"))
                    break
    return out


def gate_esc(ctx: Ctx, chk) -> None:
    rule = "GATE-ESC"
    chk.rule(rule, "a refusal reaches the caller: on the way from the type gate to Gateway.listen (the internal / stream handlers, their decorator wrappers, the dispatch helper and listen itself) no `except` clause that can catch UnsupportedMessageError lets the handling go on without raising - a refused type is never accepted after all, whatever the gateway's state (for example while no version has been reported)")
    UNS = "aiomysensors.exceptions.UnsupportedMessageError"
    cells = tables.handler_cells(ctx)
    funcs: list = []
    for V in ctx.versions:
        for kind in ("internal", "stream"):
            top = cells[V].get(("cmd", kind))
            if top is None:
                continue
            for f in tables.chain_defs(ctx, top, V):
                if f not in funcs:
                    funcs.append(f)
    funcs.append(ctx.func("aiomysensors.gateway.Gateway.listen"))
    n = 0
    for f in funcs:
        fi = ctx.inl(f, lambda h: not h.name.startswith("handle_"))
        for h in [x for x in ctx.own_nodes(fi) if isinstance(x, ast.ExceptHandler)]:
            tr = ctx.prog.parents.get(h)
            # only handlers around code that can run the gate: the try body contains a call (the wrapped function, the
            # dispatch, a handler) - a try around a pure conversion cannot see the refusal
            if not isinstance(tr, ast.Try) or not any(isinstance(x, ast.Await) for b in tr.body for x in ast.walk(b)):
                continue
            if not _catches(ctx, fi, h, UNS):
                continue
            n += 1
            chk.instance(rule)
            key = f"{f.fq}::except {norm(h.type) if h.type is not None else ''}"
            if _always_reraises(h):
                chk.ok(rule, key, "the clause ends in a raise on every path", ctx.loc(fi, h), sample=n <= 2)
            else:
                chk.refute(rule, key, f"`except {norm(h.type) if h.type is not None else ''}` in {f.qualname} can catch the refusal of an unsupported type and complete without raising: a type that does not exist in the active protocol is then accepted (yielded as handled) instead of refused", ctx.loc(fi, h))
        for w, why in suppressing_withs(ctx, fi, UNS):
            n += 1
            chk.instance(rule)
            chk.refute(rule, f"{f.fq}::with::{norm(w.items[0].context_expr)[:50]}", f"the `with` statement in {f.qualname} can swallow the refusal of an unsupported type ({why}): the type is then accepted (yielded as handled) instead of refused", ctx.loc(fi, w))
    chk.notes[f"{rule}:handlers"] = n


def select_spelling(ctx: Ctx, chk) -> None:
    rule = "SELECT-SPELL"
    chk.rule(rule, "no path of get_protocol hands out a table entry because the *spelling* of the reported version starts with / ends with / contains a bare table key: '2.10' starts with '2.1' and '1.40' with '1.4', so a prefix test selects 2.1 where the newest protocol not above 2.10 is 2.2; every selection goes through the version comparison (SELECT-1)")
    f = ctx.func(GET)
    param = f.positional_params[0]
    n = 0
    for node in ctx.own_nodes(f):
        tests = []
        if isinstance(node, (ast.If, ast.IfExp, ast.While)):
            tests = [node.test]
        elif isinstance(node, ast.comprehension):
            tests = list(node.ifs)
        for t in tests:
            n += 1
            for x in ast.walk(t):
                bad = None
                if isinstance(x, ast.Call) and isinstance(x.func, ast.Attribute) and x.func.attr in ("startswith", "endswith", "find", "index", "count", "rfind") and isinstance(x.func.value, ast.Name) and x.func.value.id == param and x.args and isinstance(x.args[0], (ast.Name, ast.Constant)):
                    bad = x
                elif isinstance(x, ast.Compare) and len(x.ops) == 1 and isinstance(x.ops[0], (ast.In, ast.NotIn)) and isinstance(x.comparators[0], ast.Name) and x.comparators[0].id == param and isinstance(x.left, (ast.Name, ast.Constant)):
                    bad = x
                if bad is not None:
                    chk.instance(rule)
                    chk.refute(rule, f"{f.fq}::{norm(bad)[:80]}", f"get_protocol decides by `{norm(bad)[:80]}` - a test on the spelling of the reported version against a bare key: '2.10' matches the key '2.1' (and '1.40' the key '1.4'), the protocol chosen is older than the newest one that does not exceed the report", ctx.loc(f, bad))
    chk.instance(rule)
    chk.ok(rule, f"{f.fq}::tests", f"{n} test(s) in get_protocol examined: none compares the spelling of the report with a bare key", ctx.loc(f, f.node), sample=False)
