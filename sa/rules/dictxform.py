"""Abstract evaluation of a mapping-translation hook (marshmallow pre_load) over a finite partition of inputs.

The hook is interpreted - never executed - over abstract dictionaries whose values are one of
  NONE                      the JSON null
  ("in", key, truthy)       the value the input held under `key`; truthy=False stands for 0 / "" / [] ...
  ("const", v)              a constant the hook itself wrote
Every test the supported statement forms can make (`k in d`, `d[k] is None`, truthiness, `or` / `and`
defaults) has a definite outcome on these values, so each abstract input has exactly one abstract output, which
the rule compares with the output the statement specifies.  An unsupported statement form is an analysis error
(exit 2), never a verdict.
"""

from __future__ import annotations

import ast
import itertools

from ..model import AnalysisError, FuncInfo, Unfoldable, norm

NONE = ("none",)
ABSENT = ("absent",)


class _Return(Exception):
    def __init__(self, value) -> None:
        self.value = value


class _Continue(Exception):
    pass


class _Break(Exception):
    pass


def truthy(v) -> bool:
    if v == NONE:
        return False
    if v[0] == "in":
        return v[2]
    if v[0] == "const":
        return bool(v[1])
    raise AnalysisError(f"dictxform: truthiness of {v} unknown")


class Xform:
    def __init__(self, ctx, f: FuncInfo) -> None:
        self.ctx = ctx
        self.f = f
        self.d = f.positional_params[1]
        self.steps = 0

    def run(self, inp: dict) -> dict:
        env = {"__d__": dict(inp)}
        try:
            self.block(self.f.node.body, env)
        except _Return as r:
            if r.value != "__d__":
                raise AnalysisError(f"dictxform: {self.f.qualname} returns something else than its mapping") from None
            return env["__d__"]
        raise AnalysisError(f"dictxform: {self.f.qualname} can end without returning the mapping")

    # ------------------------------------------------------------------
    def block(self, stmts, env) -> None:
        for s in stmts:
            self.steps += 1
            if self.steps > 5000:
                raise AnalysisError("dictxform: evaluation did not terminate")
            self.stmt(s, env)

    def stmt(self, s, env) -> None:
        d = env["__d__"]
        if isinstance(s, ast.Expr) and isinstance(s.value, ast.Constant):
            return
        if isinstance(s, ast.Pass):
            return
        if isinstance(s, ast.Expr) and isinstance(s.value, ast.Call) and self._is_d_method(s.value, ("pop",)):
            self.expr(s.value, env)
            return
        if isinstance(s, ast.Expr) and isinstance(s.value, ast.Call) and isinstance(s.value.func, ast.Attribute) and isinstance(s.value.func.value, ast.Name) and s.value.func.value.id in env:
            # a method of a constant record applied to the mapping (`rule.apply(data)`): interpreted with self := the record
            from ..model import Rec

            base = env[s.value.func.value.id]
            if isinstance(base, tuple) and base[:1] == ("val",) and len(base) == 2 and isinstance(base[1], tuple) and base[1][:1] == ("const",):
                base = base[1][1]
            c = s.value
            if isinstance(base, Rec) and len(c.args) == 1 and not c.keywords and self._is_d(c.args[0]):
                dcl = self.ctx.prog.lookup_fullname(base._cls)
                m = dcl.obj.find_method(c.func.attr) if dcl is not None and dcl.kind == "class" else None
                if m is not None and len(m.positional_params) == 2 and not m.is_async:
                    env2 = {"__d__": env["__d__"], m.positional_params[0]: base}
                    saved_d, saved_f = self.d, self.f
                    self.d, self.f = m.positional_params[1], m
                    try:
                        self.block(m.node.body, env2)
                    except _Return as r:
                        if r.value not in (None, "None"):
                            raise AnalysisError(f"dictxform: {m.qualname} returns a value") from None
                    finally:
                        self.d, self.f = saved_d, saved_f
                    return
        if isinstance(s, ast.If):
            self.block(s.body if self.test(s.test, env) else s.orelse, env)
            return
        if isinstance(s, ast.For) and not s.orelse and (isinstance(s.target, ast.Name) or (isinstance(s.target, ast.Tuple) and all(isinstance(x, ast.Name) for x in s.target.elts))):
            items = self.const(s.iter, env)
            if isinstance(items, dict):
                items = tuple(items)
            if not isinstance(items, (tuple, list, set, frozenset)):
                raise AnalysisError(f"dictxform: cannot enumerate `{norm(s.iter)}`")
            for it in (sorted(items) if isinstance(items, (set, frozenset)) else items):
                if isinstance(s.target, ast.Name):
                    env[s.target.id] = it
                else:
                    if not isinstance(it, (tuple, list)) or len(it) != len(s.target.elts):
                        raise AnalysisError(f"dictxform: cannot unpack an element of `{norm(s.iter)}`")
                    for nm, v_ in zip(s.target.elts, it):
                        env[nm.id] = v_
                try:
                    self.block(s.body, env)
                except _Continue:
                    continue
                except _Break:
                    break
            return
        if isinstance(s, ast.Continue):
            raise _Continue
        if isinstance(s, ast.Break):
            raise _Break
        if isinstance(s, ast.Assign) and len(s.targets) == 1:
            t = s.targets[0]
            if isinstance(t, ast.Subscript) and self._is_d(t.value):
                k = self.const(t.slice, env)
                v = self.expr(s.value, env)
                if v == ABSENT:
                    raise AnalysisError("dictxform: stores a missing value")
                d[k] = v
                return
            if isinstance(t, ast.Name) and t.id == self.d and self._is_copy_of_d(s.value):
                return  # `data = dict(data)` / copy(data) / deepcopy(data) / {**data}: the same abstract mapping
            if isinstance(t, ast.Name):
                env[t.id] = ("val", self.expr(s.value, env))
                return
        if isinstance(s, ast.Delete) and all(isinstance(t, ast.Subscript) and self._is_d(t.value) for t in s.targets):
            for t in s.targets:
                k = self.const(t.slice, env)
                if k not in d:
                    raise AnalysisError(f"dictxform: `{norm(s)}` deletes a key that may be absent (KeyError)")
                del d[k]
            return
        if isinstance(s, ast.Return):
            if s.value is not None and self._is_d(s.value):
                raise _Return("__d__")
            raise _Return(norm(s.value) if s.value is not None else None)
        raise AnalysisError(f"dictxform: statement `{norm(s)[:70]}` in {self.f.qualname} not modelled (line {s.lineno})")

    def _is_d(self, e) -> bool:
        return isinstance(e, ast.Name) and e.id == self.d

    def _is_copy_of_d(self, e) -> bool:
        if isinstance(e, ast.Call) and not e.keywords and len(e.args) == 1 and self._is_d(e.args[0]) and norm(e.func).rsplit(".", 1)[-1] in ("dict", "copy", "deepcopy"):
            return True
        if isinstance(e, ast.Call) and not e.keywords and not e.args and isinstance(e.func, ast.Attribute) and e.func.attr == "copy" and self._is_d(e.func.value):
            return True
        if isinstance(e, ast.Dict) and len(e.keys) == 1 and e.keys[0] is None and self._is_d(e.values[0]):
            return True
        return False

    def _is_d_method(self, c: ast.Call, names) -> bool:
        return isinstance(c.func, ast.Attribute) and c.func.attr in names and self._is_d(c.func.value)

    def const(self, e, env):
        """A concrete Python constant (key, tuple of keys, default value)."""
        if isinstance(e, ast.Constant):
            return e.value
        if isinstance(e, ast.Name) and e.id in env and not (isinstance(env[e.id], tuple) and env[e.id][:1] == ("val",)):
            return env[e.id]
        if isinstance(e, ast.Name) and e.id in env and env[e.id][1][:1] == ("const",):
            return env[e.id][1][1]  # a local bound to a constant (e.g. a parameter of an inlined helper)
        if isinstance(e, ast.Name) and e.id in env and env[e.id][1] == NONE:
            return None
        if isinstance(e, ast.Dict) and all(k is not None for k in e.keys):
            return {self.const(k, env): self.const(v, env) for k, v in zip(e.keys, e.values)}
        if isinstance(e, ast.BoolOp):
            v = None
            for x in e.values:
                v = self.const(x, env)
                if isinstance(e.op, ast.Or) and v:
                    return v
                if isinstance(e.op, ast.And) and not v:
                    return v
            return v
        if isinstance(e, ast.Attribute) and isinstance(e.value, ast.Name) and e.value.id in env:
            from ..model import Rec

            base = env[e.value.id]
            if isinstance(base, tuple) and base[:1] == ("val",) and len(base) == 2 and isinstance(base[1], tuple) and base[1][:1] == ("const",):
                base = base[1][1]
            if isinstance(base, Rec) and e.attr in base._names:
                return base.field(e.attr)  # a field of a constant record (the element of a constant table)
        if isinstance(e, (ast.Tuple, ast.List)):
            return tuple(self.const(x, env) for x in e.elts)
        if isinstance(e, ast.Call) and isinstance(e.func, ast.Attribute) and e.func.attr in ("items", "keys", "values") and not e.args and not e.keywords:
            base = self.const(e.func.value, env)
            if isinstance(base, dict):
                return tuple(base.items()) if e.func.attr == "items" else tuple(base) if e.func.attr == "keys" else tuple(base.values())
            raise AnalysisError(f"dictxform: `{norm(e)}` is not a view of a constant mapping")
        try:
            return self.ctx.folder.plain(self.ctx.folder.fold(self.f.module, e))
        except Unfoldable as err:
            raise AnalysisError(f"dictxform: cannot fold `{norm(e)}`: {err}") from err

    def expr(self, e, env):
        """An abstract value."""
        d = env["__d__"]
        if isinstance(e, ast.Constant):
            return NONE if e.value is None else ("const", e.value)
        if isinstance(e, ast.Name):
            if e.id in env and isinstance(env[e.id], tuple) and env[e.id][:1] == ("val",):
                return env[e.id][1]
            v = self.const(e, env)
            return NONE if v is None else ("const", v)
        if isinstance(e, ast.Subscript) and self._is_d(e.value):
            k = self.const(e.slice, env)
            if k not in d:
                raise AnalysisError(f"dictxform: `{norm(e)}` reads a key that may be absent (KeyError) in {self.f.qualname}")
            return d[k]
        if isinstance(e, ast.Call) and self._is_d_method(e, ("pop", "get")) and 1 <= len(e.args) <= 2 and not e.keywords:
            k = self.const(e.args[0], env)
            if k in d:
                v = d[k]
                if e.func.attr == "pop":
                    del d[k]
                return v
            if len(e.args) == 2:
                return self.expr(e.args[1], env)
            if e.func.attr == "get":
                return NONE
            raise AnalysisError(f"dictxform: `{norm(e)}` pops a key that may be absent (KeyError) in {self.f.qualname}")
        if isinstance(e, ast.BoolOp):
            v = None
            for x in e.values:
                v = self.expr(x, env)
                if isinstance(e.op, ast.Or) and truthy(v):
                    return v
                if isinstance(e.op, ast.And) and not truthy(v):
                    return v
            return v
        if isinstance(e, ast.IfExp):
            return self.expr(e.body if self.test(e.test, env) else e.orelse, env)
        if isinstance(e, (ast.Attribute, ast.BinOp, ast.Tuple, ast.List)):
            v = self.const(e, env)
            return NONE if v is None else ("const", v)
        raise AnalysisError(f"dictxform: expression `{norm(e)[:60]}` in {self.f.qualname} not modelled")

    def test(self, e, env) -> bool:
        d = env["__d__"]
        if isinstance(e, ast.UnaryOp) and isinstance(e.op, ast.Not):
            return not self.test(e.operand, env)
        if isinstance(e, ast.BoolOp):
            if isinstance(e.op, ast.And):
                return all(self.test(x, env) for x in e.values)
            return any(self.test(x, env) for x in e.values)
        if isinstance(e, ast.Call) and isinstance(e.func, ast.Name) and e.func.id == "isinstance" and len(e.args) == 2 and self._is_d(e.args[0]):
            return True  # the partition enumerates mapping inputs only (other inputs: C14)
        if isinstance(e, ast.Compare) and len(e.ops) == 1:
            op, a, b = e.ops[0], e.left, e.comparators[0]
            if isinstance(op, (ast.In, ast.NotIn)) and self._is_d(b):
                r = self.const(a, env) in d
                return r if isinstance(op, ast.In) else not r
            if isinstance(op, (ast.Is, ast.IsNot)) and isinstance(b, ast.Constant) and b.value is None:
                r = self.expr(a, env) == NONE
                return r if isinstance(op, ast.Is) else not r
            if isinstance(op, (ast.Is, ast.IsNot)):
                # identity with a module-level sentinel (`default is not _UNSET`)
                from ..model import Sentinel

                va, vb = self.expr(a, env), self.expr(b, env)
                sa_ = va[0] == "const" and isinstance(va[1], Sentinel)
                sb_ = vb[0] == "const" and isinstance(vb[1], Sentinel)
                if sa_ or sb_:
                    r = sa_ and sb_ and va[1] == vb[1]
                    return r if isinstance(op, ast.Is) else not r
                raise AnalysisError(f"dictxform: identity test `{norm(e)}` between values that are not sentinels")
            if isinstance(op, (ast.Eq, ast.NotEq)):
                va, vb = self.expr(a, env), self.expr(b, env)
                if va[0] == "in" or vb[0] == "in":
                    if NONE in (va, vb):
                        r = False
                    else:
                        raise AnalysisError(f"dictxform: `{norm(e)}` compares an input value with a constant")
                else:
                    r = va == vb
                return r if isinstance(op, ast.Eq) else not r
        if isinstance(e, ast.Name) and e.id in env and not (isinstance(env[e.id], tuple) and env[e.id][:1] == ("val",)):
            return bool(env[e.id])
        if isinstance(e, (ast.Subscript, ast.Name, ast.Call)):
            return truthy(self.expr(e, env))
        raise AnalysisError(f"dictxform: test `{norm(e)[:60]}` in {self.f.qualname} not modelled")


def input_partition(keys: list[str], extra: dict | None = None):
    """Every assignment of {absent, None, falsy value, truthy value} to the given keys."""
    states = (ABSENT, NONE, "falsy", "truthy")
    for combo in itertools.product(states, repeat=len(keys)):
        d = dict(extra or {})
        for k, st in zip(keys, combo):
            if st == ABSENT:
                continue
            d[k] = NONE if st == NONE else ("in", k, st == "truthy")
        yield d


def show(d: dict) -> str:
    def one(v):
        if v == NONE:
            return "null"
        if v[0] == "in":
            return f"<{'' if v[2] else 'falsy '}value of {v[1]}>"
        return repr(v[1])

    return "{" + ", ".join(f"{k!r}: {one(v)}" for k, v in sorted(d.items())) + "}"
