"""C19 A newer protocol version handles the older protocol's message types identically.

Sibling cross-check: the five protocol modules check one another (no baseline file).
"""

from __future__ import annotations

import ast

from ..model import AnalysisError, FuncInfo, norm
from . import sleepbuf as sb, tables
from .common import Ctx, fkey

ENUMS = ("Command", "Presentation", "SetReq", "Internal", "Stream")
CONSTS = ("INTERNAL_COMMAND_TYPE", "NODE_ID_REQUEST_TYPES", "STRICT_SYSTEM_COMMAND_TYPES", "VALID_SYSTEM_COMMAND_TYPES")
MWRAP = "aiomysensors.model.protocol.protocol_20.handle_missing_node_child"
GATEWAY_READY = 14
HEARTBEAT_RESPONSE = 22


def run(ctx: Ctx, chk) -> None:
    chk.assume("A3")
    chk.run_rule(mono1, ctx)
    chk.run_rule(chain_eq, ctx)
    chk.run_rule(verdep1, ctx)
    chk.run_rule(except1, ctx)
    chk.run_rule(except2, ctx)
    chk.run_rule(tables.handler_state_rule, ctx)
    chk.run_rule(reject_order, ctx)
    chk.run_rule(wrapper_only_missing, ctx)


def wrapper_only_missing(ctx: Ctx, chk) -> None:
    rule = "WRAP-MISSING"
    chk.rule(rule, "the 2.x missing-node/child wrapper - set aside by the 1.x -> 2.x comparison because the statement excludes unknown nodes and children - acts on nothing else: every exception clause in it (written as try/except or as a context manager's exit) names only MissingNodeError / MissingChildError (or subclasses), so a message that is rejected for any other reason, or accepted, is handled as under 1.x")
    from . import c10

    w0 = c10._wrapper(ctx)
    w = ctx.inl(w0, c10._NOT_HANDLER)
    eea = ctx.eea()
    allowed = ("aiomysensors.exceptions.MissingNodeError", "aiomysensors.exceptions.MissingChildError")
    n = 0
    for h in [x for x in ctx.own_nodes(w) if isinstance(x, ast.ExceptHandler)]:
        n += 1
        chk.instance(rule)
        key = f"{w0.fq}::except {norm(h.type) if h.type is not None else ''}"[:160]
        if h.type is None:
            names = ["builtins.BaseException"]
        else:
            raw = h.type.elts if isinstance(h.type, ast.Tuple) else [h.type]
            names = []
            for x in raw:
                d = ctx.prog.resolve_expr(ctx.prog.origin(w.module, x), x) if isinstance(x, (ast.Name, ast.Attribute)) else None
                if d is not None and d.kind == "class":
                    names.append(d.obj.fq)
                elif isinstance(x, (ast.Name, ast.Attribute)) and norm(x).rsplit(".", 1)[-1] in ("Exception", "BaseException", "OSError", "ValueError", "TypeError", "KeyError", "LookupError", "RuntimeError", "AttributeError"):
                    names.append("builtins." + norm(x).rsplit(".", 1)[-1])
                else:
                    raise AnalysisError(f"WRAP-MISSING: exception clause `{norm(h.type)}` of the wrapper not resolved ({ctx.loc(w, h)})")
        # a clause that only re-raises (`except X: raise`) or cleans up and re-raises without sending is transparent
        sends = [x for b in h.body for x in ast.walk(b) if isinstance(x, ast.Call) and isinstance(x.func, ast.Attribute) and x.func.attr in ("send", "write")]
        reraises = bool(h.body) and isinstance(h.body[-1], ast.Raise) and h.body[-1].exc is None
        wide = [nm for nm in names if not any(eea.issub(nm, a) for a in allowed)]
        if not wide:
            chk.ok(rule, key, "acts on a missing node / child only", ctx.loc(w, h))
        elif reraises and not sends:
            chk.ok(rule, key, "re-raises without sending anything", ctx.loc(w, h))
        else:
            chk.refute(rule, key, f"the 2.x wrapper also acts on {', '.join(x.rsplit('.', 1)[-1] for x in wide)}: a message that protocol 1.x simply rejects (invalid payload, unsupported type ...) additionally {'writes a presentation request' if sends else 'is handled differently'} under 2.x although no unknown node or child is involved - the same history produces different writes / errors", ctx.loc(w, h))
    chk.floor(rule, "exception clauses of the wrapper", n, 1)


def rejection_order(ctx: Ctx, f) -> set:
    """{(X, Y)}: rejection X is decided before rejection Y in f (helpers written out).  The decision point of a raise
    is its nearest dominating branching node (a test, or a statement whose failure leads to the handler that
    raises); X precedes Y when X's decision point dominates Y's raise and not the other way round - whatever the
    statement form of the guards."""
    from ..cfg import CFG

    fi = ctx.inl(f, lambda h: not h.name.startswith("handle_"))
    g = CFG(fi.node)
    dom = g.dominators()
    first: dict = {}
    for n in g.nodes:
        a = n.ast
        if n.kind == "stmt" and isinstance(a, ast.Raise) and a.exc is not None and n in dom:
            x = a.exc.func if isinstance(a.exc, ast.Call) else a.exc
            nm = norm(x).rsplit(".", 1)[-1]
            if nm[:1].isupper() and (nm not in first or len(dom[n]) < len(dom[first[nm]])):
                first[nm] = n

    def branching(d) -> bool:
        return d.kind != "dispatch" and len({id(s_) for s_, _ in d.succ}) >= 2

    def below(lca, r) -> int:
        return sum(1 for d in dom[r] if d is not r and d is not lca and lca in dom[d] and branching(d))

    out = set()
    for x, rx in first.items():
        for y, ry in first.items():
            if x == y:
                continue
            common = [d for d in dom[rx] if d in dom[ry]]
            if not common:
                continue
            lca = max(common, key=lambda d: len(dom[d]))  # lowest common dominator: where the two fates part
            if below(lca, rx) < below(lca, ry):
                out.add((x, y))
    return out, set(first)


def reject_order(ctx: Ctx, chk) -> None:
    rule = "REJECT-ORDER"
    chk.rule(rule, "a handler that a newer protocol class overrides refuses a doubly faulty message for the same reason as the definition it replaces: the rejections both definitions can raise are checked in the same order (an unknown node whose payload is also malformed fails with the same error - and triggers or does not trigger a presentation request - under every version)")
    I = ctx.I
    n = 0
    seen = set()
    for V in ctx.versions:
        cls = I.vclass(V, "IncomingMessageHandler")
        mro = cls.repo_mro()
        for name in sorted({nm for c in mro for nm in c.methods if nm.startswith("handle_")}):
            owners = [c for c in mro if name in c.methods]
            for newer, older in zip(owners, owners[1:]):
                fa, fb = newer.methods[name][-1], older.methods[name][-1]
                if (fa, fb) in seen:
                    continue
                seen.add((fa, fb))
                (oa, na), (ob, nb) = rejection_order(ctx, fa), rejection_order(ctx, fb)
                common = sorted(na & nb)
                if len(common) < 2:
                    continue
                n += 1
                chk.instance(rule)
                key = f"{fa.fq}::vs::{fb.cls.module.name.rsplit('.', 1)[-1]}"
                bad = None
                for x in common:
                    for y in common:
                        if (x, y) in oa and (y, x) in ob:
                            bad = (x, y)
                if bad is None:
                    chk.ok(rule, key, f"{name}: rejections {common} are checked in the same order in both definitions", fa.where)
                else:
                    chk.refute(rule, key, f"{fa.qualname} ({fa.module.name.rsplit('.', 1)[-1]}) checks {bad[0]} before {bad[1]}, the definition it overrides ({fb.module.name.rsplit('.', 1)[-1]}) the other way round: a message with both faults is refused with a different error - and with or without a presentation request - depending on the protocol version", fa.where)
    chk.notes["reject_order_pairs"] = n  # no floor: with no overriding pair that shares two rejections the rule has nothing to compare


def vt(s: str):
    return tuple(int(x) for x in s.split("."))


def mono1(ctx: Ctx, chk) -> None:
    rule = "MONO-1"
    chk.rule(rule, "type tables grow monotonically: every value of an older protocol exists in the next one, and a name present in both keeps its value (names may be renamed or become aliases, never re-numbered); the four cross-field rule constants are equal in every module")
    I = ctx.I
    vs = sorted(ctx.versions, key=vt)
    n = 0
    for a, b in zip(vs, vs[1:]):
        for en in ENUMS:
            ma = dict(I.folder.enum_members(I.vclass(a, en)))
            mb = dict(I.folder.enum_members(I.vclass(b, en)))
            n += 1
            chk.instance(rule)
            # a name may disappear (renamed: V_HEATER -> V_HVAC_FLOW_STATE keeps value 21) but must never be re-numbered
            changed = {k: (v, mb[k]) for k, v in ma.items() if k in mb and mb[k] != v}
            lost_vals = set(ma.values()) - set(mb.values())
            key = f"{en}::{a}->{b}"
            if not changed and not lost_vals:
                chk.ok(rule, key, f"{len(ma)} names keep their value; {len(mb) - len(ma)} added", I.vclass(b, en).module.relpath, sample=n <= 2)
            else:
                c = I.vclass(b, en)
                for k, (old, new) in sorted(changed.items()):
                    chk.refute(rule, f"{en}.{k}::{a}->{b}", f"{en}.{k} is {old} in protocol {a} but {new} in {b}: handlers defined for the older protocol send/compare the old number under the newer protocol", f"{c.module.relpath}:{c.node.lineno}")
                for v in sorted(lost_vals):
                    chk.refute(rule, f"{en}[{v}]::{a}->{b}", f"{en} value {v} exists in protocol {a} but not in {b}", f"{c.module.relpath}:{c.node.lineno}")
        for cname in CONSTS:
            chk.instance(rule)
            va = I.folder.plain(I.folder.const(I.vmod(a), cname))
            vb = I.folder.plain(I.folder.const(I.vmod(b), cname))
            if isinstance(va, (set, frozenset, list, tuple)):
                va, vb = frozenset(va), frozenset(vb)
            if va == vb:
                chk.ok(rule, f"{cname}::{a}->{b}", "equal", I.vmod(b).relpath, sample=False)
            else:
                chk.refute(rule, f"{cname}::{a}->{b}", f"{cname} is {sorted(va) if isinstance(va, frozenset) else va} in {a} but {sorted(vb) if isinstance(vb, frozenset) else vb} in {b}: the same line is accepted under one version and rejected under the other", I.vmod(b).relpath)
    chk.floor(rule, "enum pairs compared", n, 20)


def is_transparent(ctx: Ctx, f: FuncInfo) -> bool:
    """`return await super().<same>(gateway, message, message_buffer)`; other statements touch only internal_messages."""
    f = ctx.inl(f)  # bookkeeping helpers (a method of the buffer record that removes the marker ...) written out
    body = [s for s in f.node.body if not (isinstance(s, ast.Expr) and isinstance(s.value, ast.Constant))]
    if not body or not isinstance(body[-1], ast.Return):
        return False
    r = body[-1].value
    if not (isinstance(r, ast.Await) and isinstance(r.value, ast.Call)):
        return False
    c = r.value
    fn = c.func
    if not (isinstance(fn, ast.Attribute) and fn.attr == f.name and isinstance(fn.value, ast.Call) and norm(fn.value.func) == "super"):
        return False
    params = f.positional_params[1:]
    if [norm(a) for a in c.args] != params or c.keywords:
        return False
    for s in body[:-1]:
        for n in ast.walk(s):
            if isinstance(n, ast.Call):
                t = norm(n.func)
                if not ("internal_messages" in t):
                    # building the key as a record of the package (a NamedTuple spelling of the tuple) is pure
                    d_ = ctx.prog.resolve_expr(f.module, n.func) if isinstance(n.func, (ast.Name, ast.Attribute)) else None
                    if not (d_ is not None and d_.kind == "class" and ctx.I.record_fields(d_.obj) is not None):
                        return False
            if isinstance(n, (ast.Await, ast.Raise, ast.Return)):
                return False
            if isinstance(n, ast.Attribute) and isinstance(n.ctx, ast.Store):
                return False
            if isinstance(n, ast.Subscript) and isinstance(n.ctx, (ast.Store, ast.Del)) and "internal_messages" not in norm(n.value):
                return False
    return True


def signature(ctx: Ctx, cal, V: str, strip_2x: bool) -> list[str]:
    if cal is None:
        return ["<no handler: message returned unchanged>"]
    I = ctx.I
    mw = I.wrapper_of(ctx.func(MWRAP))
    out = []
    for f in tables.chain_defs(ctx, cal, V):
        if strip_2x and (f is mw or is_transparent(ctx, f)):
            continue
        out.append(f.fq)
    return out


def chain_eq(ctx: Ctx, chk) -> None:
    rule = "CHAIN-EQ"
    chk.rule(
        rule,
        "for every ordered pair of versions (V older, W newer) and every command / internal / stream type of V, the resolved handler chains are the same definitions - modulo the differences the statement names: the missing-node/child wrapper and transparent overrides across 1.x -> 2.x, the gateway-ready type across 1.x -> 2.x, the heartbeat response into 2.2; outgoing chains are equal for all pairs",
    )
    I = ctx.I
    cells = tables.handler_cells(ctx)
    outc = tables.outgoing_cells(ctx)
    vs = sorted(ctx.versions, key=vt)
    n = 0
    for i, a in enumerate(vs):
        for b in vs[i + 1 :]:
            cross = a.startswith("1.") and b.startswith("2.")
            for cell, ca in cells[a].items():
                if cell not in cells[b]:
                    chk.instance(rule)
                    chk.refute(rule, f"cell::{cell}::{a}->{b}", f"type {cell} exists in protocol {a} but not in {b}", I.vmod(b).relpath)
                    continue
                cb = cells[b][cell]
                if cell == ("internal", GATEWAY_READY) and cross:
                    continue
                if cell == ("internal", HEARTBEAT_RESPONSE) and vt(b) >= (2, 2) and vt(a) < (2, 2):
                    continue
                n += 1
                chk.instance(rule)
                sa_, sb_ = signature(ctx, ca, a, True), signature(ctx, cb, b, True)
                if not cross:
                    # same major line: the wrapper/transparent overrides must agree too
                    sa_, sb_ = signature(ctx, ca, a, False), signature(ctx, cb, b, False)
                key = f"cell::{_cellname(ctx, a, cell)}::{a}->{b}"
                if sa_ == sb_:
                    chk.ok(rule, key, " > ".join(x.split("aiomysensors.model.protocol.")[-1] for x in sa_) or "-", I.vmod(b).relpath, sample=n in (1, 40))
                else:
                    diff_b = [x for x in sb_ if x not in sa_]
                    diff_a = [x for x in sa_ if x not in sb_]
                    where = ctx.func(diff_b[0]).where if diff_b and not diff_b[0].startswith("<") else I.vmod(b).relpath
                    chk.refute(
                        rule,
                        f"cell::{_cellname(ctx, a, cell)}::{'|'.join(diff_a)}=>{'|'.join(diff_b)}",
                        f"{_cellname(ctx, a, cell)} is handled by {[x.split('protocol.')[-1] for x in sa_]} under protocol {a} but by {[x.split('protocol.')[-1] for x in sb_]} under {b}: the same history behaves differently",
                        where,
                        pair=f"{a}->{b}",
                    )
            for cell, ca in outc[a].items():
                n += 1
                chk.instance(rule)
                cb = outc[b].get(cell)
                sa_, sb_ = signature(ctx, ca, a, False), signature(ctx, cb, b, False)
                key = f"outgoing::{cell[1]}::{a}->{b}"
                if sa_ == sb_:
                    chk.ok(rule, key, "same definitions", I.vmod(b).relpath, sample=False)
                else:
                    chk.refute(rule, f"outgoing::{cell[1]}::{'|'.join(sa_)}=>{'|'.join(sb_)}", f"sending a {cell[1]} message runs {sa_} under {a} but {sb_} under {b}", I.vmod(b).relpath, pair=f"{a}->{b}")
    chk.floor(rule, "cell pairs compared", n, 200)
    # helper functions shared by the chains (flush etc.) are single definitions: overriding one in a newer class changes behaviour
    for V in vs:
        cls = I.vclass(V, "IncomingMessageHandler")
        for c in cls.repo_mro():
            for name, fl in c.methods.items():
                if name.startswith("handle_") or name.startswith("__"):
                    continue
                owners = [k for k in cls.repo_mro() if name in k.methods]
                if len(owners) > 1:
                    chk.instance(rule)
                    f = owners[0].methods[name][-1]
                    chk.refute(rule, f"{f.fq}::helper-override", f"helper {name} is overridden in {owners[0].module.name.rsplit('.', 1)[-1]}: handlers of older types run different code under the newer protocol", f.where)


def _cellname(ctx: Ctx, V: str, cell) -> str:
    if cell[0] == "cmd":
        return f"command {cell[1]}"
    en = "Internal" if cell[0] == "internal" else "Stream"
    nm = ctx.folder.enum_canonical(ctx.I.vclass(V, en)).get(cell[1], "?")
    return f"{cell[0]} {cell[1]} ({nm})"


def callee_names_safe(ctx: Ctx, f, call: ast.Call) -> list:
    from .common import callee_names

    try:
        return list(callee_names(ctx, f, call)) + [norm(call.func)]
    except Exception:  # noqa: BLE001
        return [norm(call.func)]


def verdep1(ctx: Ctx, chk) -> None:
    rule = "VERDEP-1"
    chk.rule(rule, "inside handler code the active protocol / version is read only for the type gate, `is None` tests, error construction and logging - never to branch on the version value")
    n = 0
    for f in tables.all_handler_defs(ctx, include_wrappers=True):
        for node in ctx.own_nodes(f):
            if isinstance(node, ast.Attribute) and norm(node) in ("gateway.protocol_version", "gateway.protocol", "gateway._protocol", "gateway._protocol_version"):
                par = ctx.prog.parents.get(node)
                n += 1
                chk.instance(rule)
                key = fkey(f, par if par is not None else node)
                ok = False
                why = ""
                if isinstance(node.ctx, ast.Store):
                    ok, why = True, "the version learning assignment"
                elif isinstance(par, ast.Compare) and len(par.ops) == 1 and isinstance(par.ops[0], (ast.Is, ast.IsNot)) and isinstance(par.comparators[0], ast.Constant) and par.comparators[0].value is None:
                    ok, why = True, "`is None` test"
                elif isinstance(par, ast.Attribute) and par.attr in ("Internal", "Stream", "Command", "Presentation", "SetReq") and isinstance(ctx.prog.parents.get(par), ast.Call):
                    ok, why = True, "type gate on the active protocol's table"
                elif isinstance(par, ast.Call) and isinstance(ctx.prog.parents.get(par), ast.Raise):
                    ok, why = True, "error construction"
                elif isinstance(par, ast.Call) and norm(par.func).split(".")[0] in ("LOGGER", "logging", "_LOGGER"):
                    ok, why = True, "logging"
                if ok:
                    chk.ok(rule, key, why, ctx.loc(f, node), sample=n <= 2)
                else:
                    chk.refute(rule, key, f"`{norm(par)[:80] if par is not None else norm(node)}` in {f.qualname} uses the protocol version as a value: handling of an older message type depends on the active version", ctx.loc(f, node))
    chk.floor(rule, "reads of the active protocol in handler code", n, 4)
    # the gateway object itself: it hands the active protocol to the two handler lookups and to the schema, nothing else
    gw = ctx.cls("aiomysensors.gateway.Gateway")
    m = 0
    from .common import state_attrs

    sa_ = state_attrs(ctx)
    names = ("self.protocol_version", "self.protocol", f"self.{sa_['protocol']}", f"self.{sa_['version']}")
    for fl in gw.mro_methods().values():
        for f in fl:
            for node in ctx.own_nodes(f):
                if not (isinstance(node, ast.Attribute) and norm(node) in names):
                    continue
                par = ctx.prog.parents.get(node)
                m += 1
                chk.instance(rule)
                key = fkey(f, par if par is not None else node) + "::gateway"
                ok, why = False, ""
                if isinstance(node.ctx, ast.Store):
                    ok, why = True, "the version learning assignment"
                elif isinstance(par, ast.Return):
                    ok, why = True, "property getter"
                elif isinstance(par, ast.Compare) and len(par.ops) == 1 and isinstance(par.ops[0], (ast.Is, ast.IsNot)) and isinstance(par.comparators[0], ast.Constant) and par.comparators[0].value is None:
                    ok, why = True, "`is None` test"
                elif isinstance(par, ast.BoolOp) and isinstance(par.op, ast.Or) and par.values[0] is node and len(par.values) == 2 and isinstance(ctx.prog.parents.get(par), ast.Call) and par in ctx.prog.parents[par].args and (norm(ctx.prog.parents[par].func).endswith("get_protocol") or any(nm.endswith(".get_protocol") for nm in callee_names_safe(ctx, f, ctx.prog.parents[par]))):
                    ok, why = True, "the stored version, or the default while none is known, handed to the protocol lookup (a derived protocol property)"
                elif isinstance(par, ast.Call) and node in par.args and any(nm in (tables.DISPATCH, tables.DISPATCH_OUT) or nm.endswith((".set_protocol", ".get_protocol")) for nm in callee_names_safe(ctx, f, par)):
                    ok, why = True, "handed to the handler lookup / the schema"
                elif isinstance(par, ast.Call) and isinstance(ctx.prog.parents.get(par), ast.Raise):
                    ok, why = True, "error construction"
                elif isinstance(par, ast.Call) and norm(par.func).split(".")[0] in ("LOGGER", "logging", "_LOGGER"):
                    ok, why = True, "logging"
                elif isinstance(par, (ast.Assign, ast.AnnAssign)) and par.value is node:
                    # a local alias: every use of the local must itself be one of the permitted forms
                    tg = par.targets[0] if isinstance(par, ast.Assign) else par.target
                    if isinstance(tg, ast.Name):
                        uses = [x for x in ctx.own_nodes(f) if isinstance(x, ast.Name) and x.id == tg.id and isinstance(x.ctx, ast.Load)]
                        ok = all(isinstance(ctx.prog.parents.get(u), ast.Call) and u in ctx.prog.parents[u].args and any(nm in (tables.DISPATCH, tables.DISPATCH_OUT) or nm.endswith((".set_protocol", ".get_protocol")) for nm in callee_names_safe(ctx, f, ctx.prog.parents[u])) for u in uses)
                        why = "a local handed to the handler lookup / the schema only"
                if ok:
                    chk.ok(rule, key, why, ctx.loc(f, node), sample=m <= 2)
                else:
                    chk.refute(rule, key, f"`{norm(par)[:80] if par is not None else norm(node)}` in {f.qualname} inspects the active protocol: what the gateway does with a message (buffering, dispatch, sending) then depends on the protocol version and not only on the message", ctx.loc(f, node))
    chk.floor(rule, "reads of the active protocol in Gateway", m, 4)


def except1(ctx: Ctx, chk) -> None:
    rule = "EXCEPT-1"
    chk.rule(rule, "the one exception the statement names is implemented as stated: the heartbeat response marks the node sleeping and reaches the flush in 2.0/2.1 but neither in 2.2, where the pre-sleep notification does both")
    from ..prov import Canon

    I = ctx.I
    cells = tables.handler_cells(ctx)
    flush_fqs = {f.fq for f in sb.flush_functions(ctx)}
    plan = {"2.0": {22: True}, "2.1": {22: True}, "2.2": {22: False, 32: True}}
    for V, want in plan.items():
        if V not in cells:
            continue
        for value, wakes in want.items():
            chk.instance(rule)
            cal = cells[V].get(("internal", value))
            flush = False
            sleeping = False
            if cal is not None:
                flush = any(f.fq in flush_fqs for f, _fr in tables.reachable_defs(ctx, cal, V))
                want_ = lambda h: not h.name.startswith("handle_") and h.fq not in flush_fqs  # noqa: E731
                defs_ = list(tables.chain_and_helpers(ctx, cal, V))
                # a helper that is written out into every function of the chain that calls it is judged there, specialised
                # to that call (a flag argument decides what it does); on its own it is not part of this cell
                written_ = set()
                for f in defs_:
                    written_ |= set(getattr(ctx.inl(f, want_), "inlined_funcs", []) or [])
                still_called_ = set()
                for f in defs_:
                    if f in written_:
                        continue
                    for n in ctx.own_nodes(ctx.inl(f, want_)):
                        if isinstance(n, ast.Call) and isinstance(n.func, (ast.Name, ast.Attribute)):
                            still_called_.add(n.func.id if isinstance(n.func, ast.Name) else n.func.attr)
                for f in defs_:
                    if f in written_ and f.name not in still_called_:
                        continue
                    f = ctx.inl(f, want_)  # shared bookkeeping helpers, specialised to this call
                    for n in ctx.own_nodes(f):
                        if isinstance(n, ast.Assign) and any(isinstance(t, ast.Attribute) and t.attr == "sleeping" for t in n.targets):
                            sleeping = True
            key = f"internal {value}@{V}"
            if (flush, sleeping) == (wakes, wakes):
                chk.ok(rule, key, "marks sleeping and flushes" if wakes else "neither marks sleeping nor flushes", cal.chain()[-1].func.where if cal else "")
            else:
                chk.refute(rule, f"internal-{value}::{V}::flush={flush},sleeping={sleeping}", f"under protocol {V} internal type {value} {'flushes' if flush else 'does not flush'} and {'marks' if sleeping else 'does not mark'} the node sleeping; the statement says it {'does both' if wakes else 'does neither'}", cal.chain()[-1].func.where if cal else I.vmod(V).relpath, version=V)


def _payload_signature(ctx: Ctx, f: FuncInfo, flush_fqs: set) -> dict:
    """What a handler definition does with the message apart from the sleeping mark and the flush: the calls and
    tests applied to the payload, the attribute stores, the rejections and the exception types it translates
    (helpers written out, locals substituted)."""
    from ..prov import Canon

    fi = ctx.inl(f, lambda h: not h.name.startswith("handle_") and h.fq not in flush_fqs)
    cn = Canon(ctx.I, fi)
    uses, stores, raises, catches = set(), set(), set(), set()
    for n in ctx.own_nodes(fi):
        if isinstance(n, (ast.Call, ast.Compare)) or (isinstance(n, ast.UnaryOp) and isinstance(n.op, ast.Not)):
            t = cn.canon(n)
            if "In.payload" in t:
                # a rejection built from the payload / message is not a use of the payload's value
                par = ctx.prog.parents.get(n)
                if isinstance(par, ast.Raise):
                    continue
                uses.add(t)
        if isinstance(n, ast.Assign):
            for tg in n.targets:
                if isinstance(tg, ast.Attribute) and tg.attr != "sleeping":
                    stores.add((cn.canon(tg), cn.canon(n.value)))
        if isinstance(n, ast.Raise) and n.exc is not None:
            x = n.exc.func if isinstance(n.exc, ast.Call) else n.exc
            raises.add(norm(x).rsplit(".", 1)[-1])
        if isinstance(n, ast.ExceptHandler) and n.type is not None:
            tys = n.type.elts if isinstance(n.type, ast.Tuple) else [n.type]
            catches.add(tuple(sorted(norm(t).rsplit(".", 1)[-1] for t in tys)))
    # uses nested in other uses say nothing more (int(In.payload) inside a store is already listed)
    return {"payload uses": uses, "stores": stores, "rejections": raises, "translated exceptions": catches}


def except2(ctx: Ctx, chk) -> None:
    rule = "EXCEPT-2"
    chk.rule(rule, "the heartbeat response differs between 2.0/2.1 and 2.2 in nothing but the named exception: with the sleeping mark and the flush set aside, both definitions apply the same conversions and tests to the payload, store the same attributes, raise the same rejections and translate the same exception types - a payload accepted under one version is accepted, and recorded as the same number, under the other")
    I = ctx.I
    cells = tables.handler_cells(ctx)
    flush_fqs = {f.fq for f in sb.flush_functions(ctx)}
    defs = {}
    for V in ("2.0", "2.1", "2.2"):
        if V in cells and cells[V].get(("internal", HEARTBEAT_RESPONSE)) is not None:
            defs[V] = cells[V][("internal", HEARTBEAT_RESPONSE)].chain()[-1].func
    if "2.2" not in defs or not (set(defs) - {"2.2"}):
        raise AnalysisError("EXCEPT-2: anchor vanished: heartbeat response handlers of 2.0/2.1 and 2.2")
    new = defs["2.2"]
    done = set()
    for V in ("2.0", "2.1"):
        old = defs.get(V)
        if old is None or old in done:
            continue
        done.add(old)
        chk.instance(rule)
        key = f"{new.fq}::vs::{old.fq}"
        if old is new:
            chk.ok(rule, key, "one definition for all 2.x versions", new.where)
            continue
        sa_, sb_ = _payload_signature(ctx, old, flush_fqs), _payload_signature(ctx, new, flush_fqs)
        diffs = []
        for part in sa_:
            if sa_[part] != sb_[part]:
                only_a = sorted(map(str, sa_[part] - sb_[part]))
                only_b = sorted(map(str, sb_[part] - sa_[part]))
                diffs.append(f"{part}: only in {old.module.name.rsplit('.', 1)[-1]} {only_a}, only in {new.module.name.rsplit('.', 1)[-1]} {only_b}")
        if not diffs:
            chk.ok(rule, key, f"same payload handling: {sorted(sa_['payload uses'])}, stores {sorted(x[0] for x in sa_['stores'])}", new.where)
        else:
            chk.refute(rule, key, f"the heartbeat response handlers of protocol {V} and 2.2 differ beyond the sleeping mark and the flush - " + "; ".join(diffs)[:600] + ": a heartbeat payload one of them accepts (or the number it records) is refused (or recorded differently) by the other, so the same history yields different messages, errors and registry under the two versions", old.where)
