"""Event abstraction for the sleep buffer (C07, C08, C09): flush functions, sends, removals."""

from __future__ import annotations

from types import SimpleNamespace

import ast
from dataclasses import dataclass

from typing import TYPE_CHECKING

from ..cfg import CFG, Node, has_await
from ..model import AnalysisError, FuncInfo, norm
from ..prov import Canon, message_param

if TYPE_CHECKING:
    from .common import Ctx

BUFFERS = ("set_messages", "internal_messages")
REMOVERS = ("pop", "popitem", "clear")


class AttrSet(str):
    """An alias that may denote several buffers (`for buffer in (mb.set_messages, mb.internal_messages)`): equal to each."""

    members: tuple = ()

    def __new__(cls, members):
        o = super().__new__(cls, "|".join(sorted(members)))
        o.members = tuple(sorted(members))
        return o

    def __eq__(self, other):
        return other in self.members or str.__eq__(self, other)

    def __ne__(self, other):
        return not self.__eq__(other)

    __hash__ = str.__hash__


class HelperKey(ast.Name):
    """Key placeholder of a removal/store performed inside a helper function called at the site."""


_ALIAS: dict[int, str] = {}  # id(ast.Name load node) -> buffer attribute (or AttrSet)
_HELPERS: dict[str, dict] = {}  # helper fq -> {"removes": {attr}, "stores": {attr}, "reads": {attr}}
_PREPARED: list = []
_HKEYS: dict = {}


def _direct_attr(e: ast.expr) -> str | None:
    if isinstance(e, ast.Attribute) and e.attr in BUFFERS:
        return e.attr
    return None


def require_plain_buffers(ctx) -> None:
    """The buffer rules read `buf[key] = m`, `buf.pop(key)`, iteration ... on a flat dict keyed by (node, child,
    type): a container of another shape (a dict of per-node dicts, a defaultdict, a list) is not modelled - say so
    before any rule draws conclusions from stores and removals it does not recognise."""
    err = getattr(ctx, "_buffer_shape", None)
    if err is None:

        class _Null:
            tier = "quick"
            notes: dict = {}

            def __getattr__(self, _name):
                return lambda *a, **k: None

        try:
            buffer_plain(ctx, _Null())
            err = _buffer_to_generator(ctx)
        except AnalysisError as e:
            err = str(e)
        ctx._buffer_shape = err
    if err:
        raise AnalysisError(f"sleep buffer container not modelled: {err}")


def _buffer_to_generator(ctx) -> str:
    """The buffer (or one of its dicts) handed to a generator function / generator-based context manager of the
    repository that could not be written out into its caller: what that helper removes, and when relative to the
    caller's sends, is not visible to the rules that look at one function body."""
    from .common import callee_names

    for f in ctx.prog.all_functions():
        fi = ctx.inl(f)
        for n in ctx.own_nodes(fi):
            if not (isinstance(n, ast.Call) and isinstance(n.func, (ast.Name, ast.Attribute))):
                continue
            args = list(n.args) + [k.value for k in n.keywords]
            if not any((isinstance(x, ast.Name) and x.id in ("message_buffer", "_message_buffer")) or (isinstance(x, ast.Attribute) and x.attr in BUFFERS + ("_message_buffer",)) for a in args for x in ast.walk(a)):
                continue
            try:
                names = callee_names(ctx, fi, n)
            except AnalysisError:
                continue
            for nm in sorted(names):
                try:
                    h = ctx.func(nm)
                except (AnalysisError, KeyError):
                    continue
                if h is None or h.fq != nm:
                    continue
                is_gen = any(isinstance(x, (ast.Yield, ast.YieldFrom)) for x in ctx.own_nodes(h)) and not h.is_async
                is_cm = any(d.split("(")[0].rsplit(".", 1)[-1] in ("contextmanager", "asynccontextmanager") for d in h.decorator_names)
                if (is_gen or is_cm) and any(isinstance(x, (ast.Yield, ast.YieldFrom)) for x in ctx.own_nodes(h)):
                    return f"the sleep buffer is handed to the generator-based helper {h.qualname} (`{norm(n)[:60]}` in {f.qualname}), which could not be written out into its caller"
    return ""


def prepare(ctx) -> None:
    """Index local aliases of the buffers and helper functions that touch them (once per Ctx)."""
    if _PREPARED and _PREPARED[0] is ctx:
        return
    _PREPARED[:] = [ctx]
    _ALIAS.clear()
    _HELPERS.clear()
    _HKEYS.clear()
    for f in ctx.prog.all_functions():
        binds: dict[str, list] = {}
        for n in ctx.own_nodes(f):
            if isinstance(n, (ast.Assign, ast.AnnAssign)):
                targets = n.targets if isinstance(n, ast.Assign) else [n.target]
                for t in targets:
                    if isinstance(t, ast.Name):
                        binds.setdefault(t.id, []).append(("assign", n.value))
            elif isinstance(n, (ast.For, ast.AsyncFor, ast.comprehension)):
                for t in ast.walk(n.target):
                    if isinstance(t, ast.Name):
                        binds.setdefault(t.id, []).append(("iter", n.iter) if t is n.target else ("other", None))
            elif isinstance(n, ast.NamedExpr) and isinstance(n.target, ast.Name):
                binds.setdefault(n.target.id, []).append(("assign", n.value))
            elif isinstance(n, (ast.With, ast.AsyncWith)):
                for it in n.items:
                    if it.optional_vars is not None:
                        for t in ast.walk(it.optional_vars):
                            if isinstance(t, ast.Name):
                                binds.setdefault(t.id, []).append(("other", None))
        params = {a.arg for a in f.node.args.args + f.node.args.kwonlyargs + f.node.args.posonlyargs}
        alias: dict[str, str] = {}
        for name, bs in binds.items():
            if name in params:
                continue
            attrs: set[str] = set()
            ok = True
            for kind, v in bs:
                if kind == "assign" and v is not None and _direct_attr(v):
                    attrs.add(_direct_attr(v))
                elif kind == "iter" and isinstance(v, (ast.Tuple, ast.List)) and v.elts and all(_direct_attr(x) for x in v.elts):
                    attrs |= {_direct_attr(x) for x in v.elts}
                else:
                    ok = False
            if ok and attrs:
                alias[name] = next(iter(attrs)) if len(attrs) == 1 else AttrSet(attrs)
        if alias:
            for n in ctx.own_nodes(f):
                if isinstance(n, ast.Name) and isinstance(n.ctx, ast.Load) and n.id in alias:
                    _ALIAS[id(n)] = alias[n.id]
    # a parameter of a private helper that receives a buffer at every call site (`_park(self.set_messages, m)`) denotes it
    _param_aliases(ctx)
    # helper functions: methods/functions that touch a buffer directly
    for f in ctx.prog.all_functions():
        rec = {"removes": set(), "stores": set(), "reads": set()}
        for attr in BUFFERS:
            if _removal_sites_direct(ctx, f, attr):
                rec["removes"].add(attr)
            if _store_sites_direct(ctx, f, attr):
                rec["stores"].add(attr)
            if _reads_direct(ctx, f, attr):
                rec["reads"].add(attr)
        # a function that sends is a flush / handler in its own right, judged by itself - not a helper
        if (rec["removes"] or rec["stores"] or rec["reads"]) and not any(is_send(n) for n in ctx.own_nodes(f) if isinstance(n, ast.stmt)):
            _HELPERS[f.fq] = rec


def _param_aliases(ctx) -> None:
    from .common import callee_names

    got: dict[tuple[str, str], set] = {}  # (callee fq, param) -> buffer attrs passed
    sites: dict[str, list] = {}
    for f in ctx.prog.all_functions():
        for n in ctx.own_nodes(f):
            if not isinstance(n, ast.Call) or not isinstance(n.func, (ast.Name, ast.Attribute)):
                continue
            tail = n.func.id if isinstance(n.func, ast.Name) else n.func.attr
            sites.setdefault(tail, []).append((f, n))
    for f in ctx.prog.all_functions():
        for n in ctx.own_nodes(f):
            if not isinstance(n, ast.Call) or not isinstance(n.func, (ast.Name, ast.Attribute)):
                continue
            if not any(buffer_attr(a) for a in list(n.args) + [k.value for k in n.keywords]):
                continue
            try:
                names = callee_names(ctx, f, n)
            except AnalysisError:
                continue
            for nm in sorted(names):
                try:
                    h = ctx.func(nm)
                except (AnalysisError, KeyError):
                    continue
                if h.fq != nm or not h.name.startswith("_") or h.name.startswith("__"):
                    continue
                pp = h.positional_params
                off = 1 if (h.cls is not None and isinstance(n.func, ast.Attribute) and pp and pp[0] in ("self", "cls")) else 0
                # every call of that name in the package must hand a buffer to the same parameter
                for g_, c_ in sites.get(h.name, []):
                    for i, a in enumerate(c_.args):
                        if isinstance(a, ast.Starred) or i + off >= len(pp):
                            break
                        got.setdefault((h.fq, pp[i + off]), set()).add(buffer_attr(a) or "")
                    for k in c_.keywords:
                        if k.arg:
                            got.setdefault((h.fq, k.arg), set()).add(buffer_attr(k.value) or "")
    for (fq, prm), attrs in got.items():
        if "" in attrs or not attrs:
            continue
        flat: set = set()
        for a in attrs:
            flat |= set(a.members) if isinstance(a, AttrSet) else {a}
        h = ctx.func(fq)
        # the parameter must not be re-bound in the helper
        if any(isinstance(x, ast.Name) and x.id == prm and isinstance(x.ctx, (ast.Store, ast.Del)) for x in ctx.own_nodes(h)):
            continue
        al = next(iter(flat)) if len(flat) == 1 else AttrSet(flat)
        for x in ctx.own_nodes(h):
            if isinstance(x, ast.Name) and isinstance(x.ctx, ast.Load) and x.id == prm:
                _ALIAS[id(x)] = al


def owner_functions(ctx) -> list[tuple[FuncInfo, FuncInfo]]:
    """(definition, the same with its bookkeeping helpers written out) for every function that is judged in its own
    right.  A bookkeeping helper (private function / method of the buffer record, see sa/inline.py) whose every call in
    the package was written out into its callers is not listed: what it does is judged where it is called, with the
    buffer that is handed to it there."""
    got = getattr(ctx, "_owner_functions", None)
    if got is not None:
        return got
    funcs = list(ctx.prog.all_functions())
    inl = {f: ctx.inl(f) for f in funcs}
    written: set = set()
    for fi in inl.values():
        written |= set(getattr(fi, "inlined_funcs", []) or [])
    remaining: set[str] = set()  # names still called or mentioned after writing out
    for f, fi in inl.items():
        for n in ctx.own_nodes(fi):
            if isinstance(n, ast.Name) and isinstance(n.ctx, ast.Load):
                remaining.add(n.id)
            elif isinstance(n, ast.Attribute):
                remaining.add(n.attr)
    out = []
    for f in funcs:
        if f in written and f.name not in remaining:
            continue
        out.append((f, inl[f]))
    ctx._owner_functions = out
    return out


def helper_calls(ctx, f: FuncInfo, what: str, attr: str) -> list[tuple[ast.Call, str]]:
    """Calls in f to another repository function that directly removes from / stores into / reads <attr>."""
    from .common import callee_names

    prepare(ctx)
    require_plain_buffers(ctx)
    out = []
    for n in ctx.own_nodes(f):
        if not isinstance(n, ast.Call):
            continue
        fn = n.func
        # cheap pre-filter: gateway.send / transport.write and builtins are never buffer helpers
        if isinstance(fn, ast.Attribute) and fn.attr in ("send", "write", "get", "pop", "items", "values", "keys"):
            continue
        try:
            names = callee_names(ctx, f, n)
        except AnalysisError:
            continue
        for nm in sorted(names):
            rec = _HELPERS.get(nm)
            if rec and nm != f.fq and attr in rec[what]:
                out.append((n, nm))
                break
    return out


@dataclass
class Flush:
    func: FuncInfo
    cfg: CFG
    loop: ast.For
    key_name: str | None
    val_name: str | None
    snapshot: ast.expr | None  # the expression iterated (a local snapshot) or the live dict
    live: bool
    sends: list  # CFG nodes
    removes: list  # CFG nodes


def buffer_attr(e: ast.expr) -> str | None:
    """`<x>.set_messages` -> 'set_messages'; a local alias of a buffer (see prepare) -> its buffer(s)."""
    if isinstance(e, ast.Attribute) and e.attr in BUFFERS:
        return e.attr
    if isinstance(e, ast.Name):
        return _ALIAS.get(id(e))
    return None


def is_send(n: ast.AST) -> ast.Call | None:
    for x in ast.walk(n):
        if isinstance(x, ast.Call) and isinstance(x.func, ast.Attribute) and x.func.attr == "send" and norm(x.func.value) in ("gateway", "self"):
            return x
    return None


def send_buffered_flag(call: ast.Call):
    """True / False literal of message_buffer=, or 'default' / 'dynamic'."""
    for kw in call.keywords:
        if kw.arg == "message_buffer":
            if isinstance(kw.value, ast.Constant) and isinstance(kw.value.value, bool):
                return kw.value.value
            return "dynamic"
    if len(call.args) >= 2:
        return "dynamic"
    return "default"


def removal_sites(ctx: Ctx, f: FuncInfo, attr: str) -> list[tuple[ast.AST, ast.expr | None]]:
    """(node, key expr) of removals from <x>.<attr> in f, including calls of helpers that remove (key: HelperKey)."""
    prepare(ctx)
    require_plain_buffers(ctx)
    out = _removal_sites_direct(ctx, f, attr)
    for call, nm in helper_calls(ctx, f, "removes", attr):
        hk = _HKEYS.get((id(call), attr))
        if hk is None:
            hk = _HKEYS[(id(call), attr)] = HelperKey(id=f"<inside {nm.rsplit('.', 2)[-2]}.{nm.rsplit('.', 1)[-1]}>", ctx=ast.Load())
        out.append((call, hk))
    return out


def _removal_sites_direct(ctx, f: FuncInfo, attr: str) -> list[tuple[ast.AST, ast.expr | None]]:
    out = []
    for n in ctx.own_nodes(f):
        if isinstance(n, ast.Call) and isinstance(n.func, ast.Attribute) and n.func.attr in REMOVERS and buffer_attr(n.func.value) == attr:
            out.append((n, n.args[0] if n.args else None))
        elif isinstance(n, ast.Delete):
            for t in n.targets:
                if isinstance(t, ast.Subscript) and buffer_attr(t.value) == attr:
                    out.append((n, t.slice))
        elif isinstance(n, (ast.Assign, ast.AnnAssign)):
            targets = n.targets if isinstance(n, ast.Assign) else [n.target]
            for t in targets:
                if isinstance(t, ast.Attribute) and t.attr == attr:
                    out.append((n, None))  # rebinding = clear
    return out


def _buffer_handed_to_computed_object(ctx: Ctx, f: FuncInfo):
    """A call `<subscript or call result>.method(.., <the buffer>, ..)`: the buffer goes to a method of an object that
    is looked up at run time (a strategy object out of a table ...) - what that method stores is not visible here."""
    for n in ctx.own_nodes(f):
        if isinstance(n, ast.Call) and isinstance(n.func, ast.Attribute) and isinstance(n.func.value, (ast.Subscript, ast.Call)) and not (isinstance(n.func.value, ast.Call) and isinstance(n.func.value.func, ast.Name) and n.func.value.func.id == "super"):
            for a in list(n.args) + [k.value for k in n.keywords]:
                if any((isinstance(x, ast.Name) and x.id in ("message_buffer", "_message_buffer")) or (isinstance(x, ast.Attribute) and x.attr in BUFFERS + ("_message_buffer",)) for x in ast.walk(a)):
                    return n
    return None


def store_sites(ctx: Ctx, f: FuncInfo, attr: str) -> list[tuple[ast.Assign, ast.expr, ast.expr]]:
    prepare(ctx)
    require_plain_buffers(ctx)
    esc = _buffer_handed_to_computed_object(ctx, f)
    if esc is not None:
        raise AnalysisError(f"the sleep buffer is handed to a method of an object that is selected at run time (`{norm(esc)[:70]}` in {f.qualname}): the stores it makes are not modelled")
    return _store_sites_direct(ctx, f, attr)


def _store_sites_direct(ctx, f: FuncInfo, attr: str) -> list[tuple[ast.Assign, ast.expr, ast.expr]]:
    out = []
    for n in ctx.own_nodes(f):
        if isinstance(n, ast.Assign):
            for t in n.targets:
                if isinstance(t, ast.Subscript) and buffer_attr(t.value) == attr:
                    out.append((n, t.slice, n.value))
        elif isinstance(n, ast.Call) and isinstance(n.func, ast.Attribute) and n.func.attr in ("setdefault", "update", "__setitem__") and buffer_attr(n.func.value) == attr:
            out.append((n, n.args[0] if n.args else None, n.args[1] if len(n.args) > 1 else None))
    return out


def _reads_direct(ctx, f: FuncInfo, attr: str) -> bool:
    for n in ctx.own_nodes(f):
        if isinstance(n, ast.Call) and isinstance(n.func, ast.Attribute) and n.func.attr in ("items", "values", "keys", "copy") and buffer_attr(n.func.value) == attr:
            return True
        if isinstance(n, (ast.For, ast.comprehension)) and buffer_attr(n.iter) == attr:
            return True
        if isinstance(n, ast.Call) and isinstance(n.func, ast.Name) and n.func.id in ("list", "dict", "tuple", "sorted") and n.args and buffer_attr(n.args[0]) == attr:
            return True
    return False


def flush_functions(ctx: Ctx, attr: str = "set_messages") -> list[FuncInfo]:
    """Functions that iterate entries of the buffer (directly or through a helper that hands them out) and send them."""
    prepare(ctx)
    require_plain_buffers(ctx)
    out = []
    for f in ctx.prog.all_functions():
        if not any(is_send(n) for n in ctx.own_nodes(f) if isinstance(n, ast.stmt)):
            # the loop body (send + forget) may be a private helper coroutine: judge the function with it written out
            if _reads_direct(ctx, f, attr) and any(isinstance(n, (ast.For, ast.AsyncFor)) for n in ctx.own_nodes(f)):
                fi = ctx.inl(f)
                if fi is not f and any(is_send(n) for n in ctx.own_nodes(fi) if isinstance(n, ast.stmt)):
                    out.append(fi)
            continue
        if f.nested and any(_reads_direct(ctx, g_, attr) for g_ in f.nested.values()):
            # the snapshot / the forgetting live in nested helper functions of the flush: judged written out
            fi = ctx.inl(f)
            if fi is not f and _reads_direct(ctx, fi, attr):
                out.append(fi)
                continue
        if not _reads_direct(ctx, f, attr):
            # the entries are handed out by a bookkeeping helper (a generator method of the buffer record ...): judged
            # with that helper written out when that is possible
            fi = ctx.inl(f)
            if fi is not f and _reads_direct(ctx, fi, attr):
                out.append(fi)
                continue
        if _reads_direct(ctx, f, attr) or helper_calls(ctx, f, "reads", attr):
            out.append(f)
    return out


class BatchedFlush(AnalysisError):
    """The flush sends its entries together (gather over a comprehension) instead of one at a time."""

    def __init__(self, msg: str, node: ast.AST) -> None:
        super().__init__(msg)
        self.node = node


def analyse_flush(ctx: Ctx, f: FuncInfo, attr: str = "set_messages") -> Flush:
    g = CFG(f.node)
    loops = [n for n in ctx.own_nodes(f) if isinstance(n, (ast.For, ast.AsyncFor)) and is_send(n)]
    # the sending loop is the innermost one (an outer loop may range over several buffers)
    loops = [lp for lp in loops if not any(o is not lp and _inside(lp, o) for o in loops)]
    if not loops:
        # sends produced by a comprehension / generator handed to gather (or collected and awaited together)
        for n in ctx.own_nodes(f):
            if isinstance(n, (ast.GeneratorExp, ast.ListComp, ast.SetComp)) and any(isinstance(x, ast.Call) and isinstance(x.func, ast.Attribute) and x.func.attr == "send" for x in ast.walk(n.elt)):
                raise BatchedFlush(f"flush shape not recognised in {f.fq}: 0 sending loop(s) - the entries are sent as one batch (`{norm(n)[:60]}`)", n)
        # ... or by a nested coroutine function whose calls are gathered / started as tasks
        conc = [n for n in ctx.own_nodes(f) if isinstance(n, ast.Call) and norm(n.func).rsplit(".", 1)[-1] in ("gather", "create_task", "ensure_future", "wait", "as_completed", "TaskGroup")]
        nested_send = [g_ for g_ in f.nested.values() if any(isinstance(x, ast.Call) and isinstance(x.func, ast.Attribute) and x.func.attr == "send" for x in ctx.own_nodes(g_))]
        if conc and nested_send:
            raise BatchedFlush(f"flush shape not recognised in {f.fq}: 0 sending loop(s) - the entries are released concurrently (`{norm(conc[0])[:60]}` over {nested_send[0].name}())", conc[0])
    if len(loops) != 1:
        raise AnalysisError(f"flush shape not recognised in {f.fq}: {len(loops)} sending loop(s)")
    lp = loops[0]
    key_name = val_name = None
    it = lp.iter
    tgt = lp.target
    cont = it
    if isinstance(it, ast.Call) and isinstance(it.func, ast.Attribute) and it.func.attr in ("items", "values", "keys") and not it.args:
        cont = it.func.value
        if it.func.attr == "items" and isinstance(tgt, ast.Tuple) and len(tgt.elts) == 2:
            key_name = tgt.elts[0].id if isinstance(tgt.elts[0], ast.Name) else None
            val_name = tgt.elts[1].id if isinstance(tgt.elts[1], ast.Name) else None
        elif it.func.attr == "values" and isinstance(tgt, ast.Name):
            val_name = tgt.id
        elif it.func.attr == "keys" and isinstance(tgt, ast.Name):
            key_name = tgt.id
    elif isinstance(it, ast.Call) and isinstance(it.func, ast.Name) and it.func.id in ("list", "tuple", "sorted") and it.args:
        inner = it.args[0]
        cont = it
        if isinstance(inner, ast.Call) and isinstance(inner.func, ast.Attribute) and inner.func.attr == "items" and isinstance(tgt, ast.Tuple) and len(tgt.elts) == 2:
            key_name = tgt.elts[0].id if isinstance(tgt.elts[0], ast.Name) else None
            val_name = tgt.elts[1].id if isinstance(tgt.elts[1], ast.Name) else None
        elif isinstance(tgt, ast.Name):
            key_name = tgt.id
    elif isinstance(tgt, ast.Name) and isinstance(it, ast.Name) and _record_snapshot(ctx, f, it.id) is not None:
        # a local snapshot of records built from the buffer's (key, entry) pairs: `for b in pending: send(b.message) ... pop(b.key)`
        kf, vf = _record_snapshot(ctx, f, it.id)
        key_name, val_name = f"{tgt.id}.{kf}", f"{tgt.id}.{vf}"
    elif isinstance(tgt, ast.Name):
        key_name = tgt.id
    elif isinstance(tgt, ast.Tuple) and len(tgt.elts) == 2 and all(isinstance(x, ast.Name) for x in tgt.elts) and isinstance(it, ast.Name):
        # a local snapshot of (key, entry) pairs - confirmed below from the snapshot's definition
        src = _accumulator_comp(ctx, f, it.id)
        if src is None:
            la = ctx.I.local_assigns(f).get(it.id) or []
            src = la[0] if len(la) == 1 and isinstance(la[0], ast.expr) else None
        pairs = False
        if isinstance(src, (ast.ListComp, ast.GeneratorExp, ast.SetComp)) and isinstance(src.elt, ast.Tuple) and len(src.elt.elts) == 2 and len(src.generators) == 1:
            gen = src.generators[0]
            if isinstance(gen.iter, ast.Call) and isinstance(gen.iter.func, ast.Attribute) and gen.iter.func.attr == "items" and isinstance(gen.target, ast.Tuple) and len(gen.target.elts) == 2 and [norm(x) for x in src.elt.elts] == [norm(x) for x in gen.target.elts]:
                pairs = True
        elif isinstance(src, ast.Call) and isinstance(src.func, ast.Name) and src.func.id in ("list", "tuple", "sorted") and src.args and isinstance(src.args[0], ast.Call) and isinstance(src.args[0].func, ast.Attribute) and src.args[0].func.attr == "items":
            pairs = True
        if pairs:
            key_name, val_name = tgt.elts[0].id, tgt.elts[1].id
    live = buffer_attr(cont) == attr
    sends = g.nodes_where(lambda n: isinstance(n.ast, ast.stmt) and n.kind == "stmt" and is_send(n.ast) is not None and _inside(lp, n.ast))
    rem_stmts = {id(_stmt(ctx, f, n)) for n, _k in removal_sites(ctx, f, attr)}
    removes = g.nodes_where(lambda n: (n.kind == "stmt" or (n.kind == "iter" and isinstance(n.ast, (ast.For, ast.AsyncFor)))) and id(n.ast) in rem_stmts)
    return Flush(f, g, lp, key_name, val_name, cont, live, sends, removes)


def _record_snapshot(ctx: Ctx, f: FuncInfo, name: str):
    """(key field, entry field) when the local `name` is `[Rec(k, v) for k, v in <buffer>.items() ...]` with Rec a
    NamedTuple / dataclass of the repository."""
    src = _accumulator_comp(ctx, f, name)
    if src is None:
        la = ctx.I.local_assigns(f).get(name) or []
        src = la[0] if len(la) == 1 and isinstance(la[0], ast.expr) else None
    if not (isinstance(src, (ast.ListComp, ast.GeneratorExp)) and len(src.generators) == 1 and isinstance(src.elt, ast.Call)):
        return None
    gen = src.generators[0]
    if not (isinstance(gen.iter, ast.Call) and isinstance(gen.iter.func, ast.Attribute) and gen.iter.func.attr == "items" and isinstance(gen.target, ast.Tuple) and len(gen.target.elts) == 2 and all(isinstance(x, ast.Name) for x in gen.target.elts)):
        return None
    d = ctx.prog.resolve_expr(f.module, src.elt.func) if isinstance(src.elt.func, (ast.Name, ast.Attribute)) else None
    flds = ctx.I.record_fields(d.obj) if d is not None and d.kind == "class" else None
    if not flds:
        return None
    given = dict(zip(flds, src.elt.args))
    for k in src.elt.keywords:
        if k.arg:
            given[k.arg] = k.value
    kname, vname = gen.target.elts[0].id, gen.target.elts[1].id
    kf = [n for n, a in given.items() if isinstance(a, ast.Name) and a.id == kname]
    vf = [n for n, a in given.items() if isinstance(a, ast.Name) and a.id == vname]
    if len(kf) == 1 and len(vf) == 1:
        return kf[0], vf[0]
    return None


def _inside(root: ast.AST, node: ast.AST) -> bool:
    return any(x is node for x in ast.walk(root))


def _stmt(ctx: Ctx, f: FuncInfo, node: ast.AST) -> ast.AST:
    cur = node
    while cur in ctx.prog.parents and not isinstance(cur, ast.stmt):
        cur = ctx.prog.parents[cur]
    return cur


def snapshot_source(ctx: Ctx, fl: Flush, attr: str = "set_messages"):
    """If the loop iterates a local snapshot of the buffer: the defining expression."""
    cont = fl.snapshot
    if isinstance(cont, ast.Name):
        acc = _accumulator_comp(ctx, fl.func, cont.id)
        if acc is not None:
            return acc
        la = ctx.I.local_assigns(fl.func).get(cont.id) or []
        if len(la) == 1 and isinstance(la[0], ast.expr):
            return la[0]
        return None
    if isinstance(cont, ast.Call):
        return cont
    return None


def _accumulator_comp(ctx, f: FuncInfo, name: str):
    """`acc = []` filled only by `acc.append(X)` inside one await-free `for T in IT:` (under `if`s) is the
    comprehension `[X for T in IT if ...]`: return that (synthetic) comprehension, else None."""
    la = ctx.I.local_assigns(f).get(name) or []
    if len(la) != 1 or not isinstance(la[0], ast.expr):
        return None
    init = la[0]
    empty = (isinstance(init, (ast.List, ast.Tuple)) and not init.elts) or (isinstance(init, ast.Call) and isinstance(init.func, ast.Name) and init.func.id == "list" and not init.args)
    if not empty:
        return None
    parents = ctx.prog.parents
    appends = []
    for n in ctx.own_nodes(f):
        if isinstance(n, ast.Attribute) and isinstance(n.value, ast.Name) and n.value.id == name:
            par = parents.get(n)
            if n.attr == "append" and isinstance(par, ast.Call) and par.func is n and len(par.args) == 1:
                appends.append(par)
            else:
                return None
        elif isinstance(n, ast.Subscript) and isinstance(n.value, ast.Name) and n.value.id == name and not isinstance(n.ctx, ast.Load):
            return None
    if len(appends) != 1:
        return None
    ap = appends[0]
    ifs = []
    cur = parents.get(parents.get(ap))  # Call -> Expr -> container
    child = parents.get(ap)
    while cur is not None and not isinstance(cur, (ast.For, ast.AsyncFor, ast.FunctionDef, ast.AsyncFunctionDef)):
        if isinstance(cur, ast.If) and any(child is x for x in cur.body):
            ifs.insert(0, cur.test)
        elif isinstance(cur, ast.If):
            ifs.insert(0, ast.UnaryOp(op=ast.Not(), operand=cur.test))
        else:
            return None
        child, cur = cur, parents.get(cur)
    if not isinstance(cur, ast.For) or has_await(cur) or cur.orelse:
        return None
    comp = ast.ListComp(elt=ap.args[0], generators=[ast.comprehension(target=cur.target, iter=cur.iter, ifs=ifs, is_async=0)])
    return ast.copy_location(comp, cur)


def reads_buffer(e: ast.AST, attr: str, ctx=None, f: FuncInfo | None = None) -> bool:
    """e mentions the buffer: directly, through a local alias, or (ctx/f given) by calling a helper that reads or removes from it."""
    if any(isinstance(x, ast.expr) and buffer_attr(x) == attr for x in ast.walk(e)):
        return True
    if ctx is not None and f is not None:
        inner = {id(x) for x in ast.walk(e)}
        for what in ("reads", "removes"):
            if any(id(c) in inner for c, _nm in helper_calls(ctx, f, what, attr)):
                return True
    return False


def none_propagation(ctx: Ctx, chk, rule: str) -> None:
    """With message_buffer=False, Gateway.send hands None to the outgoing handler and no parking branch is taken."""
    from ..cfg import CFG as _CFG
    from ..interp import Const, Frame, UNKNOWN

    I = ctx.I
    send = ctx.inl(ctx.func("aiomysensors.gateway.Gateway.send"))  # the dispatch step may be a private helper coroutine
    for V in ctx.versions:
        fr = Frame(I.make_callee(send, send.cls), V).bind("message_buffer", frozenset([Const(False)]))
        from . import tables

        calls = tables.dispatch_calls(ctx, send, tables.DISPATCH_OUT)
        if len(calls) != 1:
            raise AnalysisError("handler call in Gateway.send not found")
        c = calls[0]
        chk.instance(rule)
        vals = I.eval(c.args[2], fr) if len(c.args) >= 3 else frozenset([UNKNOWN])
        if len(c.args) >= 3 and isinstance(c.args[2], ast.Name) and (UNKNOWN in vals or not vals) and len(I.local_assigns(send).get(c.args[2].id) or []) > 1:
            # a local with a default and a conditional re-binding (`buf = None` / `if message_buffer: buf = self._buffer`):
            # the bindings that can reach the call under message_buffer=False
            from .common import reaching_defs

            gs = _CFG(send.node)
            at = gs.nodes_where(lambda x: x.contains(c))
            acc: set = set()
            for dn in reaching_defs(gs, c.args[2].id, at[0]) if at else []:
                dead = False
                for tn in [x for x in gs.nodes if x.kind == "test" and gs.dominates(x, dn)]:
                    pol = branch_polarity(gs, tn, [dn])
                    tv = I.truth(tn.ast, fr)
                    if pol is not None and tv is not None and tv != pol:
                        dead = True
                if dead:
                    continue
                dv = getattr(dn.ast, "value", None)
                acc |= set(I.eval(dv, fr)) if dv is not None else {UNKNOWN}
            if acc:
                vals = frozenset(acc)
        key = f"{send.fq}::buffer-argument"
        if vals == frozenset([Const(None)]):
            chk.ok(rule, f"{key}@{V}", "message_buffer=False -> the handler receives None", ctx.loc(send, c), sample=V == "1.4")
        else:
            chk.refute(rule, key, f"with message_buffer=False the outgoing handler receives {sorted(map(repr, vals))} instead of None: an unbuffered send to a sleeping node is parked (again) instead of written", ctx.loc(send, c), version=V)
        for t in I.resolve_call(c, fr):
            if t.kind != "repo" or t.frame is None:
                continue
            hf = t.frame.func
            hparams = [p_ for p_ in hf.positional_params if p_ not in ("self", "cls")]
            if len(c.args) >= 3 and len(hparams) >= 3 and vals and UNKNOWN not in vals:
                t.frame = t.frame.bind(hparams[2], vals)  # the buffer argument as decided above (path-sensitively)
            for attr in BUFFERS:
                for st, _k, _v in store_sites(ctx, hf, attr):
                    chk.instance(rule)
                    g = _CFG(hf.node)
                    snodes = g.nodes_of(_stmt(ctx, hf, st))
                    tests = [x for x in g.nodes if x.kind == "test" and all(g.dominates(x, s) for s in snodes)]
                    k = f"{hf.fq}::park-branch::{attr}"
                    # polarity: the store may sit in the else-branch of an inverted guard (`if not (...): write / else: park`)
                    dead = False
                    for x in tests:
                        pol = branch_polarity(g, x, snodes)
                        tv = I.truth(x.ast, t.frame)
                        if pol is not None and tv is not None and tv != pol:
                            dead = True
                    if dead:
                        chk.ok(rule, f"{k}@{V}", "parking branch definitely not taken when the buffer argument is None", ctx.loc(hf, st), sample=V == "1.4")
                    else:
                        chk.refute(rule, k, f"{hf.qualname} can park in {attr} although the buffer argument is None (message_buffer=False)", ctx.loc(hf, st), version=V)


def branch_polarity(g, test_node, targets) -> bool | None:
    """True when only the true-branch of the test leads to the target nodes, False when only the false-branch, else None."""
    reach = {}
    for lab in ("t", "f"):
        starts = [s_ for s_, l_ in test_node.succ if l_ == lab]
        reach[lab] = any(s_ in targets for s_ in starts) or g.reach_avoiding(starts, lambda x: x in targets, lambda x: x is test_node, from_succ=False) is not None
    if reach["t"] and not reach["f"]:
        return True
    if reach["f"] and not reach["t"]:
        return False
    return None


COPY_FORMS = ("Message(**vars(In))", "copy.copy(In)", "copy(In)", "copy.deepcopy(In)", "deepcopy(In)", "replace(In)", "dataclasses.replace(In)")


def is_message_or_copy(canon_value: str) -> bool:
    return canon_value == "In" or canon_value in COPY_FORMS


def entry_names(ctx: Ctx, f: FuncInfo, attr: str) -> dict[str, ast.expr]:
    """Locals bound to an element of <x>.<attr>: name -> key expression (None when bound by iteration)."""
    out: dict = {}
    for n in ctx.own_nodes(f):
        if isinstance(n, ast.Assign) and len(n.targets) == 1 and isinstance(n.targets[0], ast.Name):
            v = n.value
            if isinstance(v, ast.Call) and isinstance(v.func, ast.Attribute) and v.func.attr in ("get", "pop", "setdefault") and buffer_attr(v.func.value) == attr and v.args:
                out[n.targets[0].id] = v.args[0]
            elif isinstance(v, ast.Subscript) and buffer_attr(v.value) == attr:
                out[n.targets[0].id] = v.slice
        elif isinstance(n, ast.NamedExpr) and isinstance(n.target, ast.Name):
            v = n.value
            if isinstance(v, ast.Call) and isinstance(v.func, ast.Attribute) and v.func.attr in ("get", "setdefault") and buffer_attr(v.func.value) == attr and v.args:
                out[n.target.id] = v.args[0]
        elif isinstance(n, (ast.For, ast.comprehension)):
            it = n.iter
            if isinstance(it, ast.Call) and isinstance(it.func, ast.Attribute) and it.func.attr in ("values", "items") and buffer_attr(it.func.value) == attr:
                t = n.target
                if it.func.attr == "values" and isinstance(t, ast.Name):
                    out[t.id] = None
                elif it.func.attr == "items" and isinstance(t, ast.Tuple) and len(t.elts) == 2 and isinstance(t.elts[1], ast.Name):
                    out[t.elts[1].id] = None
    return out


def inplace_updates(ctx: Ctx, f: FuncInfo, attr: str) -> list[tuple[ast.stmt, str, str]]:
    """Attribute stores on an element of the buffer: (statement, entry name, attribute)."""
    names = entry_names(ctx, f, attr)
    out = []
    for n in ctx.own_nodes(f):
        if isinstance(n, (ast.Assign, ast.AugAssign, ast.AnnAssign)):
            targets = n.targets if isinstance(n, ast.Assign) else [n.target]
            for t in targets:
                if isinstance(t, ast.Attribute) and isinstance(t.value, ast.Name) and t.value.id in names:
                    out.append((n, t.value.id, t.attr))
                elif isinstance(t, ast.Attribute) and isinstance(t.value, ast.Subscript) and buffer_attr(t.value.value) == attr:
                    out.append((n, norm(t.value), t.attr))
    return out


def buffer_once(ctx, chk, rule: str = "BUFFER-ONCE") -> None:
    """Whatever is parked must still be there at the node's next wake: the buffer object itself is never replaced."""
    chk.rule(rule, "the gateway's sleep buffer is created once, by Gateway.__init__ (directly, or in a private helper that only __init__ calls), and never re-bound afterwards: no version report, reconnect or other event can drop every parked command by replacing the buffer object")
    n = 0
    for f in ctx.prog.all_functions():
        for node in ctx.own_nodes(f):
            if not isinstance(node, (ast.Assign, ast.AnnAssign, ast.AugAssign)):
                continue
            targets = node.targets if isinstance(node, ast.Assign) else [node.target]
            for t in targets:
                if not (isinstance(t, ast.Attribute) and t.attr == "_message_buffer"):
                    continue
                n += 1
                chk.instance(rule)
                key = f"{f.fq}::{norm(node)[:60]}"
                ok = f.name == "__init__"
                if not ok and f.cls is not None and f.name.startswith("_") and not f.name.startswith("__"):
                    callers = [g_ for g_ in ctx.prog.all_functions() if g_ is not f and any(isinstance(x, ast.Attribute) and x.attr == f.name for x in ctx.own_nodes(g_))]
                    ok = bool(callers) and all(g_.name == "__init__" and g_.cls is f.cls for g_ in callers)
                if ok:
                    chk.ok(rule, key, "the buffer is created during construction only", f"{f.module.relpath}:{node.lineno}", sample=n <= 1)
                else:
                    chk.refute(rule, key, f"{f.qualname} re-binds the sleep buffer (`{norm(node)[:60]}`): every command parked for a sleeping node at that moment is silently dropped and never written at the node's wake", f"{f.module.relpath}:{node.lineno}")
    # constructions of the buffer class, directly or as the default of a field of a state object: every place that
    # builds one must be construction-time code of the gateway (a buffer that comes with a state object is re-created
    # whenever that object is)
    bufcls = [c for c in ctx.prog.all_classes() if any(nm in BUFFERS for nm, _v in c.attr_order)]
    carriers = list(bufcls)
    for _ in range(3):
        for c in ctx.prog.all_classes():
            if c in carriers:
                continue
            for _nm, val in c.attr_order:
                if val is None:
                    continue
                for kw in [k_ for x in ast.walk(val) if isinstance(x, ast.Call) for k_ in x.keywords if k_.arg == "default_factory"]:
                    d = ctx.prog.resolve_expr(c.module, kw.value) if isinstance(kw.value, (ast.Name, ast.Attribute)) else None
                    if d is not None and d.kind == "class" and d.obj in carriers and c not in carriers:
                        carriers.append(c)
    for f in ctx.prog.all_functions():
        for node in ctx.own_nodes(f):
            if not (isinstance(node, ast.Call) and isinstance(node.func, (ast.Name, ast.Attribute))):
                continue
            d = ctx.prog.resolve_expr(ctx.prog.origin(f.module, node), node.func)
            if d is None or d.kind != "class" or d.obj not in carriers:
                d = _replace_of_carrier(ctx, f, node, carriers)
                if d is None:
                    continue
            par = ctx.prog.parents.get(node)
            if isinstance(par, (ast.Assign, ast.AnnAssign)) and any(isinstance(t, ast.Attribute) and t.attr == "_message_buffer" for t in (par.targets if isinstance(par, ast.Assign) else [par.target])):
                continue  # judged above
            n += 1
            chk.instance(rule)
            key = f"{f.fq}::{norm(node)[:60]}::constructs-buffer"
            ok = f.name in ("__init__", "__post_init__")
            if not ok and f.cls is not None and f.name.startswith("_") and not f.name.startswith("__"):
                callers = [g_ for g_ in ctx.prog.all_functions() if g_ is not f and any(isinstance(x, ast.Attribute) and x.attr == f.name for x in ctx.own_nodes(g_))]
                ok = bool(callers) and all(g_.name == "__init__" and g_.cls is f.cls for g_ in callers)
            if not ok and d.obj not in bufcls and not isinstance(d, SimpleNamespace) and _carries_existing_buffer(ctx, d.obj, node, carriers):
                chk.ok(rule, key, "the new state object is handed the existing buffer", ctx.loc(f, node), sample=False)
            elif ok:
                chk.ok(rule, key, "built during construction only", ctx.loc(f, node), sample=False)
            else:
                what = d.obj.name if d.obj in bufcls else f"{d.obj.name} (which carries a fresh sleep buffer as a field default)"
                chk.refute(rule, key, f"{f.qualname} builds a new {what} (`{norm(node)[:60]}`): every command parked for a sleeping node and every outstanding-request marker held at that moment is silently dropped", ctx.loc(f, node))
    chk.floor(rule, "bindings of the sleep buffer", n, 1)


def _carries_existing_buffer(ctx, cls, call: ast.Call, carriers: list) -> bool:
    """`State(protocol, version, self._state.message_buffer)`: the field of the state class whose default builds a fresh
    buffer is given explicitly, as a plain attribute read of an object that exists already (not a call)."""
    order = [nm for nm, _v in cls.attr_order]
    for i, (nm, val) in enumerate(cls.attr_order):
        if val is None or not isinstance(val, ast.Call):
            continue
        kws = {k.arg: k.value for k in val.keywords}
        if "default_factory" not in kws:
            continue
        dd = ctx.prog.resolve_expr(cls.module, kws["default_factory"]) if isinstance(kws["default_factory"], (ast.Name, ast.Attribute)) else None
        if dd is None or dd.kind != "class" or dd.obj not in carriers:
            continue
        if isinstance(kws.get("init"), ast.Constant) and kws["init"].value is False:
            return False
        given = None
        if i < len(call.args) and not any(isinstance(a, ast.Starred) for a in call.args):
            given = call.args[i]
        for k in call.keywords:
            if k.arg == nm:
                given = k.value
        if given is None or not isinstance(given, ast.Attribute) or any(isinstance(x, ast.Call) for x in ast.walk(given)):
            return False
    return bool(order)


def _replace_of_carrier(ctx, f: FuncInfo, node: ast.Call, carriers: list):
    """`dataclasses.replace(state, ...)` / `copy.replace(state, ...)` of an object that carries the buffer in a field
    that is not an __init__ parameter (`field(default_factory=..., init=False)`): the copy is built by calling the class,
    so it gets a fresh buffer (replace() copies only init fields)."""
    fact = ctx.prog.call_fact(ctx.prog.origin(f.module, node), node)
    if not (fact and fact[0] in ("dataclasses.replace", "copy.replace")) or not node.args:
        return None
    ty = ctx.prog.type_of(ctx.prog.origin(f.module, node), node.args[0]) or ""
    for c in carriers:
        if ty.split("[")[0] in (c.fq, f"{c.fq}?") or ty.replace("builtins.", "") in (c.fq,):
            for nm, val in c.attr_order:
                if val is None or not isinstance(val, ast.Call):
                    continue
                kws = {k.arg: k.value for k in val.keywords}
                fresh = "default_factory" in kws and isinstance(kws.get("init"), ast.Constant) and kws["init"].value is False
                if not fresh:
                    continue
                dd = ctx.prog.resolve_expr(c.module, kws["default_factory"]) if isinstance(kws["default_factory"], (ast.Name, ast.Attribute)) else None
                if dd is not None and dd.kind == "class" and dd.obj in carriers and nm not in {k.arg for k in node.keywords}:
                    from types import SimpleNamespace

                    return SimpleNamespace(kind="class", obj=c)
            return None
    return None


_MAPPING_PROTOCOL = (
    "__setitem__", "__getitem__", "__delitem__", "__contains__", "__iter__", "__len__", "__missing__", "__eq__",
    "get", "pop", "popitem", "setdefault", "update", "clear", "copy", "items", "values", "keys",
)


def _factory_of(value: ast.expr) -> ast.expr | None:
    """`field(default_factory=F)` -> F; a plain initial value -> that value."""
    if isinstance(value, ast.Call) and norm(value.func).split(".")[-1] == "field":
        for kw in value.keywords:
            if kw.arg == "default_factory":
                return kw.value
            if kw.arg == "default":
                return kw.value
        return None
    return value


def buffer_plain(ctx, chk, rule: str = "BUFFER-PLAIN") -> None:
    """The sleep-buffer rules read `buf[key] = m`, `buf.pop(key)`, `buf.get(key)` ... with the meaning these have on
    a plain dict.  A container class of the repository that overrides the mapping protocol changes that meaning
    (e.g. `__setitem__` that updates the parked message in place instead of replacing it)."""
    chk.rule(rule, "the containers of the sleep buffer are plain dicts: where a repository class is used as the container it overrides none of the mapping protocol (`__setitem__`, `__getitem__`, `get`, `pop`, `items` ...), so storing under a key replaces the parked message object and reading / removing return exactly what was stored")
    n = 0
    cands = []
    for c in ctx.prog.all_classes():
        for name, value in c.attr_order:
            if name in BUFFERS:
                cands.append((c, name, value))
        for init in c.methods.get("__init__", []):
            for node in ctx.own_nodes(init):
                if isinstance(node, (ast.Assign, ast.AnnAssign)) and node.value is not None:
                    for t in node.targets if isinstance(node, ast.Assign) else [node.target]:
                        if isinstance(t, ast.Attribute) and t.attr in BUFFERS and norm(t.value) == "self":
                            cands.append((c, t.attr, node.value))
    for c, name, value in cands:
        # the declared entry type: one message per key (a dict of per-node dicts / lists of messages is another layout)
        for b_ in c.node.body:
            if isinstance(b_, ast.AnnAssign) and isinstance(b_.target, ast.Name) and b_.target.id == name and isinstance(b_.annotation, ast.Subscript):
                sl = b_.annotation.slice
                vt = sl.elts[-1] if isinstance(sl, ast.Tuple) and sl.elts else sl
                head = norm(vt.value if isinstance(vt, ast.Subscript) else vt).rsplit(".", 1)[-1]
                if head in ("dict", "Dict", "list", "List", "set", "Set", "defaultdict", "DefaultDict", "OrderedDict", "deque", "tuple", "Tuple", "Mapping", "MutableMapping", "Sequence"):
                    raise AnalysisError(f"{c.fq}::{name}: the entries of the buffer are declared as containers (`{norm(b_.annotation)[:70]}`), not as one message per (node, child, type) key - this layout is not modelled")
        if True:
            n += 1
            chk.instance(rule)
            key = f"{c.fq}::{name}"
            where = f"{c.module.relpath}:{getattr(value, 'lineno', c.node.lineno)}"
            fac = _factory_of(value) if value is not None else None
            if fac is None:
                raise AnalysisError(f"{key}: no initial value / default_factory found for the buffer container")
            if isinstance(fac, ast.Lambda):
                fac = fac.body
            if isinstance(fac, ast.Dict) and not fac.keys:
                chk.ok(rule, key, "an empty dict display", where)
                continue
            target = fac.func if isinstance(fac, ast.Call) and not fac.args and not fac.keywords else fac
            d = ctx.prog.resolve_expr(c.module, target)
            if d is not None and d.kind == "external" and d.obj == "builtins.dict":
                chk.ok(rule, key, "the builtin dict", where)
                continue
            if d is not None and d.kind == "func":
                rets = [x.value for x in ctx.own_nodes(d.obj) if isinstance(x, ast.Return) and x.value is not None]
                if rets and all((isinstance(r, ast.Dict) and not r.keys) or (isinstance(r, ast.Call) and norm(r.func) == "dict" and not r.args and not r.keywords) for r in rets):
                    chk.ok(rule, key, f"{d.obj.qualname} returns an empty plain dict", where)
                    continue
            if d is not None and d.kind == "class":
                k: "ClassInfo" = d.obj
                if not any(b in ("builtins.dict", "dict") or str(b).endswith(".dict") for b in k.external_bases()):
                    raise AnalysisError(f"{key}: container class {k.fq} is not a dict subclass; the buffer rules do not model it")
                over = sorted(mn for mn in k.mro_methods() if mn in _MAPPING_PROTOCOL)
                if over:
                    f0 = k.mro_methods()[over[0]][0]
                    chk.refute(rule, key, f"the container class {k.name} overrides {', '.join(over)}: `buffer[key] = message` / `buffer.pop(key)` no longer have the plain-dict meaning the buffer is used with (e.g. a store may update the parked message object in place - a flush that already took it then writes the newer payload and the command is also kept / dropped wrongly)", f"{f0.module.relpath}:{f0.node.lineno}")
                else:
                    chk.ok(rule, key, f"{k.name} is a dict subclass that overrides none of the mapping protocol", where)
                continue
            raise AnalysisError(f"{key}: cannot decide what container `{norm(fac)[:60]}` creates")
    chk.floor(rule, "buffer containers", n, 2)
