"""Task lifecycle rules shared by C16 and C18.

LIFE-1 cancel-then-await: `t.cancel(); await t` re-raises CancelledError in the
awaiter unless the await is protected or the task body turns cancellation into a
normal return at *every* suspension point.
"""

from __future__ import annotations

import ast

from ..interp import Callee, Frame
from ..model import AnalysisError, FuncInfo, norm
from .common import Ctx, fkey

CANCELLED = ("CancelledError", "asyncio.CancelledError", "BaseException", "asyncio.exceptions.CancelledError")


def create_task_sites(ctx: Ctx) -> list[tuple[FuncInfo, ast.Call]]:
    out = []
    for f in ctx.prog.all_functions():
        for n in ctx.own_nodes(f):
            if isinstance(n, ast.Call):
                fact = ctx.prog.call_fact(f.module, n)
                if fact and fact[0] in ("asyncio.tasks.create_task", "asyncio.tasks.ensure_future"):
                    out.append((f, n))
    return sorted(out, key=lambda x: (x[0].module.relpath, x[1].lineno))


def handler_catches_cancel(h: ast.ExceptHandler) -> bool:
    if h.type is None:
        return True
    elts = h.type.elts if isinstance(h.type, ast.Tuple) else [h.type]
    return any(norm(x) in CANCELLED for x in elts)


def protected_from_cancel(ctx: Ctx, f: FuncInfo, node: ast.AST) -> str | None:
    """Is `node` inside try/except CancelledError (not re-raising) or suppress(CancelledError)?"""
    prog = ctx.prog
    cur = node
    while cur in prog.parents:
        par = prog.parents[cur]
        if isinstance(par, ast.Try) and any(b is cur or any(x is cur for x in ast.walk(b)) for b in par.body):
            for h in par.handlers:
                if handler_catches_cancel(h):
                    reraises = any(isinstance(x, ast.Raise) for b in h.body for x in ast.walk(b))
                    if not reraises:
                        return f"try/except {norm(h.type) if h.type is not None else ''} at line {par.lineno}"
        if isinstance(par, (ast.With, ast.AsyncWith)) and any(b is cur or any(x is cur for x in ast.walk(b)) for b in par.body):
            for it in par.items:
                ce = it.context_expr
                if isinstance(ce, ast.Call) and norm(ce.func).endswith("suppress") and any(norm(a) in CANCELLED for a in ce.args):
                    return f"contextlib.suppress({', '.join(norm(a) for a in ce.args)}) at line {par.lineno}"
        if par is f.node:
            break
        cur = par
    return None


def body_absorbs_cancel(ctx: Ctx, body: FuncInfo) -> tuple[bool, str]:
    """Every suspension point of the task body is inside a handler turning cancellation into termination."""
    susp = []
    for n in ctx.own_nodes(body):
        if isinstance(n, (ast.Await, ast.AsyncFor, ast.AsyncWith)):
            susp.append(n)
    if not susp:
        return True, "no suspension point"
    for n in susp:
        if protected_from_cancel(ctx, body, n) is None:
            return False, f"suspension point `{norm(n)[:60]}` (line {n.lineno}) is outside any CancelledError handler"
    return True, "every suspension point is inside a CancelledError handler"


def life1(ctx: Ctx, chk, rule: str, funcs: list[FuncInfo]) -> int:
    """cancel-then-await in the given functions."""
    n_inst = 0
    eea = ctx.eea()
    for f in funcs:
        cancels = [n for n in ctx.own_nodes(f) if isinstance(n, ast.Call) and isinstance(n.func, ast.Attribute) and n.func.attr == "cancel" and not n.args]
        for c in cancels:
            tgt = norm(c.func.value)
            t = ctx.prog.type_of(f.module, c.func.value) or ""
            if "Task" not in t and "Future" not in t:
                continue
            awaits = [n for n in ctx.own_nodes(f) if isinstance(n, ast.Await) and norm(n.value) == tgt and n.lineno >= c.lineno]
            # the outcome of the cancelled task may also be fetched without awaiting it: `await asyncio.wait([t])`
            # (never raises the task's outcome) followed by t.exception() / t.result(), which raise CancelledError
            # for a task that ended cancelled
            waits = [n for n in ctx.own_nodes(f) if isinstance(n, ast.Await) and isinstance(n.value, ast.Call) and norm(n.value.func).rsplit(".", 1)[-1] == "wait" and any(isinstance(x, ast.Name) and x.id == tgt for x in ast.walk(n.value)) and n.lineno >= c.lineno]
            fetches = [n for n in ctx.own_nodes(f) if isinstance(n, ast.Call) and isinstance(n.func, ast.Attribute) and n.func.attr in ("exception", "result") and norm(n.func.value) == tgt and not n.args and n.lineno >= c.lineno]
            for a in (fetches if waits else []):
                n_inst += 1
                chk.instance(rule)
                key = fkey(f, a)
                prot = protected_from_cancel(ctx, f, a)
                if prot:
                    chk.ok(rule, key, f"outcome of the cancelled task fetched under {prot}", ctx.loc(f, a))
                    continue
                fr = Frame(Callee(f, f.cls, ()), None)
                bodies = eea.task_bodies(ast.Name(id=tgt, ctx=ast.Load()), fr) if tgt.isidentifier() else []
                ok_all = bool(bodies)
                why = "task body not found"
                for g, call in bodies:
                    gfr = Frame(Callee(g, g.cls, ()), None)
                    for tg in ctx.I.resolve_call(call, gfr):
                        if tg.kind == "repo" and tg.frame is not None:
                            ok, why = body_absorbs_cancel(ctx, tg.frame.func)
                            if not ok:
                                ok_all = False
                                why = f"{tg.frame.func.qualname}: {why}"
                        else:
                            ok_all = False
                if ok_all:
                    chk.ok(rule, key, f"task body absorbs cancellation: {why}", ctx.loc(f, a))
                else:
                    chk.refute(rule, key, f"`{tgt}.cancel()` ... `{norm(a)}`: Task.{a.func.attr}() raises CancelledError for a task that ended cancelled, which it does whenever it is cancelled at an unprotected suspension point ({why}); everything after it is skipped", ctx.loc(f, a))
            for a in awaits:
                n_inst += 1
                chk.instance(rule)
                key = fkey(f, a)
                prot = protected_from_cancel(ctx, f, a)
                if prot:
                    chk.ok(rule, key, f"await of the cancelled task is protected by {prot}", ctx.loc(f, a))
                    continue
                # does the task body absorb cancellation everywhere?
                fr = Frame(Callee(f, f.cls, ()), None)
                bodies = eea.task_bodies(a.value, fr)
                ok_all = bool(bodies)
                why = "task body not found"
                for g, call in bodies:
                    gfr = Frame(Callee(g, g.cls, ()), None)
                    for tg in ctx.I.resolve_call(call, gfr):
                        if tg.kind == "repo" and tg.frame is not None:
                            ok, why = body_absorbs_cancel(ctx, tg.frame.func)
                            if not ok:
                                ok_all = False
                                why = f"{tg.frame.func.qualname}: {why}"
                        else:
                            ok_all = False
                            why = "task body is not a repository coroutine"
                if ok_all:
                    chk.ok(rule, key, f"task body absorbs cancellation: {why}", ctx.loc(f, a))
                else:
                    chk.refute(
                        rule,
                        key,
                        f"`{tgt}.cancel()` then `await {tgt}` with no CancelledError protection: the awaiter gets CancelledError whenever the task is cancelled at an unprotected suspension point ({why}); everything after the await is skipped",
                        ctx.loc(f, a),
                    )
    return n_inst
